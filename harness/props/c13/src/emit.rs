//! Independent byte-level MD20 emitter for seeds that carry key-frame data (the object API
//! cannot create key frames: the writer only re-emits what a previous parse preserved).
//!
//! Layout knowledge: header order from /repo/docs/src/formats/graphics/m2.md plus the
//! version-dependent fields named in the property (views array vs count, playable animation
//! lookup, texture flip-books), animated values as (interpolation u16, global sequence u16,
//! [ranges], timestamps, values) arrays.  The payloads are laid out *before* their records and
//! the sections in reverse header order, i.e. differently from the crate's writer, so that a
//! rewrite has to relocate every array.
use crate::walker::{self, TrackData, ViewData};
use std::collections::BTreeMap;

pub const TRACKED: [&str; 11] = [
    "bones",
    "particle_emitters",
    "color_animations",
    "texture_animations",
    "transparency_animations",
    "events",
    "attachments",
    "cameras",
    "lights",
    "ribbon_emitters",
    "views",
];

#[derive(Clone, Debug, Default)]
pub struct Seed {
    pub version: u32,
    pub name: Vec<u8>,
    pub n_vertices: usize,
    pub n_global_sequences: usize,
    /// section -> records -> animated values
    pub tracks: BTreeMap<&'static str, Vec<Vec<TrackData>>>,
    /// (ranges bytes, times bytes) per event
    pub events: Vec<(Vec<u8>, Vec<u8>)>,
    pub views: Vec<ViewData>,
    /// records 0 and 2 share the timestamps array of their first animated value
    #[allow(dead_code)]
    pub share: bool,
    /// animated values without key frames carry a non-default interpolation / global sequence
    #[allow(dead_code)]
    pub keyless_headers: bool,
    /// shared arrays: (section, record, animated value, kind) re-uses the array that
    /// (record, animated value, kind) of the same section placed earlier in the file. For
    /// "events" the animated value index is 0. The member's bytes in `tracks` / `events` must
    /// equal the first `count` elements of the source's (`make_*` take care of that).
    pub alias: BTreeMap<(&'static str, usize, usize, u8), (usize, usize, u8)>,
    /// bytes laid out directly behind the array of (section, record, animated value, kind): a
    /// member that shares the offset with a larger count covers them too
    pub tail: BTreeMap<(&'static str, usize, usize, u8), Vec<u8>>,
    /// ribbon / particle emitter records carry non-empty plain sub-arrays (texture and material
    /// index lists, geometry model file name, tile coordinates): (section, record) -> payloads
    pub subarrays: BTreeMap<(&'static str, usize), Vec<Vec<u8>>>,
}

/// kinds of array inside one animated value
pub const RANGES: u8 = 0;
pub const TIMES: u8 = 1;
pub const VALUES: u8 = 2;

struct Out {
    b: Vec<u8>,
}
impl Out {
    fn put(&mut self, d: &[u8]) -> u32 {
        // 4 bytes of padding between arrays: offsets never collide, never 0
        self.b.extend_from_slice(&[0xCD; 4]);
        let o = self.b.len() as u32;
        self.b.extend_from_slice(d);
        o
    }
    fn arr_tail(&mut self, d: &Option<Vec<u8>>, elem: usize, tail: Option<&Vec<u8>>) -> (u32, u32) {
        let r = self.arr(d, elem);
        if let (true, Some(t)) = (r.0 > 0, tail) {
            self.b.extend_from_slice(t);
        }
        r
    }
    fn arr(&mut self, d: &Option<Vec<u8>>, elem: usize) -> (u32, u32) {
        match d {
            Some(v) if !v.is_empty() => {
                let o = self.put(v);
                ((v.len() / elem) as u32, o)
            }
            _ => (0, 0),
        }
    }
}

fn p32(v: &mut Vec<u8>, x: u32) {
    v.extend_from_slice(&x.to_le_bytes());
}
fn p16(v: &mut Vec<u8>, x: u16) {
    v.extend_from_slice(&x.to_le_bytes());
}
fn pf(v: &mut Vec<u8>, x: f32) {
    v.extend_from_slice(&x.to_le_bytes());
}

/// deterministic key-frame payload
pub fn pattern(tag: u32, len: usize) -> Vec<u8> {
    let mut x = gen_seed(tag);
    (0..len)
        .map(|_| {
            x ^= x << 13;
            x ^= x >> 7;
            x ^= x << 17;
            // keep float-looking payloads free of NaN patterns: clear the top exponent bit of every 4th byte
            (x >> 24) as u8 & 0x7F
        })
        .collect()
}
fn gen_seed(tag: u32) -> u64 {
    0x9E37_79B9_7F4A_7C15u64 ^ ((tag as u64 + 1).wrapping_mul(0x2545_F491_4F6C_DD1D)) | 1
}

pub fn timestamps(k: usize, base: u32) -> Vec<u8> {
    (0..k).flat_map(|i| (base + 33 * i as u32).to_le_bytes()).collect()
}

/// Build the spec of a seed: which sections carry records, how many, how many keys.
pub const VARIANTS: [&str; 3] = ["plain", "shared_timestamps", "keyless_tracks_with_header"];

pub fn make_seed(version: u32, sections: &[&'static str], n: usize, k: usize, variant: usize) -> Seed {
    let share = variant == 1;
    let keyless_headers = variant == 2;
    let mut s = Seed { version, name: b"Seed\\Model.m2\0".to_vec(), n_vertices: 2, n_global_sequences: 2, share, keyless_headers, ..Default::default() };
    for (si, sec) in sections.iter().enumerate() {
        match *sec {
            "events" => {
                for i in 0..n {
                    let tag = 7000 + i as u32;
                    let ranges = if version <= 263 && i % 2 == 0 { pattern(tag, 8 * 2) } else { vec![] };
                    let times = if i == 1 { vec![] } else { timestamps(k, 10 * i as u32) };
                    let ranges = if k == 0 { vec![] } else { ranges };
                    s.events.push((ranges, times));
                }
            }
            "views" => {
                if version <= 263 {
                    let sub = if version < 260 { 32 } else { 48 };
                    for i in 0..n.min(2) {
                        let tag = 8000 + 10 * i as u32;
                        s.views.push(ViewData {
                            indices: Some(pattern(tag, 2 * 3 * k)),
                            triangles: Some(pattern(tag + 1, 2 * 3 * k)),
                            properties: Some(if i == 1 { vec![] } else { pattern(tag + 2, 4 * k) }),
                            submeshes: Some(pattern(tag + 3, sub * (1 + i))),
                            batches: Some(pattern(tag + 4, 24 * if k == 1 { 1 } else { 4 })),
                            bone_count_max: [21u32, 0xFFFF_FFFF][i],
                        });
                    }
                }
            }
            sec => {
                let slots = walker::track_slots(sec, version);
                let with_ranges = sec != "bones" || version < 264;
                let mut recs = vec![];
                for i in 0..n {
                    let mut r = vec![];
                    for (j, (_, vsz)) in slots.iter().enumerate() {
                        let tag = (si as u32 + 1) * 1000 + (i * 16 + j) as u32;
                        // mix populated and empty animated values inside one record
                        let populated = (i + j) % 2 == 0 && k > 0;
                        if populated {
                            r.push(TrackData {
                                interp: [1u16, 0, 2, 3][(i + j) % 4],
                                gseq: if j == 1 { 1 } else { 0xFFFF },
                                ranges: Some(if with_ranges && j % 3 != 2 { pattern(tag + 500, 8 * (1 + i % 2)) } else { vec![] }),
                                times: Some(timestamps(k, tag)),
                                values: Some(pattern(tag, vsz * k)),
                            });
                        } else {
                            let (interp, gseq) = if keyless_headers { (1, (j % 2) as u16) } else { (0, 0xFFFF) };
                            r.push(TrackData { interp, gseq, ranges: Some(vec![]), times: Some(vec![]), values: Some(vec![]) });
                        }
                    }
                    recs.push(r);
                }
                if share && n >= 3 && k > 0 {
                    // record 2 re-uses record 0's timestamps of the first animated value
                    let t = recs[0][0].times.clone();
                    recs[2][0].times = t;
                    s.alias.insert((sec, 2, 0, TIMES), (0, 0, TIMES));
                }
                s.tracks.insert(sec, recs);
            }
        }
    }
    s
}

/// Sections with key-less records next to sections that carry key frames: `keyless` sections get
/// `n0` records whose animated values are all empty (default header), `keyed` sections `n1`
/// records with `k` key frames (populated / empty values mixed as in `make_seed`).
pub fn make_mixed(version: u32, keyless: &[&'static str], keyed: &[&'static str], n0: usize, n1: usize, k: usize) -> Seed {
    let mut s = make_seed(version, keyed, n1, k, 0);
    let e = make_seed(version, keyless, n0, 0, 0);
    for (sec, recs) in e.tracks {
        s.tracks.insert(sec, recs);
    }
    if keyless.contains(&"events") {
        s.events = e.events;
    }
    if keyless.contains(&"views") {
        s.views = e.views;
    }
    s
}

fn fixed_fields(sec: &str, i: usize, version: u32) -> (Vec<u8>, Vec<u8>) {
    // (bytes before the animated values, bytes after them); interleaved bases handled by caller
    let mut a = vec![];
    let mut z = vec![];
    match sec {
        "bones" => {
            p32(&mut a, [4u32, 0xFFFF_FFFF, 26][i % 3]); // key bone id (-1 = none)
            p32(&mut a, 0x200);
            p16(&mut a, if i == 0 { 0xFFFF } else { (i - 1) as u16 });
            p16(&mut a, i as u16);
            if version >= 260 {
                p32(&mut a, 0xC0DE_0000 + i as u32);
            }
            for c in 0..3 {
                pf(&mut z, 0.5 * (i + c) as f32);
            }
        }
        "texture_animations" => {
            p16(&mut a, (i % 5) as u16);
            p16(&mut a, 0);
        }
        "attachments" => {
            p32(&mut a, 11 + i as u32);
            p32(&mut a, i as u32);
            for c in 0..3 {
                pf(&mut a, 1.25 * (i + c) as f32);
            }
        }
        "lights" => {
            a.push((i % 4) as u8);
            p16(&mut a, i as u16);
            a.push(0);
            for c in 0..3 {
                pf(&mut a, -2.0 * (i + c) as f32);
            }
            p32(&mut z, 70 + i as u32);
            p16(&mut z, (i % 2) as u16);
            p16(&mut z, 0);
        }
        "particle_emitters" => {
            p32(&mut a, 300 + i as u32);
            p32(&mut a, 0x8);
            for c in 0..3 {
                pf(&mut a, 0.125 * (i + c) as f32);
            }
            p16(&mut a, i as u16);
            p16(&mut a, 0);
            a.extend_from_slice(&[0u8; 8]); // geometry model file name: empty
            p16(&mut a, 0xFFFF);
            p16(&mut a, 0);
            a.extend_from_slice(&[1, (i % 5) as u8, 0, 0]); // blending, emitter type, particle type, head/tail
            a.extend_from_slice(&[0u8; 8]); // tile coordinates: empty
            for c in 0..52 {
                pf(&mut a, 0.5 + c as f32);
            }
            p32(&mut a, 9);
            pf(&mut a, 2.0);
        }
        "ribbon_emitters" => {
            p32(&mut a, i as u32);
            for c in 0..3 {
                pf(&mut a, 3.0 + (i + c) as f32);
            }
            a.extend_from_slice(&[0u8; 16]); // texture / material index arrays: empty
            pf(&mut z, 30.0);
            pf(&mut z, 1.5);
            pf(&mut z, -9.8);
            p16(&mut z, 1);
            p16(&mut z, 2);
            if version >= 272 {
                p16(&mut z, 3);
                p16(&mut z, 4);
            }
            p32(&mut z, 90 + i as u32);
            p32(&mut z, 0x10);
        }
        _ => {}
    }
    (a, z)
}

/// (position inside the record, element size) of the plain sub-arrays of an emitter record
pub fn subarray_slots(sec: &str) -> &'static [(usize, usize)] {
    match sec {
        "ribbon_emitters" => &[(16, 2), (24, 2)],   // texture indices, material indices
        "particle_emitters" => &[(24, 1), (40, 8)], // geometry model file name, tile coordinates
        _ => &[],
    }
}

fn patch_subarrays(o: &mut Out, sec: &str, rec: &mut [u8], subs: &[Vec<u8>]) {
    for ((pos, elem), d) in subarray_slots(sec).iter().zip(subs.iter()) {
        let (c, f) = o.arr(&Some(d.clone()), *elem);
        rec[*pos..*pos + 4].copy_from_slice(&c.to_le_bytes());
        rec[*pos + 4..*pos + 8].copy_from_slice(&f.to_le_bytes());
    }
}

/// (count, offset) of the three arrays of one animated value; `pre[kind]`: the array is shared
/// with one that is already placed (the count is the member's own)
fn track_bytes(o: &mut Out, t: &TrackData, with_ranges: bool, vsize: usize, pre: [Option<u32>; 3], tail: [Option<&Vec<u8>>; 3]) -> (Vec<u8>, [(u32, u32); 3]) {
    let mut v = vec![];
    p16(&mut v, t.interp);
    p16(&mut v, t.gseq);
    let shared = |d: &Option<Vec<u8>>, elem: usize, off: u32| -> (u32, u32) {
        let n = d.as_ref().map(|x| x.len() / elem).unwrap_or(0) as u32;
        if n == 0 {
            (0, 0)
        } else {
            (n, off)
        }
    };
    // payload order inside one value: values, then times, then ranges (the crate writes the reverse)
    let va = match pre[VALUES as usize] {
        Some(off) => shared(&t.values, vsize, off),
        None => o.arr_tail(&t.values, vsize, tail[VALUES as usize]),
    };
    let ta = match pre[TIMES as usize] {
        Some(off) => shared(&t.times, 4, off),
        None => o.arr_tail(&t.times, 4, tail[TIMES as usize]),
    };
    let ra = if with_ranges {
        match pre[RANGES as usize] {
            Some(off) => shared(&t.ranges, 8, off),
            None => o.arr_tail(&t.ranges, 8, tail[RANGES as usize]),
        }
    } else {
        (0, 0)
    };
    if with_ranges {
        p32(&mut v, ra.0);
        p32(&mut v, ra.1);
    }
    p32(&mut v, ta.0);
    p32(&mut v, ta.1);
    p32(&mut v, va.0);
    p32(&mut v, va.1);
    (v, [ra, ta, va])
}

pub fn emit(s: &Seed) -> Vec<u8> {
    let hl = walker::header_len(s.version, 0);
    let mut o = Out { b: vec![0u8; hl] };
    let mut pairs: BTreeMap<&str, (u32, u32)> = BTreeMap::new();

    // sections in reverse header order
    let mut order: Vec<&'static str> = s.tracks.keys().copied().collect();
    order.sort_by_key(|n| std::cmp::Reverse(walker::ORDER.iter().position(|x| x == n).unwrap_or(0)));
    for sec in order {
        let recs = &s.tracks[sec];
        let slots = walker::track_slots(sec, s.version);
        let with_ranges = sec != "bones" || s.version < 264;
        let mut all = vec![];
        // where every array of this section was placed: (record, value, kind) -> offset
        let mut placed: BTreeMap<(usize, usize, u8), u32> = BTreeMap::new();
        for (i, r) in recs.iter().enumerate() {
            let (mut rec, tail) = fixed_fields(sec, i, s.version);
            if let Some(subs) = s.subarrays.get(&(sec, i)) {
                patch_subarrays(&mut o, sec, &mut rec, subs);
            }
            if sec == "cameras" {
                p32(&mut rec, i as u32 % 2);
                pf(&mut rec, 0.8726646);
                pf(&mut rec, 100.0 + i as f32);
                pf(&mut rec, 0.1);
            }
            for (j, t) in r.iter().enumerate() {
                let mut pre = [None; 3];
                for kind in [RANGES, TIMES, VALUES] {
                    if let Some(src) = s.alias.get(&(sec, i, j, kind)) {
                        pre[kind as usize] = Some(*placed.get(src).expect("alias source must be placed (and non-empty) before its member"));
                    }
                }
                let tail = [s.tail.get(&(sec, i, j, RANGES)), s.tail.get(&(sec, i, j, TIMES)), s.tail.get(&(sec, i, j, VALUES))];
                let (tb, at) = track_bytes(&mut o, t, with_ranges, slots[j].1, pre, tail);
                for kind in [RANGES, TIMES, VALUES] {
                    if at[kind as usize].0 > 0 {
                        placed.insert((i, j, kind), at[kind as usize].1);
                    }
                }
                rec.extend_from_slice(&tb);
                if sec == "cameras" && j < 2 {
                    for c in 0..3 {
                        pf(&mut rec, (10 * j + c + i) as f32); // position base / target base
                    }
                }
            }
            rec.extend_from_slice(&tail);
            if sec == "cameras" && s.version >= 264 {
                p32(&mut rec, 40 + i as u32);
                p16(&mut rec, 1);
                p16(&mut rec, 0);
            }
            assert_eq!(rec.len(), walker::rec_size(sec, s.version), "emitter record size {sec}");
            all.extend_from_slice(&rec);
        }
        let off = o.put(&all);
        pairs.insert(sec, (recs.len() as u32, off));
    }
    if !s.events.is_empty() {
        let mut all = vec![];
        let mut placed: BTreeMap<(usize, usize, u8), u32> = BTreeMap::new();
        for (i, (ranges, times)) in s.events.iter().enumerate() {
            let ta = match s.alias.get(&("events", i, 0, TIMES)) {
                Some(src) if !times.is_empty() => ((times.len() / 4) as u32, placed[src]),
                _ => o.arr_tail(&Some(times.clone()), 4, s.tail.get(&("events", i, 0, TIMES))),
            };
            let ra = match s.alias.get(&("events", i, 0, RANGES)) {
                Some(src) if !ranges.is_empty() => ((ranges.len() / 8) as u32, placed[src]),
                _ => o.arr_tail(&Some(ranges.clone()), 8, s.tail.get(&("events", i, 0, RANGES))),
            };
            if ta.0 > 0 {
                placed.insert((i, 0, TIMES), ta.1);
            }
            if ra.0 > 0 {
                placed.insert((i, 0, RANGES), ra.1);
            }
            let mut rec = vec![];
            rec.extend_from_slice(&[b'$', b'E', b'V', b'0' + i as u8]);
            p32(&mut rec, 500 + i as u32);
            p16(&mut rec, i as u16);
            p16(&mut rec, 0);
            for c in 0..3 {
                pf(&mut rec, (i + c) as f32);
            }
            p16(&mut rec, 0);
            p16(&mut rec, 0xFFFF);
            p32(&mut rec, ra.0);
            p32(&mut rec, ra.1);
            p32(&mut rec, ta.0);
            p32(&mut rec, ta.1);
            all.extend_from_slice(&rec);
        }
        let off = o.put(&all);
        pairs.insert("events", (s.events.len() as u32, off));
    }
    if !s.views.is_empty() {
        let sub = if s.version < 260 { 32 } else { 48 };
        let mut all = vec![];
        for v in &s.views {
            let b = o.arr(&v.batches, 24);
            let sm = o.arr(&v.submeshes, sub);
            let p = o.arr(&v.properties, 4);
            let t = o.arr(&v.triangles, 2);
            let ix = o.arr(&v.indices, 2);
            for (c, f) in [ix, t, p, sm, b] {
                p32(&mut all, c);
                p32(&mut all, f);
            }
            p32(&mut all, v.bone_count_max);
        }
        let off = o.put(&all);
        pairs.insert("views", (s.views.len() as u32, off));
    }
    // static content: vertices, global sequences, name (written last)
    let mut vx = vec![];
    for i in 0..s.n_vertices {
        for c in 0..3 {
            pf(&mut vx, (i * 3 + c) as f32);
        }
        vx.extend_from_slice(&[255, 0, 0, 0]);
        vx.extend_from_slice(&[0, 0, 0, 0]);
        for c in 0..3 {
            pf(&mut vx, if c == 2 { 1.0 } else { 0.0 });
        }
        for c in 0..4 {
            pf(&mut vx, 0.25 * c as f32);
        }
    }
    if s.n_vertices > 0 {
        let off = o.put(&vx);
        pairs.insert("vertices", (s.n_vertices as u32, off));
    }
    if s.n_global_sequences > 0 {
        let gs: Vec<u8> = (0..s.n_global_sequences).flat_map(|i| (1000 * (i as u32 + 1)).to_le_bytes()).collect();
        let off = o.put(&gs);
        pairs.insert("global_sequences", (s.n_global_sequences as u32, off));
    }
    if !s.name.is_empty() {
        let off = o.put(&s.name);
        pairs.insert("name", (s.name.len() as u32, off));
    }
    // trailing guard so that no array ends exactly at EOF
    o.b.extend_from_slice(&[0xEE; 8]);

    // header
    let mut h = vec![];
    h.extend_from_slice(b"MD20");
    p32(&mut h, s.version);
    for f in walker::ORDER {
        match *f {
            "#flags" => p32(&mut h, 0),
            "#views" => {
                if s.version <= 263 {
                    let (c, f) = pairs.get("views").copied().unwrap_or((0, 0));
                    p32(&mut h, c);
                    p32(&mut h, f);
                } else {
                    p32(&mut h, 1);
                }
            }
            "#floats" => {
                for k in 0..14 {
                    pf(&mut h, k as f32 - 3.5);
                }
            }
            n if n.starts_with('?') => {
                if s.version <= 263 {
                    p32(&mut h, 0);
                    p32(&mut h, 0);
                }
            }
            n => {
                let (c, f) = pairs.get(n).copied().unwrap_or((0, 0));
                p32(&mut h, c);
                p32(&mut h, f);
            }
        }
    }
    assert_eq!(h.len(), hl);
    o.b[..hl].copy_from_slice(&h);
    o.b
}
