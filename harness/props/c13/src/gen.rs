//! Object-API model generator: one site per section, a few population levels per site.
//! `build` produces the model the way a library user would (API idiom: `M2Model::default`,
//! `M2Header::new`, `M2Bone::new`, default animation blocks); `canon` maps it to the form a
//! faithful write→parse must yield in the given version (optional fields that the version does
//! not store are dropped, defaults the format forces are filled in).
use wow_m2::chunks::animation::{M2Animation, M2AnimationBlock, M2AnimationTrack, M2Range};
use wow_m2::chunks::bone::{M2Bone, M2BoneFlags};
use wow_m2::chunks::material::{M2BlendMode, M2Material, M2RenderFlags};
use wow_m2::chunks::texture::{M2Texture, M2TextureFlags, M2TextureType};
use wow_m2::chunks::*;
use wow_m2::common::{C2Vector, C3Vector, FixedString, M2Array, M2ArrayString};
use wow_m2::header::{M2Header, M2ModelFlags};
use wow_m2::{M2Model, M2Version};

pub struct Site {
    pub name: &'static str,
    pub levels: &'static [&'static str],
    /// level used by the "full" baseline
    pub full: u8,
}

const EOT: &[&str] = &["empty", "one", "three"];

pub const SITES: &[Site] = &[
    Site { name: "name", levels: &["none", "short", "len255", "empty_string"], full: 2 },
    Site { name: "global_sequences", levels: EOT, full: 2 },
    Site { name: "animations", levels: EOT, full: 2 },
    Site { name: "animation_lookup", levels: EOT, full: 2 },
    Site { name: "bones", levels: EOT, full: 2 },
    Site { name: "key_bone_lookup", levels: EOT, full: 2 },
    Site { name: "vertices", levels: EOT, full: 2 },
    Site { name: "textures", levels: &["empty", "one_unnamed", "three_unnamed", "one_named", "three_mixed"], full: 2 },
    Site { name: "materials", levels: EOT, full: 2 },
    Site { name: "bone_lookup_table", levels: EOT, full: 2 },
    Site { name: "texture_lookup_table", levels: EOT, full: 2 },
    Site { name: "texture_units", levels: EOT, full: 2 },
    Site { name: "transparency_lookup_table", levels: EOT, full: 2 },
    Site { name: "texture_animation_lookup", levels: EOT, full: 2 },
    Site { name: "bounding_triangles", levels: EOT, full: 2 },
    Site { name: "bounding_vertices", levels: EOT, full: 2 },
    Site { name: "bounding_normals", levels: EOT, full: 2 },
    Site { name: "attachment_lookup_table", levels: EOT, full: 2 },
    Site { name: "camera_lookup_table", levels: EOT, full: 2 },
    Site { name: "particle_emitters", levels: EOT, full: 2 },
    Site { name: "ribbon_emitters", levels: EOT, full: 2 },
    Site { name: "texture_animations", levels: EOT, full: 2 },
    Site { name: "color_animations", levels: EOT, full: 2 },
    Site { name: "transparency_animations", levels: EOT, full: 2 },
    Site { name: "events", levels: EOT, full: 2 },
    Site { name: "attachments", levels: EOT, full: 2 },
    Site { name: "cameras", levels: EOT, full: 2 },
    Site { name: "lights", levels: EOT, full: 2 },
    Site { name: "header_scalars", levels: &["zero", "combiner_flag", "extreme_floats"], full: 2 },
];

pub fn site_index(name: &str) -> usize {
    SITES.iter().position(|s| s.name == name).unwrap()
}

/// header numbers inside the ranges the parser accepts for an expansion, away from the canonical
/// number (the record-size thresholds 256/260/264/272 are compared against the raw number)
pub const ALT_NUMBERS: [(&str, M2Version, u32); 3] = [("Vanilla/257", M2Version::Vanilla, 257), ("TBC/263", M2Version::TBC, 263), ("WotLK/271", M2Version::WotLK, 271)];

pub const VERSIONS: [(&str, M2Version); 5] = [
    ("Vanilla", M2Version::Vanilla),
    ("TBC", M2Version::TBC),
    ("WotLK", M2Version::WotLK),
    ("Cataclysm", M2Version::Cataclysm),
    ("MoP", M2Version::MoP),
];

const POOL: [f32; 9] = [0.0, -0.0, 1.0, -1.5, f32::MAX, f32::MIN_POSITIVE, f32::INFINITY, f32::NEG_INFINITY, 1.0e-40];
thread_local! {
    static ROT: std::cell::Cell<usize> = const { std::cell::Cell::new(0) };
}
/// rotate the assignment of pool values to fields (thorough tier explores two rotations)
pub fn set_float_rotation(r: usize) {
    ROT.with(|c| c.set(r));
}
pub fn f(k: usize) -> f32 {
    POOL[(k + ROT.with(|c| c.get())) % POOL.len()]
}
fn v3(k: usize) -> C3Vector {
    C3Vector { x: f(k), y: f(k + 1), z: f(k + 2) }
}
fn v2(k: usize) -> C2Vector {
    C2Vector { x: f(k), y: f(k + 4) }
}
thread_local! {
    static MANY: std::cell::Cell<usize> = const { std::cell::Cell::new(17) };
}
/// element count of the population level "many" (level 3; only the thorough space m2many uses it)
pub fn set_many(n: usize) {
    MANY.with(|c| c.set(n));
}
pub const LEVEL_MANY: u8 = 3;
fn n_of(level: u8) -> usize {
    if level == LEVEL_MANY {
        return MANY.with(|c| c.get());
    }
    [0usize, 1, 3][level as usize]
}
fn cycle<T: Copy>(pool: &[T], n: usize) -> Vec<T> {
    (0..n).map(|i| pool[i % pool.len()]).collect()
}
const U16S: [u16; 3] = [0, 0xFFFF, 2];
const U32S: [u32; 3] = [0, 0xFFFF_FFFF, 1000];

fn block<T: wow_m2::common::M2Parse>() -> M2AnimationBlock<T> {
    M2AnimationBlock::new(M2AnimationTrack::default())
}

pub fn long_name(tag: &str) -> String {
    let mut s = String::from(tag);
    while s.len() < 251 {
        s.push_str("\\Dir0123456789");
    }
    s.truncate(251);
    s.push_str(".blp");
    assert_eq!(s.len(), 255);
    s
}

fn named(s: &str) -> M2ArrayString {
    // convention of parsed objects: `count` includes the terminating NUL, `string.data` does not;
    // the offset is a placeholder (any non-zero value: the writer recomputes it)
    M2ArrayString { string: FixedString { data: s.as_bytes().to_vec() }, array: M2Array::new(s.len() as u32 + 1, 1) }
}

fn animation(vnum: u32, i: usize, idiom_none: bool) -> M2Animation {
    let classic = vnum <= 256;
    M2Animation {
        animation_id: [0u16, 4, 0xFFFF][i % 3],
        sub_animation_id: i as u16,
        start_timestamp: [0u32, 1000, 5][i % 3],
        end_timestamp: if classic && !idiom_none { Some([33u32, 0xFFFF_FFFF, 7][i % 3]) } else { None },
        movement_speed: f(i + 2),
        flags: [0u32, 0x20, 0xFFFF_FFFF][i % 3],
        frequency: [0i16, 32767, -1][i % 3],
        padding: [0u16, 0xABCD, 1][i % 3],
        replay: if classic && !idiom_none { Some(M2Range { minimum: f(i), maximum: f(i + 3) }) } else { None },
        minimum_extent: if !classic && !idiom_none { Some([f(i), f(i + 1), f(i + 2)]) } else { None },
        maximum_extent: if !classic && !idiom_none { Some([f(i + 4), f(i + 5), f(i + 6)]) } else { None },
        extent_radius: if !classic && !idiom_none { Some(f(i + 7)) } else { None },
        next_animation: if !classic && !idiom_none { Some([-1i16, 2, 32767][i % 3]) } else { None },
        aliasing: if !classic && !idiom_none { Some([0u16, 1, 0xFFFF][i % 3]) } else { None },
    }
}

fn particle(i: usize) -> M2ParticleEmitter {
    let g = |k: usize| f(i * 3 + k);
    M2ParticleEmitter {
        id: [0u32, 7, 0xFFFF_FFFF][i % 3],
        flags: M2ParticleFlags::from_bits_retain([0u32, 0x8 | 0x20, 0x0004_0000][i % 3]),
        position: v3(i),
        bone_index: U16S[i % 3],
        texture_index: U16S[(i + 1) % 3],
        model_filename: M2Array::new(0, 0),
        parent_emitter: U16S[(i + 2) % 3],
        geometry_model_unknown: i as u16,
        fallback_model_filename: None,
        blending_type: [0u8, 4, 255][i % 3],
        emitter_type: [M2ParticleEmitterType::Point, M2ParticleEmitterType::Sphere, M2ParticleEmitterType::Bone][i % 3],
        particle_type: [0u8, 1, 2][i % 3],
        head_or_tail: [0u8, 1, 2][(i + 1) % 3],
        texture_file_data_ids: None,
        texture_tile_coordinates: M2Array::new(0, 0),
        enable_encryption: None,
        multi_texture_param0: None,
        multi_texture_param1: None,
        lifetime: g(0),
        emission_rate: g(1),
        emission_area_length: g(2),
        emission_area_width: g(3),
        emission_velocity: g(4),
        min_lifetime: g(5),
        max_lifetime: g(6),
        min_emission_rate: g(7),
        max_emission_rate: g(8),
        min_emission_area_length: g(9),
        max_emission_area_length: g(10),
        min_emission_area_width: g(11),
        max_emission_area_width: g(12),
        min_emission_velocity: g(13),
        max_emission_velocity: g(14),
        position_variation: g(15),
        min_position_variation: g(16),
        max_position_variation: g(17),
        initial_size: g(18),
        min_initial_size: g(19),
        max_initial_size: g(20),
        size_variation: g(21),
        min_size_variation: g(22),
        max_size_variation: g(23),
        horizontal_range: g(24),
        min_horizontal_range: g(25),
        max_horizontal_range: g(26),
        vertical_range: g(27),
        min_vertical_range: g(28),
        max_vertical_range: g(29),
        gravity: g(30),
        min_gravity: g(31),
        max_gravity: g(32),
        initial_velocity: g(33),
        min_initial_velocity: g(34),
        max_initial_velocity: g(35),
        speed_variation: g(36),
        min_speed_variation: g(37),
        max_speed_variation: g(38),
        rotation_speed: g(39),
        min_rotation_speed: g(40),
        max_rotation_speed: g(41),
        initial_rotation: g(42),
        min_initial_rotation: g(43),
        max_initial_rotation: g(44),
        mid_point_color: M2Color::new(g(45), g(46), g(47)),
        color_animation_speed: g(48),
        color_median_time: g(49),
        lifespan_unused: g(50),
        emission_rate_unused: g(51),
        unknown_1: U32S[i % 3],
        unknown_2: g(52),
        emission_speed_animation: block(),
        emission_rate_animation: block(),
        emission_area_animation: block(),
        xy_scale_animation: block(),
        z_scale_animation: block(),
        color_animation: block(),
        transparency_animation: block(),
        size_animation: block(),
        intensity_animation: block(),
        z_source_animation: block(),
        particle_initial_state: None,
        particle_initial_state_variation: None,
        particle_convergence_time: None,
        physics_parameters: None,
    }
}

/// Build the model of a case. `lv[s]` is the level of site `s`.
pub fn build(version: M2Version, lv: &[u8]) -> M2Model {
    build_numbered(version, version.to_header_version(), lv)
}

pub fn build_numbered(version: M2Version, vnum: u32, lv: &[u8]) -> M2Model {
    let mut m = M2Model::default();
    m.header = M2Header::new(version);
    m.header.version = vnum;
    let l = |name: &str| lv[site_index(name)];

    m.name = match l("name") {
        0 => None,
        1 => Some("World\\Model_01.m2".to_string()),
        2 => Some(long_name("N")),
        4 => Some(long_name("N").repeat(17)),
        _ => Some(String::new()),
    };
    m.global_sequences = cycle(&U32S, n_of(l("global_sequences")));
    let na = n_of(l("animations"));
    m.animations = (0..na).map(|i| animation(vnum, i, i == 2)).collect();
    m.animation_lookup = cycle(&U16S, n_of(l("animation_lookup")));

    let nb = n_of(l("bones"));
    for i in 0..nb {
        let mut b = M2Bone::new([-1i32, 0, 26][i % 3], [-1i16, 0, 1][i % 3]);
        b.flags = M2BoneFlags::from_bits_retain([0u32, 0x200, 0x8 | 0x400][i % 3]);
        b.submesh_id = [0u16, 1, 0xFFFF][i % 3];
        b.bone_name_crc = if vnum >= 260 { [Some(0xDEAD_BEEFu32), Some(0), None][i % 3] } else { None };
        b.pivot = v3(i + 3);
        m.bones.push(b);
    }
    m.key_bone_lookup = cycle(&[0xFFFFu16, 0, 2], n_of(l("key_bone_lookup")));

    let nv = n_of(l("vertices"));
    for i in 0..nv {
        // bone indices stay below the bone count (the parser sanitises out-of-range references)
        let bi = if nb == 0 { 0 } else { i.min(nb - 1) as u8 };
        m.vertices.push(M2Vertex {
            position: v3(i * 2),
            bone_weights: [[255u8, 0, 0, 0], [128, 127, 0, 0], [1, 1, 1, 252]][i % 3],
            bone_indices: [bi, 0, 0, 0],
            normal: v3(i + 5),
            tex_coords: v2(i + 1),
            tex_coords2: if i == 1 { None } else { Some(v2(i + 6)) },
        });
    }

    let tx = |ty: M2TextureType, fl: u32, name: Option<&str>| M2Texture {
        texture_type: ty,
        flags: M2TextureFlags::from_bits_retain(fl),
        filename: match name {
            Some(s) => named(s),
            None => M2ArrayString::default(),
        },
    };
    m.textures = match l("textures") {
        0 => vec![],
        1 => vec![tx(M2TextureType::Body, 0, None)],
        2 => vec![tx(M2TextureType::Body, 2, None), tx(M2TextureType::Hair, 0, None), tx(M2TextureType::Monster3, 7, None)],
        3 => vec![tx(M2TextureType::Hardcoded, 3, Some("a.blp"))],
        5 => (0..MANY.with(|c| c.get()))
            .map(|i| match i % 3 {
                0 => tx(M2TextureType::Hardcoded, 1, Some(&format!("Textures\\Many{i}.blp"))),
                1 => tx(M2TextureType::Hair, 4, None),
                _ => tx(M2TextureType::Hardcoded, 7, Some(&long_name("T"))),
            })
            .collect(),
        _ => vec![
            tx(M2TextureType::Hardcoded, 1, Some("Textures\\X.blp")),
            tx(M2TextureType::Hair, 4, None),
            tx(M2TextureType::Hardcoded, 7, Some(&long_name("T"))),
        ],
    };
    for i in 0..n_of(l("materials")) {
        m.materials.push(M2Material {
            flags: M2RenderFlags::from_bits_retain([0u16, 0x15, 0xFFFF][i % 3]),
            blend_mode: M2BlendMode::from_bits_retain([0u16, 7, 2][i % 3]),
        });
    }
    m.raw_data.bone_lookup_table = cycle(&[0u16, 1, 0xFFFF], n_of(l("bone_lookup_table")));
    m.raw_data.texture_lookup_table = cycle(&[0xFFFFu16, 0, 1], n_of(l("texture_lookup_table")));
    m.raw_data.texture_units = cycle(&[1u16, 0, 0xFFFE], n_of(l("texture_units")));
    m.raw_data.transparency_lookup_table = cycle(&[2u16, 0xFFFF, 0], n_of(l("transparency_lookup_table")));
    m.raw_data.texture_animation_lookup = cycle(&[0xFFFFu16, 0xFFFF, 3], n_of(l("texture_animation_lookup")));
    m.raw_data.bounding_triangles = (0..n_of(l("bounding_triangles")) * 6).map(|k| (k * 37 + 1) as u8).collect();
    m.raw_data.bounding_vertices = (0..n_of(l("bounding_vertices")) * 12).map(|k| (k * 11 + 2) as u8).collect();
    m.raw_data.bounding_normals = (0..n_of(l("bounding_normals")) * 12).map(|k| (k * 13 + 3) as u8).collect();
    m.raw_data.attachment_lookup_table = cycle(&[0u16, 0xFFFF, 5], n_of(l("attachment_lookup_table")));
    m.raw_data.camera_lookup_table = cycle(&[0xFFFFu16, 0, 1], n_of(l("camera_lookup_table")));

    for i in 0..n_of(l("particle_emitters")) {
        m.particle_emitters.push(particle(i));
    }
    for i in 0..n_of(l("ribbon_emitters")) {
        m.ribbon_emitters.push(M2RibbonEmitter {
            bone_index: U32S[i % 3],
            position: v3(i + 1),
            texture_indices: M2Array::new(0, 0),
            material_indices: M2Array::new(0, 0),
            color_animation: block(),
            alpha_animation: block(),
            height_above_animation: block(),
            height_below_animation: block(),
            edges_per_second: f(i + 2),
            edge_lifetime: f(i + 3),
            gravity: f(i + 4),
            texture_rows: U16S[i % 3],
            texture_cols: U16S[(i + 1) % 3],
            texture_slice: if vnum >= 272 && i != 2 { Some(U16S[(i + 2) % 3]) } else { None },
            variation: if vnum >= 272 && i != 2 { Some(i as u16 + 9) } else { None },
            id: U32S[(i + 1) % 3],
            flags: U32S[(i + 2) % 3],
        });
    }
    for i in 0..n_of(l("texture_animations")) {
        m.texture_animations.push(M2TextureAnimation::new(
            [M2TextureAnimationType::None, M2TextureAnimationType::Scroll, M2TextureAnimationType::KeyFrame][i % 3],
        ));
    }
    for _ in 0..n_of(l("color_animations")) {
        m.color_animations.push(M2ColorAnimation { color: block(), alpha: block() });
    }
    for _ in 0..n_of(l("transparency_animations")) {
        m.transparency_animations.push(M2TransparencyAnimation::new());
    }
    for i in 0..n_of(l("events")) {
        let mut e = M2Event::new([*b"$CST", *b"$DTH", [0xFF, 0, b'a', 0x7F]][i % 3], [25i16, -1, 0][i % 3]);
        e.data = U32S[i % 3];
        e.unknown = U16S[i % 3];
        e.position = [f(i), f(i + 1), f(i + 2)];
        m.events.push(e);
    }
    for i in 0..n_of(l("attachments")) {
        let mut a = M2Attachment::new(U32S[(i + 2) % 3], [2i32, -1, i32::MAX][i % 3]);
        a.position = v3(i + 4);
        m.attachments.push(a);
    }
    for i in 0..n_of(l("cameras")) {
        let mut c = M2Camera::new(if vnum >= 264 { U32S[(i + 1) % 3] } else { 0 });
        c.camera_type = [0u32, 1, 0xFFFF_FFFF][i % 3];
        c.fov = f(i + 2);
        c.far_clip = f(i + 4);
        c.near_clip = f(i + 5);
        c.position_base = v3(i);
        c.target_position_base = v3(i + 6);
        if vnum >= 264 {
            c.flags = M2CameraFlags::from_bits_retain([0u16, 3, 0xFFFF][i % 3]);
        }
        m.cameras.push(c);
    }
    for i in 0..n_of(l("lights")) {
        let mut x = M2Light::new([M2LightType::Directional, M2LightType::Point, M2LightType::Ambient][i % 3], U16S[i % 3], U32S[i % 3]);
        x.position = v3(i + 2);
        x.flags = M2LightFlags::from_bits_retain([1u16, 0, 0xFFFF][i % 3]);
        m.lights.push(x);
    }
    match l("header_scalars") {
        0 => {}
        k => {
            m.header.flags = M2ModelFlags::from_bits_retain(if k == 2 { 0x1 | 0x100 | 0x4000 } else { 0x8 });
            m.header.bounding_box_min = [f(3), f(4), f(5)];
            m.header.bounding_box_max = [f(6), f(7), f(8)];
            m.header.bounding_sphere_radius = f(2);
            m.header.collision_box_min = [f(1), f(2), f(3)];
            m.header.collision_box_max = [f(4), f(2), f(6)];
            m.header.collision_sphere_radius = f(5);
            if vnum >= 264 {
                m.header.num_skin_profiles = Some(4);
            }
        }
    }
    m
}

/// The content write→parse must reproduce for a model written as header version `vnum`.
pub fn canon(m: &M2Model, vnum: u32) -> M2Model {
    let mut c = m.clone();
    for a in c.animations.iter_mut() {
        if vnum <= 256 {
            a.end_timestamp = Some(a.end_timestamp.unwrap_or(a.start_timestamp.wrapping_add(1000)));
            a.replay = Some(a.replay.unwrap_or(M2Range { minimum: 0.0, maximum: 1.0 }));
            a.minimum_extent = None;
            a.maximum_extent = None;
            a.extent_radius = None;
            a.next_animation = None;
            a.aliasing = None;
        } else {
            a.end_timestamp = None;
            a.replay = None;
            a.minimum_extent = Some(a.minimum_extent.unwrap_or([0.0; 3]));
            a.maximum_extent = Some(a.maximum_extent.unwrap_or([0.0; 3]));
            a.extent_radius = Some(a.extent_radius.unwrap_or(0.0));
            a.next_animation = Some(a.next_animation.unwrap_or(-1));
            a.aliasing = Some(a.aliasing.unwrap_or(0));
        }
    }
    for b in c.bones.iter_mut() {
        b.bone_name_crc = if vnum >= 260 { Some(b.bone_name_crc.unwrap_or(0)) } else { None };
        let r = if vnum < 264 { Some(M2Array::new(0, 0)) } else { None };
        b.translation.ranges = r;
        b.rotation.ranges = r;
        b.scale.ranges = r;
    }
    for v in c.vertices.iter_mut() {
        v.tex_coords2 = Some(v.tex_coords2.unwrap_or(C2Vector { x: 0.0, y: 0.0 }));
    }
    for cam in c.cameras.iter_mut() {
        if vnum < 264 {
            cam.id = 0;
            cam.flags = M2CameraFlags::empty();
        }
    }
    for r in c.ribbon_emitters.iter_mut() {
        if vnum >= 272 {
            r.texture_slice = Some(r.texture_slice.unwrap_or(0));
            r.variation = Some(r.variation.unwrap_or(0));
        } else {
            r.texture_slice = None;
            r.variation = None;
        }
    }
    c
}

/// Neutralise the fields that only one of the two versions can store (conversion oracle).
pub fn strip_uncommon(m: &mut M2Model, a: u32, b: u32) {
    let both = |t: u32| a >= t && b >= t;
    let classic = |v: u32| v <= 256;
    if classic(a) != classic(b) {
        for x in m.animations.iter_mut() {
            x.start_timestamp = 0;
            x.end_timestamp = None;
            x.replay = None;
            x.minimum_extent = None;
            x.maximum_extent = None;
            x.extent_radius = None;
            x.next_animation = None;
            x.aliasing = None;
        }
    }
    for x in m.bones.iter_mut() {
        if !both(260) {
            x.bone_name_crc = None;
        }
        if !(a < 264 && b < 264) {
            x.translation.ranges = None;
            x.rotation.ranges = None;
            x.scale.ranges = None;
        }
    }
    if !both(264) {
        for x in m.cameras.iter_mut() {
            x.id = 0;
            x.flags = M2CameraFlags::empty();
        }
        m.header.num_skin_profiles = None;
    }
    if !both(272) {
        for x in m.ribbon_emitters.iter_mut() {
            x.texture_slice = None;
            x.variation = None;
        }
    }
}
