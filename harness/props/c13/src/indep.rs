//! Independent decode of written bytes against the in-memory model: the fixed (non-animated)
//! fields of every record, at the positions the format documentation gives them, must carry
//! the model's values.  This does not go through the library's parser.
use crate::walker::{self, Finding, Hdr};
use wow_m2::M2Model;

fn le32(v: u32) -> Vec<u8> {
    v.to_le_bytes().to_vec()
}
fn le16(v: u16) -> Vec<u8> {
    v.to_le_bytes().to_vec()
}
fn fl(v: f32) -> Vec<u8> {
    v.to_bits().to_le_bytes().to_vec()
}
fn v3(v: &wow_m2::common::C3Vector) -> Vec<u8> {
    [fl(v.x), fl(v.y), fl(v.z)].concat()
}

/// expected (offset in record, bytes) of record `i` of `section`
fn expected(section: &str, i: usize, m: &M2Model, ver: u32) -> Vec<(usize, Vec<u8>)> {
    match section {
        "global_sequences" => vec![(0, le32(m.global_sequences[i]))],
        "animation_lookup" => vec![(0, le16(m.animation_lookup[i]))],
        "key_bone_lookup" => vec![(0, le16(m.key_bone_lookup[i]))],
        "bone_lookup_table" => vec![(0, le16(m.raw_data.bone_lookup_table[i]))],
        "texture_lookup_table" => vec![(0, le16(m.raw_data.texture_lookup_table[i]))],
        "texture_units" => vec![(0, le16(m.raw_data.texture_units[i]))],
        "transparency_lookup_table" => vec![(0, le16(m.raw_data.transparency_lookup_table[i]))],
        "texture_animation_lookup" => vec![(0, le16(m.raw_data.texture_animation_lookup[i]))],
        "attachment_lookup_table" => vec![(0, le16(m.raw_data.attachment_lookup_table[i]))],
        "camera_lookup_table" => vec![(0, le16(m.raw_data.camera_lookup_table[i]))],
        "bounding_triangles" => vec![(0, m.raw_data.bounding_triangles[i * 2..i * 2 + 2].to_vec())],
        "bounding_vertices" => vec![(0, m.raw_data.bounding_vertices[i * 12..i * 12 + 12].to_vec())],
        "bounding_normals" => vec![(0, m.raw_data.bounding_normals[i * 12..i * 12 + 12].to_vec())],
        "animations" => {
            let a = &m.animations[i];
            vec![(0, le16(a.animation_id)), (2, le16(a.sub_animation_id)), (4, le32(a.start_timestamp))]
        }
        "bones" => {
            let b = &m.bones[i];
            let mut v = vec![(0, le32(b.bone_id as u32)), (4, le32(b.flags.bits())), (8, le16(b.parent_bone as u16)), (10, le16(b.submesh_id))];
            if ver >= 260 {
                v.push((12, le32(b.bone_name_crc.unwrap_or(0))));
            }
            v.push((walker::rec_size("bones", ver) - 12, v3(&b.pivot)));
            v
        }
        "vertices" => {
            let x = &m.vertices[i];
            let t2 = x.tex_coords2.unwrap_or(wow_m2::common::C2Vector { x: 0.0, y: 0.0 });
            vec![
                (0, v3(&x.position)),
                (12, x.bone_weights.to_vec()),
                (16, x.bone_indices.to_vec()),
                (20, v3(&x.normal)),
                (32, [fl(x.tex_coords.x), fl(x.tex_coords.y)].concat()),
                (40, [fl(t2.x), fl(t2.y)].concat()),
            ]
        }
        "textures" => {
            let t = &m.textures[i];
            vec![(0, le32(t.texture_type as u32)), (4, le32(t.flags.bits()))]
        }
        "materials" => vec![(0, le16(m.materials[i].flags.bits())), (2, le16(m.materials[i].blend_mode.bits()))],
        "events" => {
            let e = &m.events[i];
            vec![
                (0, e.identifier.to_vec()),
                (4, le32(e.data)),
                (8, le16(e.bone_index as u16)),
                (10, le16(e.unknown)),
                (12, [fl(e.position[0]), fl(e.position[1]), fl(e.position[2])].concat()),
            ]
        }
        "attachments" => {
            let a = &m.attachments[i];
            vec![(0, le32(a.id)), (4, le32(a.bone_index as u32)), (8, v3(&a.position))]
        }
        "cameras" => {
            let c = &m.cameras[i];
            let mut v = vec![(0, le32(c.camera_type)), (4, fl(c.fov)), (8, fl(c.far_clip)), (12, fl(c.near_clip)), (44, v3(&c.position_base)), (84, v3(&c.target_position_base))];
            if ver >= 264 {
                v.push((124, le32(c.id)));
                v.push((128, le16(c.flags.bits())));
            }
            v
        }
        "lights" => {
            let l = &m.lights[i];
            vec![(0, vec![l.light_type as u8]), (1, le16(l.bone_index)), (4, v3(&l.position)), (156, le32(l.id)), (160, le16(l.flags.bits()))]
        }
        "ribbon_emitters" => {
            let r = &m.ribbon_emitters[i];
            vec![(0, le32(r.bone_index)), (4, v3(&r.position)), (144, [fl(r.edges_per_second), fl(r.edge_lifetime), fl(r.gravity)].concat()), (156, le16(r.texture_rows)), (158, le16(r.texture_cols))]
        }
        "particle_emitters" => {
            let p = &m.particle_emitters[i];
            vec![(0, le32(p.id)), (4, le32(p.flags.bits())), (8, v3(&p.position)), (20, le16(p.bone_index)), (22, le16(p.texture_index)), (48, fl(p.lifetime)), (52, fl(p.emission_rate))]
        }
        "texture_animations" => vec![(0, le16(m.texture_animations[i].animation_type as u16))],
        _ => vec![],
    }
}

const CHECKED: &[&str] = &[
    "global_sequences", "animations", "animation_lookup", "bones", "key_bone_lookup", "vertices", "textures", "materials",
    "bone_lookup_table", "texture_lookup_table", "texture_units", "transparency_lookup_table", "texture_animation_lookup",
    "bounding_triangles", "bounding_vertices", "bounding_normals", "attachment_lookup_table", "camera_lookup_table",
    "events", "attachments", "cameras", "lights", "ribbon_emitters", "particle_emitters", "texture_animations",
];

/// `m` must be the canonical (version-adjusted) model; sections listed in `skip` are not judged.
pub fn compare(b: &[u8], h: &Hdr, m: &M2Model, what: &str, skip: &[&str]) -> Vec<Finding> {
    let mut out = vec![];
    let ver = h.version;
    // name: bytes + NUL
    if !skip.contains(&"name") {
        if let (Some(p), Some(name)) = (h.pair("name"), m.name.as_ref()) {
            let want: Vec<u8> = name.bytes().chain(std::iter::once(0)).collect();
            let got = b.get(p.offset as usize..p.offset as usize + p.count as usize);
            if got != Some(&want[..]) {
                out.push(Finding { symptom: format!("{what}: written bytes differ from the model (independent decode) in section name"), detail: format!("want {} bytes, pair ({}, {})", want.len(), p.count, p.offset) });
            }
        }
    }
    for s in CHECKED {
        if skip.contains(s) {
            continue;
        }
        let Some((bytes, n, sz)) = walker::section(b, h, s) else { continue };
        'sec: for i in 0..n {
            let ex = std::panic::catch_unwind(std::panic::AssertUnwindSafe(|| expected(s, i, m, ver)));
            let Ok(ex) = ex else { break }; // count mismatch is reported by check_layout
            for (o, want) in ex {
                let got = &bytes[i * sz + o..i * sz + o + want.len()];
                if got != &want[..] {
                    out.push(Finding {
                        symptom: format!("{what}: written bytes differ from the model (independent decode) in section {s}"),
                        detail: format!("record {i} field at +{o}: want {:02x?} got {:02x?}", want, got),
                    });
                    break 'sec;
                }
            }
        }
    }
    // texture names
    if !skip.contains(&"textures") {
        if let Some((bytes, n, sz)) = walker::section(b, h, "textures") {
            for i in 0..n.min(m.textures.len()) {
                let t = &m.textures[i];
                let c = walker::u32at(bytes, i * sz + 8).unwrap() as usize;
                let o = walker::u32at(bytes, i * sz + 12).unwrap() as usize;
                let want: Vec<u8> = if t.filename.array.count == 0 { vec![] } else { t.filename.string.data.iter().copied().chain(std::iter::once(0)).collect() };
                let got = if c == 0 { Some(&b[0..0]) } else { b.get(o..o + c) };
                if got != Some(&want[..]) {
                    out.push(Finding {
                        symptom: format!("{what}: written bytes differ from the model (independent decode) in section textures (file name)"),
                        detail: format!("texture {i}: want {} name bytes, record says ({c}, {o})", want.len()),
                    });
                    break;
                }
            }
        }
    }
    // header scalars
    if !skip.contains(&"header_scalars") {
        let hd = &m.header;
        let want: Vec<u32> = hd
            .bounding_box_min
            .iter()
            .chain(hd.bounding_box_max.iter())
            .chain(std::iter::once(&hd.bounding_sphere_radius))
            .chain(hd.collision_box_min.iter())
            .chain(hd.collision_box_max.iter())
            .chain(std::iter::once(&hd.collision_sphere_radius))
            .map(|x| x.to_bits())
            .collect();
        if want[..] != h.floats[..] || h.flags != hd.flags.bits() {
            out.push(Finding { symptom: format!("{what}: written bytes differ from the model (independent decode) in header scalars"), detail: format!("flags {:#x} vs {:#x}", h.flags, hd.flags.bits()) });
        }
    }
    out
}
