//! C13 — M2, skin and anim files survive write→parse, also across version conversion.
//! Bounded exhaustive exploration: every model within ≤K deviations of two baselines × every
//! version; every (from,to) conversion pair; byte-level seeds with key frames; every skin and
//! anim population tuple.  Oracles: independent container walker, content equality modulo
//! derived offsets, byte-identical rewrite, same-version conversion identity.
//!
//! Spaces: m2, m2conv, seed, share (shared key-frame arrays), skin, anim in both tiers; the
//! thorough tier adds m2many (17 / 300 / 65537 elements), m2chain and seedchain (A → B → C
//! conversion chains), edit (parsed seed + API-edited static sections) and odd (emitter
//! sub-arrays, ranges without keys) and widens the axes of the others (see `c.rule`).
use serde_json::{json, Map, Value};
use std::io::Cursor;
use vcore::*;
use wow_m2::{M2Converter, M2Model, M2Version};

mod animfile;
mod chain;
mod cmp;
mod emit;
mod gen;
mod indep;
mod odd;
mod repro;
mod share;
mod skinfile;
mod walker;

#[global_allocator]
static A: vcore::alloc::Counting = vcore::alloc::Counting;

/// thorough tier: additional oracles on states reached by earlier operations (set in `build`)
pub static DEEP: std::sync::atomic::AtomicBool = std::sync::atomic::AtomicBool::new(false);
pub fn deep() -> bool {
    DEEP.load(std::sync::atomic::Ordering::Relaxed)
}

// ------------------------------------------------------------------ library calls, guarded

pub enum Call<T> {
    Ok(T),
    Err(String),
    Panic(String, String),
}

pub fn call<T>(f: impl FnOnce() -> Result<T, String>) -> Call<T> {
    match guarded(f) {
        Ok(Ok(v)) => Call::Ok(v),
        Ok(Err(e)) => Call::Err(e),
        Err((file, line, msg)) => Call::Panic(panic_class(&file, &msg), format!("{file}:{line}: {msg}")),
    }
}

fn m2_write(m: &M2Model) -> Call<Vec<u8>> {
    call(|| {
        let mut c = Cursor::new(Vec::new());
        m.write(&mut c).map_err(|e| e.to_string())?;
        Ok(c.into_inner())
    })
}
fn m2_parse(b: &[u8]) -> Call<M2Model> {
    call(|| M2Model::parse(&mut Cursor::new(b)).map_err(|e| e.to_string()))
}

/// Unwrap a library call inside a case: a panic is a violation (class + step), an `Err` is
/// either a legitimate refusal (`refusal_ok`) or a violation.
macro_rules! step {
    ($r:expr, $call:expr, $step:expr, $refusal_ok:expr) => {
        match $call {
            Call::Ok(v) => v,
            Call::Err(e) => {
                if $refusal_ok {
                    $r.err_return = true;
                    $r.outcome.push_str(&format!("{}:Err;", $step));
                } else {
                    $r.viol(format!("{} returns Err", $step), e);
                    $r.outcome.push_str(&format!("{}:Err!;", $step));
                }
                return;
            }
            Call::Panic(class, detail) => {
                $r.viol(format!("{} [{}]", class, $step), detail);
                $r.outcome.push_str(&format!("{}:panic;", $step));
                return;
            }
        }
    };
}
pub(crate) use step;

fn expect_counts(m: &M2Model) -> Vec<(&'static str, usize)> {
    let r = &m.raw_data;
    vec![
        ("name", m.name.as_ref().map(|n| n.len() + 1).unwrap_or(0)),
        ("global_sequences", m.global_sequences.len()),
        ("animations", m.animations.len()),
        ("animation_lookup", m.animation_lookup.len()),
        ("bones", m.bones.len()),
        ("key_bone_lookup", m.key_bone_lookup.len()),
        ("vertices", m.vertices.len()),
        ("textures", m.textures.len()),
        ("materials", m.materials.len()),
        ("bone_lookup_table", r.bone_lookup_table.len()),
        ("texture_lookup_table", r.texture_lookup_table.len()),
        ("texture_units", r.texture_units.len()),
        ("transparency_lookup_table", r.transparency_lookup_table.len()),
        ("texture_animation_lookup", r.texture_animation_lookup.len()),
        ("bounding_triangles", r.bounding_triangles.len() / 2),
        ("bounding_vertices", r.bounding_vertices.len() / 12),
        ("bounding_normals", r.bounding_normals.len() / 12),
        ("attachment_lookup_table", r.attachment_lookup_table.len()),
        ("camera_lookup_table", r.camera_lookup_table.len()),
        ("particle_emitters", m.particle_emitters.len()),
        ("ribbon_emitters", m.ribbon_emitters.len()),
        ("texture_animations", m.texture_animations.len()),
        ("color_animations", m.color_animations.len()),
        ("transparency_animations", m.transparency_animations.len()),
        ("events", m.events.len()),
        ("attachments", m.attachments.len()),
        ("cameras", m.cameras.len()),
        ("lights", m.lights.len()),
    ]
}

/// Walk the written container; returns the header to use for further decoding.
fn walk(r: &mut CaseResult, b: &[u8], what: &str, expect: &[(&str, usize)]) -> Option<(walker::Hdr, bool)> {
    let mut combos_missing = false;
    let mut h = match walker::header(b) {
        Ok(h) => h,
        Err(e) => {
            // a header that announces the combiner field but is too short for it
            match walker::header_opts(b, true) {
                Ok(h) if h.flags & 8 != 0 => {
                    r.viol(format!("{what}: header is shorter than its flags require (flag 0x8 set, texture_combiner_combos field missing)"), e);
                    combos_missing = true;
                    h
                }
                _ => {
                    r.viol(format!("{what}: written container has no readable header"), e);
                    return None;
                }
            }
        }
    };
    if h.flags & 8 != 0 && h.pair("texture_combiner_combos").is_some() {
        let min_off = h.pairs.iter().filter(|p| p.count > 0 && p.name != "texture_combiner_combos").map(|p| p.offset as usize).min();
        if min_off.map(|o| o < h.len).unwrap_or(false) {
            r.viol(
                format!("{what}: header is shorter than its flags require (flag 0x8 set, texture_combiner_combos field missing)"),
                format!("first section starts at {} but a header with the combiner field is {} bytes", min_off.unwrap(), h.len),
            );
            h = walker::header_opts(b, true).unwrap();
            combos_missing = true;
        }
    }
    for f in walker::check_layout(b, &h, expect, what) {
        r.viol(f.symptom, f.detail);
    }
    Some((h, combos_missing))
}

/// Report the findings of the independent decode. A misplaced texture file name means the
/// writer patched the (count, offset) of the name into the wrong place of the data section, which
/// clobbers whatever section lies there; the rest of such a file cannot be judged, so only
/// that finding is reported and `false` is returned.
fn report_indep(r: &mut CaseResult, f: Vec<walker::Finding>) -> bool {
    if let Some(t) = f.iter().find(|x| x.symptom.contains("section textures (file name)")) {
        r.viol(t.symptom.clone(), t.detail.clone());
        r.outcome.push_str("texture_name_misplaced;");
        return false;
    }
    for x in f {
        r.viol(x.symptom, x.detail);
    }
    true
}

/// parse a file the library wrote; when the header announces the combiner field without carrying
/// it, a parser that honours the flag runs past the end: that refusal is attributed to the header
macro_rules! parse_written {
    ($r:expr, $bytes:expr, $step:expr, $combos_missing:expr) => {
        match m2_parse($bytes) {
            Call::Err(e) if $combos_missing => {
                $r.viol(format!("{} returns Err (the file announces texture_combiner_combos without carrying the field)", $step), e);
                $r.outcome.push_str("parse_err_combos;");
                return;
            }
            other => step!($r, other, $step, false),
        }
    };
}

fn diff_sections(r: &mut CaseResult, what: &str, exp: &[(&'static str, String)], got: &[(&'static str, String)]) -> usize {
    let mut n = 0;
    for ((s, a), (_, b)) in exp.iter().zip(got.iter()) {
        if a != b {
            r.viol(format!("{what} in section {s}"), cmp::first_diff(a, b));
            n += 1;
        }
    }
    n
}

fn byte_diff(r: &mut CaseResult, what: &str, w1: &[u8], w2: &[u8]) {
    if w1 == w2 {
        return;
    }
    let pos = w1.iter().zip(w2.iter()).position(|(a, b)| a != b).unwrap_or(w1.len().min(w2.len()));
    let place = match walker::header_opts(w1, true) {
        Ok(h) => walker::locate(w1, &h, pos),
        Err(_) => "unreadable".into(),
    };
    r.viol(format!("{what} (first difference in {place})"), format!("lengths {} vs {}, first difference at byte {}", w1.len(), w2.len(), pos));
}

// ------------------------------------------------------------------ model enumeration

#[derive(Clone)]
struct MCase {
    base: u8,
    devs: Vec<(u8, u8)>,
}

fn enum_models(maxdev: usize) -> Vec<MCase> {
    let ns = gen::SITES.len();
    let mut out = vec![];
    for nd in 0..=maxdev {
        for base in 0..2u8 {
            // choose nd sites ascending, then a non-baseline level for each
            let mut idx: Vec<usize> = (0..nd).collect();
            if nd > ns {
                continue;
            }
            loop {
                // level combinations
                let alts: Vec<Vec<u8>> = idx
                    .iter()
                    .map(|&s| {
                        let bl = if base == 0 { 0 } else { gen::SITES[s].full };
                        (0..gen::SITES[s].levels.len() as u8).filter(|l| *l != bl).collect()
                    })
                    .collect();
                let radices: Vec<u64> = alts.iter().map(|a| a.len() as u64).collect();
                let total: u64 = radices.iter().product();
                for c in 0..total {
                    let d = vcore::gen::mixed_radix(c, &radices);
                    out.push(MCase { base, devs: idx.iter().enumerate().map(|(k, &s)| (s as u8, alts[k][d[k] as usize])).collect() });
                }
                // next combination
                let mut k = nd;
                loop {
                    if k == 0 {
                        break;
                    }
                    k -= 1;
                    if idx[k] < ns - nd + k {
                        idx[k] += 1;
                        for j in k + 1..nd {
                            idx[j] = idx[j - 1] + 1;
                        }
                        k = usize::MAX;
                        break;
                    }
                }
                if k != usize::MAX {
                    break;
                }
            }
        }
    }
    out
}

fn levels_of(c: &MCase) -> Vec<u8> {
    let mut lv: Vec<u8> = gen::SITES.iter().map(|s| if c.base == 0 { 0 } else { s.full }).collect();
    for (s, l) in &c.devs {
        lv[*s as usize] = *l;
    }
    lv
}

fn describe_model(c: &MCase) -> (Value, Value) {
    let lv = levels_of(c);
    let mut sites = Map::new();
    for (i, s) in gen::SITES.iter().enumerate() {
        sites.insert(s.name.into(), json!(s.levels[lv[i] as usize]));
    }
    let mut dev = Map::new();
    for (s, l) in &c.devs {
        dev.insert(gen::SITES[*s as usize].name.into(), json!(gen::SITES[*s as usize].levels[*l as usize]));
    }
    (Value::Object(dev), Value::Object(sites))
}

// ------------------------------------------------------------------ space "m2"

struct M2Space {
    models: Vec<MCase>,
    /// (name, version, header number, float rotation)
    versions: Vec<(&'static str, M2Version, u32, usize)>,
}
impl M2Space {
    fn new(maxdev: usize, rotations: &[usize]) -> Self {
        let mut versions = vec![];
        for &rot in rotations {
            versions.extend(gen::VERSIONS.iter().map(|(n, v)| (*n, *v, v.to_header_version(), rot)));
            versions.extend(gen::ALT_NUMBERS.iter().map(|(n, v, k)| (*n, *v, *k, rot)));
        }
        M2Space { models: enum_models(maxdev), versions }
    }
}
impl Space for M2Space {
    fn len(&self) -> u64 {
        (self.models.len() * self.versions.len()) as u64
    }
    fn describe(&self, i: u64) -> Value {
        let c = &self.models[i as usize / self.versions.len()];
        let (dev, sites) = describe_model(c);
        let v = self.versions[i as usize % self.versions.len()];
        json!({"space": "m2", "version": v.0, "header_number": v.2, "float_rotation": v.3, "base": (["empty", "full"][c.base as usize]), "dev": dev, "sites": sites})
    }
    fn run(&self, i: u64) -> CaseResult {
        let c = &self.models[i as usize / self.versions.len()];
        let (vname, ver, vnum, rot) = self.versions[i as usize % self.versions.len()];
        gen::set_float_rotation(rot);
        let lv = levels_of(c);
        let mut r = CaseResult::new();
        r.key = format!("m2/{vname}/{rot}/{:?}", lv);
        r.nontrivial = lv.iter().any(|l| *l != 0);
        let m = gen::build_numbered(ver, vnum, &lv);
        api_roundtrip(&mut r, &m, ver);
        if r.outcome.is_empty() {
            r.outcome = "held".into();
        }
        if !r.viols.is_empty() {
            r.outcome.push_str("viol");
        }
        r
    }
}

fn api_roundtrip(r: &mut CaseResult, m: &M2Model, ver: M2Version) {
    let vnum = m.header.version;
    let exp = gen::canon(m, vnum);
    let w1 = step!(r, m2_write(m), "write(model)", true);
    r.count("writes", 1);
    r.count("bytes_written", w1.len() as u64);
    let n0 = r.viols.len();
    let Some((h1, combos_missing)) = walk(r, &w1, "write(model)", &expect_counts(&exp)) else { return };
    let structural = r.viols.len() - if combos_missing { 1 } else { 0 } != n0;
    if !report_indep(r, indep::compare(&w1, &h1, &exp, "write(model)", &[])) || structural || r.viols.len() - if combos_missing { 1 } else { 0 } != n0 {
        // the independent decode already found the file wrong: what the library's parser makes of
        // a malformed file is not the subject (and may be an out-of-proportion allocation)
        r.outcome.push_str("written_file_malformed;");
        return;
    }
    let p1 = parse_written!(r, &w1, "parse(write(model))", combos_missing);
    r.count("parses", 1);
    // the format-detecting entry point must agree with M2Model::parse
    match call(|| wow_m2::parse_m2(&mut Cursor::new(&w1[..])).map_err(|e| e.to_string())) {
        Call::Ok(f) => {
            if !f.is_legacy() || format!("{:?}", cmp::sections(f.model(), true)) != format!("{:?}", cmp::sections(&p1, true)) {
                r.viol("parse_m2 and M2Model::parse disagree on a written MD20 file", "");
            }
        }
        Call::Err(e) => r.viol("parse_m2 rejects a written MD20 file that M2Model::parse accepts", e),
        Call::Panic(c, d) => r.viol(format!("{c} [parse_m2(write(model))]"), d),
    }
    let nd = diff_sections(r, "parse(write(model)) differs from the model", &cmp::sections(&exp, false), &cmp::sections(&p1, false));
    if nd == 0 {
        // (a content difference already implies different bytes; judged only when content agrees)
        let w2 = step!(r, m2_write(&p1), "write(parse(write(model)))", false);
        byte_diff(r, "write(parse(write(model))) is not byte-identical to write(model)", &w1, &w2);
    }
    // conversion to the same version changes nothing (both entry points)
    let c1 = step!(r, call(|| m.convert(ver).map_err(|e| e.to_string())), "convert(model, same version)", false);
    let wc = step!(r, m2_write(&c1), "write(convert(model, same version))", false);
    byte_diff(r, "M2Model::convert to the same version changes the written bytes", &w1, &wc);
    let c2 = step!(r, call(|| M2Converter::new().convert(m, ver).map_err(|e| e.to_string())), "M2Converter::convert(model, same version)", false);
    let wc2 = step!(r, m2_write(&c2), "write(M2Converter::convert(model, same version))", false);
    byte_diff(r, "M2Converter::convert to the same version changes the written bytes", &w1, &wc2);
}

// ------------------------------------------------------------------ space "m2many" (thorough)

/// Sections with many elements: one or two sites at the level "many" (17 or 300 elements, a
/// 4335-character model name, 17 / 300 textures with embedded names) on top of the all-empty
/// and the all-populated baseline; single small-record sites also with 65537 elements.
struct ManySpace {
    /// (base, sites at level many, element count)
    cases: Vec<(u8, Vec<usize>, usize)>,
    versions: Vec<(&'static str, M2Version, u32)>,
}
const HUGE_SITES: [&str; 16] = [
    "global_sequences", "animation_lookup", "key_bone_lookup", "vertices", "materials", "bone_lookup_table", "texture_lookup_table", "texture_units",
    "transparency_lookup_table", "texture_animation_lookup", "bounding_triangles", "bounding_vertices", "bounding_normals", "attachment_lookup_table", "camera_lookup_table", "textures",
];
impl ManySpace {
    fn new() -> Self {
        let capable: Vec<usize> = (0..gen::SITES.len()).filter(|s| gen::SITES[*s].name != "header_scalars").collect();
        let mut cases = vec![];
        for count in [17usize, 300] {
            for base in 0..2u8 {
                for (x, &a) in capable.iter().enumerate() {
                    cases.push((base, vec![a], count));
                    for &b in &capable[x + 1..] {
                        cases.push((base, vec![a, b], count));
                    }
                }
            }
        }
        for base in 0..2u8 {
            for n in HUGE_SITES {
                cases.push((base, vec![gen::site_index(n)], 65537));
            }
        }
        let mut versions: Vec<(&'static str, M2Version, u32)> = gen::VERSIONS.iter().map(|(n, v)| (*n, *v, v.to_header_version())).collect();
        versions.extend(gen::ALT_NUMBERS.iter().map(|(n, v, k)| (*n, *v, *k)));
        ManySpace { cases, versions }
    }
    fn levels(&self, c: &(u8, Vec<usize>, usize)) -> Vec<u8> {
        let mut lv: Vec<u8> = gen::SITES.iter().map(|s| if c.0 == 0 { 0 } else { s.full }).collect();
        for &s in &c.1 {
            lv[s] = match gen::SITES[s].name {
                "name" => 4,
                "textures" => 5,
                _ => gen::LEVEL_MANY,
            };
        }
        lv
    }
}
impl Space for ManySpace {
    fn len(&self) -> u64 {
        (self.cases.len() * self.versions.len()) as u64
    }
    fn describe(&self, i: u64) -> Value {
        let c = &self.cases[i as usize / self.versions.len()];
        let v = self.versions[i as usize % self.versions.len()];
        json!({"space": "m2many", "version": v.0, "header_number": v.2, "base": (["empty", "full"][c.0 as usize]), "many_sites": c.1.iter().map(|s| gen::SITES[*s].name).collect::<Vec<_>>(), "count": c.2})
    }
    fn run(&self, i: u64) -> CaseResult {
        let c = &self.cases[i as usize / self.versions.len()];
        let (vname, ver, vnum) = self.versions[i as usize % self.versions.len()];
        gen::set_float_rotation(0);
        gen::set_many(c.2);
        let lv = self.levels(c);
        let mut r = CaseResult::new();
        r.key = format!("m2many/{vname}/{:?}/{}", lv, c.2);
        r.nontrivial = true;
        let m = gen::build_numbered(ver, vnum, &lv);
        api_roundtrip(&mut r, &m, ver);
        if r.outcome.is_empty() {
            r.outcome = "held".into();
        }
        if !r.viols.is_empty() {
            r.outcome.push_str("viol");
        }
        r
    }
    fn case_timeout(&self) -> u64 {
        120
    }
}

// ------------------------------------------------------------------ space "m2flags" (thorough)

/// Every single bit of the 32-bit model flags, the two bits that announce an optional trailing
/// header field (0x8 texture combiner combos, 0x8000000 blend map overrides) together, and that
/// pair combined with every other bit, on both baselines x 8 header numbers.
struct FlagSpace {
    flags: Vec<u32>,
    versions: Vec<(&'static str, M2Version, u32)>,
}
impl FlagSpace {
    fn new() -> Self {
        let both = 0x8u32 | 0x800_0000;
        let mut flags: Vec<u32> = (0..32).map(|b| 1u32 << b).collect();
        flags.push(both);
        flags.extend((0..32).map(|b| 1u32 << b).filter(|f| f & both == 0).map(|f| f | both));
        flags.push(0xFFFF_FFFF);
        let mut versions: Vec<(&'static str, M2Version, u32)> = gen::VERSIONS.iter().map(|(n, v)| (*n, *v, v.to_header_version())).collect();
        versions.extend(gen::ALT_NUMBERS.iter().map(|(n, v, k)| (*n, *v, *k)));
        FlagSpace { flags, versions }
    }
    fn radices(&self) -> [u64; 3] {
        [self.versions.len() as u64, 2, self.flags.len() as u64]
    }
}
impl Space for FlagSpace {
    fn len(&self) -> u64 {
        self.radices().iter().product()
    }
    fn describe(&self, i: u64) -> Value {
        let d = vcore::gen::mixed_radix(i, &self.radices());
        let v = self.versions[d[0] as usize];
        json!({"space": "m2flags", "version": v.0, "header_number": v.2, "base": (["empty", "full"][d[1] as usize]), "flags": format!("{:#010x}", self.flags[d[2] as usize])})
    }
    fn run(&self, i: u64) -> CaseResult {
        let d = vcore::gen::mixed_radix(i, &self.radices());
        let (_, ver, vnum) = self.versions[d[0] as usize];
        gen::set_float_rotation(0);
        let mut lv: Vec<u8> = gen::SITES.iter().map(|s| if d[1] == 0 { 0 } else { s.full }).collect();
        lv[gen::site_index("header_scalars")] = 2;
        let mut r = CaseResult::new();
        r.key = format!("m2flags/{:?}", d);
        r.nontrivial = true;
        let mut m = gen::build_numbered(ver, vnum, &lv);
        m.header.flags = wow_m2::header::M2ModelFlags::from_bits_retain(self.flags[d[2] as usize]);
        api_roundtrip(&mut r, &m, ver);
        // and across versions (from the canonical header numbers): the flags survive every
        // conversion, the file stays parsable
        if r.viols.is_empty() && vnum == ver.to_header_version() {
            for (tname, to) in gen::VERSIONS {
                let mut t = CaseResult::new();
                conv_case(&mut t, &m, ver, to, 0);
                for v in t.viols {
                    r.viol(v.symptom, format!("to {tname}: {}", v.detail));
                }
                r.count("conversions", 1);
            }
        }
        if r.outcome.is_empty() {
            r.outcome = "held".into();
        }
        if !r.viols.is_empty() {
            r.outcome.push_str("viol");
        }
        r
    }
}

// ------------------------------------------------------------------ space "m2conv"

struct ConvSpace {
    models: Vec<MCase>,
    rotations: Vec<usize>,
}
const NV: usize = 5;
impl ConvSpace {
    fn decode(&self, i: u64) -> (usize, usize, usize, usize, usize) {
        let d = vcore::gen::mixed_radix(i, &[NV as u64, NV as u64, 2, self.rotations.len() as u64, self.models.len() as u64]);
        (d[4] as usize, d[1] as usize, d[0] as usize, d[2] as usize, self.rotations[d[3] as usize]) // model, from, to, entry point, rotation
    }
}
impl Space for ConvSpace {
    fn len(&self) -> u64 {
        (self.models.len() * NV * NV * 2 * self.rotations.len()) as u64
    }
    fn describe(&self, i: u64) -> Value {
        let (mi, from, to, ep, rot) = self.decode(i);
        let c = &self.models[mi];
        let (dev, sites) = describe_model(c);
        json!({"space": "m2conv", "from": gen::VERSIONS[from].0, "to": gen::VERSIONS[to].0, "via": (["M2Model::convert", "M2Converter::convert"][ep]), "float_rotation": rot,
               "base": (["empty", "full"][c.base as usize]), "dev": dev, "sites": sites})
    }
    fn run(&self, i: u64) -> CaseResult {
        let (mi, from, to, ep, rot) = self.decode(i);
        let c = &self.models[mi];
        let lv = levels_of(c);
        let mut r = CaseResult::new();
        r.key = format!("conv/{from}/{to}/{ep}/{rot}/{:?}", lv);
        r.nontrivial = lv.iter().any(|l| *l != 0);
        gen::set_float_rotation(rot);
        let src = gen::build(gen::VERSIONS[from].1, &lv);
        conv_case(&mut r, &src, gen::VERSIONS[from].1, gen::VERSIONS[to].1, ep);
        if r.outcome.is_empty() {
            r.outcome = "held".into();
        }
        if !r.viols.is_empty() {
            r.outcome.push_str("viol");
        }
        r
    }
}

fn conv_case(r: &mut CaseResult, src: &M2Model, from: M2Version, to: M2Version, ep: usize) {
    let a = from.to_header_version();
    let b = to.to_header_version();
    let conv = |m: &M2Model| -> Call<M2Model> {
        if ep == 0 {
            call(|| m.convert(to).map_err(|e| e.to_string()))
        } else {
            call(|| M2Converter::new().convert(m, to).map_err(|e| e.to_string()))
        }
    };
    let c = step!(r, conv(src), "convert", true);
    r.count("conversions", 1);
    if c.header.version != b {
        r.viol("converted model does not carry the target header version", format!("{} -> wanted {} got {}", a, b, c.header.version));
        return;
    }
    let wc = step!(r, m2_write(&c), "write(convert(model))", true);
    if a == b {
        // same header version (also Cataclysm<->MoP): bytes must equal those of the source
        let w1 = step!(r, m2_write(src), "write(model)", true);
        byte_diff(r, "conversion to a version with the same header number changes the written bytes", &w1, &wc);
        return;
    }
    let mut exp = gen::canon(src, b);
    gen::strip_uncommon(&mut exp, a, b);
    let n0 = r.viols.len();
    let Some((hc, combos_missing)) = walk(r, &wc, "write(convert(model))", &expect_counts(&exp)) else { return };
    if hc.version != b {
        r.viol("converted file does not carry the target header version", format!("wanted {b} got {}", hc.version));
    }
    let structural = r.viols.len() - if combos_missing { 1 } else { 0 } != n0;
    // the written bytes must carry the source content (independent decode; version-specific
    // record fields are skipped by giving the decoder the stripped expectation)
    if !report_indep(r, indep::compare(&wc, &hc, &exp, "write(convert(model))", &["animations", "bones", "cameras"])) || structural || r.viols.len() - if combos_missing { 1 } else { 0 } != n0 {
        r.outcome.push_str("written_file_malformed;");
        return;
    }
    let mut pc = parse_written!(r, &wc, "parse(write(convert(model)))", combos_missing);
    if deep() {
        let w2 = step!(r, m2_write(&pc), "write(parse(write(convert(model))))", false);
        byte_diff(r, "converted model: second write is not byte-identical to the first", &wc, &w2);
    }
    gen::strip_uncommon(&mut pc, a, b);
    exp.header.version = b;
    diff_sections(r, "conversion loses content representable in both versions", &cmp::sections(&exp, false), &cmp::sections(&pc, false));
}

// ------------------------------------------------------------------ space "seed"

struct SeedSpace {
    subsets: Vec<Vec<&'static str>>,
    /// (name, version, header number)
    versions: Vec<(&'static str, M2Version, u32)>,
    records: Vec<usize>,
    keys: Vec<usize>,
    /// second block of the space (behind the product above): sections with key-less records
    /// next to sections that carry key frames
    mixed: Vec<Mixed>,
}
#[derive(Clone)]
struct Mixed {
    keyless: Vec<&'static str>,
    keyed: Vec<&'static str>,
    n_keyless: usize,
    n_keyed: usize,
    keys: usize,
    version: usize,
}
fn enum_mixed(tier: Tier, n_versions: usize) -> Vec<Mixed> {
    let t = emit::TRACKED;
    // (key-less sections, keyed sections): every ordered pair of distinct sections, every section
    // keyed alone among ten key-less ones, (thorough) every section key-less alone among ten keyed
    let mut sets: Vec<(Vec<&'static str>, Vec<&'static str>)> = vec![];
    for a in t {
        for b in t {
            if a != b {
                sets.push((vec![a], vec![b]));
            }
        }
    }
    for b in t {
        sets.push((t.iter().copied().filter(|x| *x != b).collect(), vec![b]));
    }
    if tier == Tier::Thorough {
        for a in t {
            sets.push((vec![a], t.iter().copied().filter(|x| *x != a).collect()));
        }
    }
    // (key-less records, keyed records, keys)
    let sizes: Vec<(usize, usize, usize)> = match tier {
        Tier::Quick => vec![(1, 1, 1), (3, 3, 3)],
        Tier::Thorough => {
            let mut v = vec![];
            for n0 in [1, 3, 5] {
                for n1 in [1, 3] {
                    for k in [1, 3] {
                        v.push((n0, n1, k));
                    }
                }
            }
            v
        }
    };
    let mut out = vec![];
    for (kl, kd) in &sets {
        for &(n0, n1, k) in &sizes {
            for v in 0..n_versions {
                out.push(Mixed { keyless: kl.clone(), keyed: kd.clone(), n_keyless: n0, n_keyed: n1, keys: k, version: v });
            }
        }
    }
    out
}
impl SeedSpace {
    fn new(tier: Tier) -> Self {
        let t = emit::TRACKED;
        let mut subsets: Vec<Vec<&'static str>> = vec![vec![]];
        for a in 0..t.len() {
            subsets.push(vec![t[a]]);
        }
        for a in 0..t.len() {
            for b in a + 1..t.len() {
                subsets.push(vec![t[a], t[b]]);
            }
        }
        if tier == Tier::Thorough {
            for a in 0..t.len() {
                for b in a + 1..t.len() {
                    for c in b + 1..t.len() {
                        subsets.push(vec![t[a], t[b], t[c]]);
                    }
                }
            }
            for a in 0..t.len() {
                for b in a + 1..t.len() {
                    for c in b + 1..t.len() {
                        for d in c + 1..t.len() {
                            subsets.push(vec![t[a], t[b], t[c], t[d]]);
                        }
                    }
                }
            }
        }
        subsets.push(t.to_vec());
        let mut versions: Vec<(&'static str, M2Version, u32)> = gen::VERSIONS.iter().map(|(n, v)| (*n, *v, v.to_header_version())).collect();
        if tier == Tier::Thorough {
            // header numbers away from the canonical one (the names stay those of the expansion)
            versions.extend(gen::ALT_NUMBERS.iter().map(|(_, v, k)| (gen::VERSIONS.iter().find(|x| x.1 == *v).unwrap().0, *v, *k)));
        }
        let mixed = enum_mixed(tier, versions.len());
        SeedSpace { subsets, versions, records: tier.pick(vec![1, 3], vec![1, 3, 2, 5]), keys: tier.pick(vec![1, 3, 0], vec![1, 3, 0, 2, 8]), mixed }
    }
    fn product(&self) -> u64 {
        self.radices().iter().product()
    }
    fn radices(&self) -> [u64; 5] {
        [self.versions.len() as u64, self.records.len() as u64, self.keys.len() as u64, 3, self.subsets.len() as u64]
    }
    fn decode(&self, i: u64) -> (usize, usize, usize, usize, usize) {
        let d = vcore::gen::mixed_radix(i, &self.radices());
        (d[4] as usize, self.records[d[1] as usize], self.keys[d[2] as usize], d[3] as usize, d[0] as usize)
    }
}
impl Space for SeedSpace {
    fn len(&self) -> u64 {
        self.product() + self.mixed.len() as u64
    }
    fn describe(&self, i: u64) -> Value {
        if i >= self.product() {
            let m = &self.mixed[(i - self.product()) as usize];
            let mut all: Vec<&'static str> = emit::TRACKED.iter().copied().filter(|s| m.keyless.contains(s) || m.keyed.contains(s)).collect();
            all.dedup();
            return json!({"space": "seed", "version": self.versions[m.version].0, "header_number": self.versions[m.version].2, "tracked_sections": all, "keyed_sections": m.keyed,
                          "keyless_records": m.n_keyless, "records": m.n_keyed, "keys": m.keys, "variant": "keyless_sections_next_to_keyed"});
        }
        let (si, n, k, variant, v) = self.decode(i);
        json!({"space": "seed", "version": self.versions[v].0, "header_number": self.versions[v].2, "tracked_sections": self.subsets[si], "records": n, "keys": k, "variant": emit::VARIANTS[variant]})
    }
    fn run(&self, i: u64) -> CaseResult {
        if i >= self.product() {
            let m = &self.mixed[(i - self.product()) as usize];
            let (_, ver, vnum) = self.versions[m.version];
            let seed = emit::make_mixed(vnum, &m.keyless, &m.keyed, m.n_keyless, m.n_keyed, m.keys);
            let mut r = CaseResult::new();
            r.key = format!("seed/{i}");
            // non-trivial: both a key-less and a keyed section are really present (embedded skin
            // profiles exist up to header version 263 only)
            let present = |s: &&'static str| *s != "views" || vnum <= 263;
            r.nontrivial = m.keyless.iter().any(|s| present(s)) && m.keyed.iter().any(|s| present(s));
            seed_case(&mut r, &seed, ver);
            if r.outcome.is_empty() {
                r.outcome = "held".into();
            }
            if !r.viols.is_empty() {
                r.outcome.push_str("viol");
            }
            return r;
        }
        let (si, n, k, variant, v) = self.decode(i);
        let mut r = CaseResult::new();
        r.key = format!("seed/{i}");
        r.nontrivial = !self.subsets[si].is_empty();
        let ver = self.versions[v].1;
        let seed = emit::make_seed(self.versions[v].2, &self.subsets[si], n, k, variant);
        seed_case(&mut r, &seed, ver);
        if r.outcome.is_empty() {
            r.outcome = "held".into();
        }
        if !r.viols.is_empty() {
            r.outcome.push_str("viol");
        }
        r
    }
}

fn seed_expect(seed: &emit::Seed) -> Vec<(&'static str, usize)> {
    let mut v: Vec<(&'static str, usize)> = seed.tracks.iter().map(|(k, t)| (*k, t.len())).collect();
    v.push(("events", seed.events.len()));
    v.push(("vertices", seed.n_vertices));
    v.push(("global_sequences", seed.n_global_sequences));
    v.push(("name", seed.name.len()));
    if seed.version <= 263 {
        v.push(("views", seed.views.len()));
    }
    for s in emit::TRACKED {
        if s != "views" && s != "events" && !seed.tracks.contains_key(s) {
            v.push((s, 0));
        }
    }
    v
}

/// order in which the crate's writer lays the animated sections out; a mis-sized section shifts
/// everything behind it, so the comparison stops at the first section that fails
const FILE_ORDER: [&str; 11] = [
    "bones",
    "views",
    "particle_emitters",
    "ribbon_emitters",
    "texture_animations",
    "color_animations",
    "transparency_animations",
    "events",
    "attachments",
    "cameras",
    "lights",
];

/// What a key-frame comparison could not confirm: the failed (section, component) pairs and the
/// position in FILE_ORDER from which on nothing was judged (a mis-sized section shifts all later ones).
#[derive(Default, Clone)]
struct Unjudged {
    comps: std::collections::BTreeSet<String>,
    from: Option<usize>,
}
impl Unjudged {
    fn clean(&self) -> bool {
        self.comps.is_empty() && self.from.is_none()
    }
}

/// Compare the key frames found in `b` with those of the seed; `src_ver`: version of the seed,
/// `h.version`: version of the file. Every failing component is its own violation class
/// ("<what>: section <s>: <component>"). Components / sections listed in `skip` are not judged
/// (used for conversions of a seed whose plain round trip already lost them).
fn keyframes_vs_seed(r: &mut CaseResult, what: &str, b: &[u8], h: &walker::Hdr, seed: &emit::Seed, src_ver: u32, skip: &Unjudged) -> Unjudged {
    keyframes_vs_seed_via(r, what, b, h, seed, src_ver, skip, &[])
}

/// `chain`: header versions the model passed through between the seed and the file (conversion
/// chains): what one of them cannot store (bone / event ranges from 264 on, embedded skin
/// profiles from 264 on, the sub-mesh layout across 260) is not demanded.
#[allow(clippy::too_many_arguments)]
fn keyframes_vs_seed_via(r: &mut CaseResult, what: &str, b: &[u8], h: &walker::Hdr, seed: &emit::Seed, src_ver: u32, skip: &Unjudged, chain: &[u32]) -> Unjudged {
    let fv = h.version;
    let via_wotlk = chain.iter().any(|v| *v > 263);
    let via_other_submesh = chain.iter().any(|v| (*v < 260) != (src_ver < 260));
    let mut out = Unjudged::default();
    for (pos, sec) in FILE_ORDER.iter().enumerate() {
        if skip.from.map(|f| pos >= f).unwrap_or(false) {
            break;
        }
        let mut bad: Vec<(&str, String)> = vec![];
        match *sec {
            "events" => {
                if seed.events.is_empty() {
                    continue;
                }
                match walker::event_arrays(b, h) {
                    Some(got) if got.len() == seed.events.len() => {
                        for (i, ((gr, gt), (wr, wt))) in got.iter().zip(seed.events.iter()).enumerate() {
                            if gt.as_ref() != Some(wt) {
                                bad.push(("timestamps", format!("event {i}: want {:?} got {:?}", wt, gt)));
                            }
                            if src_ver <= 263 && fv <= 263 && !via_wotlk && gr.as_ref() != Some(wr) {
                                bad.push(("ranges", format!("event {i}: want {:?} got {:?}", wr, gr)));
                            }
                            if !bad.is_empty() {
                                break;
                            }
                        }
                    }
                    Some(_) => bad.push(("record count", String::new())),
                    None => bad.push(("records unreadable", "record array outside file".into())),
                }
            }
            "views" => {
                if seed.views.is_empty() || fv > 263 || via_wotlk {
                    continue;
                }
                match walker::views(b, h) {
                    Some(got) if got.len() == seed.views.len() => {
                        // the sub-mesh record has 32 bytes below header version 260 and 48 from 260 on:
                        // across that boundary only the number of records is comparable
                        let same_sub = (src_ver < 260) == (fv < 260) && !via_other_submesh;
                        let (sf, st) = (if src_ver < 260 { 32 } else { 48 }, if fv < 260 { 32 } else { 48 });
                        for (i, (g, w)) in got.iter().zip(seed.views.iter()).enumerate() {
                            let d = format!("embedded skin profile {i}");
                            if g.indices != w.indices {
                                bad.push(("indices", d.clone()));
                            }
                            if g.triangles != w.triangles {
                                bad.push(("triangles", d.clone()));
                            }
                            if g.properties != w.properties {
                                bad.push(("properties", d.clone()));
                            }
                            if same_sub && g.submeshes != w.submeshes {
                                bad.push(("submeshes", d.clone()));
                            }
                            if !same_sub && g.submeshes.as_ref().map(|x| x.len() / st) != w.submeshes.as_ref().map(|x| x.len() / sf) {
                                bad.push(("submesh count", format!("{d}: {:?} records of {st} bytes, seed has {:?} of {sf}", g.submeshes.as_ref().map(|x| x.len() / st), w.submeshes.as_ref().map(|x| x.len() / sf))));
                            }
                            if g.batches != w.batches {
                                bad.push(("batches", format!("{d}: {:?} batch bytes, seed has {:?}", g.batches.as_ref().map(|x| x.len()), w.batches.as_ref().map(|x| x.len()))));
                            }
                            if g.bone_count_max != w.bone_count_max {
                                bad.push(("bone_count_max", d.clone()));
                            }
                            if !bad.is_empty() {
                                break;
                            }
                        }
                    }
                    Some(_) => bad.push(("record count", String::new())),
                    None => bad.push(("records unreadable", "record array outside file".into())),
                }
            }
            sec => {
                let Some(want) = seed.tracks.get(sec) else { continue };
                match walker::tracks(b, h, sec) {
                    None => bad.push(("records unreadable", "record array outside file".into())),
                    Some(got) if got.len() != want.len() => bad.push(("record count", String::new())),
                    Some(got) => {
                        let bone_ranges = sec != "bones" || (src_ver < 264 && fv < 264 && !via_wotlk);
                        'sec: for (i, (gr, wr)) in got.iter().zip(want.iter()).enumerate() {
                            for (j, (g, w)) in gr.iter().zip(wr.iter()).enumerate() {
                                let d = format!("record {i} value {j}: want {} got {}", short(w), short(g));
                                if g.times != w.times {
                                    bad.push(("timestamps", d.clone()));
                                }
                                if g.values != w.values {
                                    bad.push(("values", d.clone()));
                                }
                                if bone_ranges && g.ranges != w.ranges {
                                    bad.push(("ranges", d.clone()));
                                }
                                if (g.interp, g.gseq) != (w.interp, w.gseq) {
                                    if w.times.as_ref().map(|x| x.is_empty()).unwrap_or(true) {
                                        bad.push(("header (interpolation type / global sequence) of a key-less animated value", d.clone()));
                                    } else {
                                        bad.push(("interpolation type / global sequence", d.clone()));
                                    }
                                }
                                if !bad.is_empty() {
                                    break 'sec;
                                }
                            }
                        }
                    }
                }
            }
        }
        let mut shifted = false;
        for (comp, detail) in bad {
            let key = format!("{sec}: {comp}");
            if skip.comps.contains(&key) {
                if !comp.starts_with("header (") {
                    shifted = true;
                }
                continue;
            }
            if comp != "record count" {
                // (a count mismatch is reported by the layout check)
                r.viol(format!("{what}: section {key}"), detail);
            }
            out.comps.insert(key);
            // a reset header of a key-less value does not move any bytes; everything else may
            if !comp.starts_with("header (") {
                shifted = true;
            }
        }
        if shifted {
            out.from = Some(pos + 1);
            break;
        }
    }
    if out.from.is_none() {
        out.from = skip.from;
    }
    out
}

fn short(t: &walker::TrackData) -> String {
    let s = format!("{:?}", t);
    if s.len() > 300 {
        format!("{}…", &s[..300])
    } else {
        s
    }
}

fn seed_case(r: &mut CaseResult, seed: &emit::Seed, ver: M2Version) {
    let vnum = seed.version;
    let s = emit::emit(seed);
    // self-check of emitter + walker: the seed must contain exactly what the spec says
    {
        let hs = walker::header(&s).expect("seed header");
        let mut t = CaseResult::new();
        for f in walker::check_layout(&s, &hs, &seed_expect(seed), "seed") {
            t.viol(f.symptom, f.detail);
        }
        keyframes_vs_seed(&mut t, "seed", &s, &hs, seed, vnum, &Unjudged::default());
        odd::subarrays_vs_seed(&mut t, "seed", &s, &hs, seed);
        assert!(t.viols.is_empty(), "emitter/walker self-check failed: {:?}", t.viols);
    }
    let p0 = match m2_parse(&s) {
        Call::Ok(p) => p,
        Call::Err(e) => {
            r.outcome = "seed_rejected".into();
            r.count("seeds_rejected_by_parser", 1);
            r.viol("parser rejects a well-formed seed file", e);
            return;
        }
        Call::Panic(c, d) => {
            r.viol(format!("{c} [parse(seed)]"), d);
            return;
        }
    };
    r.count("parses", 1);
    let w1 = step!(r, m2_write(&p0), "write(parse(seed))", true);
    r.count("writes", 1);
    r.count("bytes_written", w1.len() as u64);
    let n0 = r.viols.len();
    let Some((h1, _)) = walk(r, &w1, "write(parse(seed))", &seed_expect(seed)) else { return };
    if r.viols.len() != n0 {
        return;
    }
    let lost = keyframes_vs_seed(r, "key frames not preserved by parse→write", &w1, &h1, seed, vnum, &Unjudged::default());
    let n_sub = r.viols.len();
    odd::subarrays_vs_seed(r, "emitter content not preserved by parse→write", &w1, &h1, seed);
    if lost.clean() && r.viols.len() == n_sub {
        let p1 = step!(r, m2_parse(&w1), "parse(write(parse(seed)))", false);
        if diff_sections(r, "parse(write(p)) differs from p = parse(seed)", &cmp::sections(&p0, true), &cmp::sections(&p1, true)) == 0 {
            let w2 = step!(r, m2_write(&p1), "write(parse(write(parse(seed))))", false);
            byte_diff(r, "second write is not byte-identical to the first", &w1, &w2);
        }
    } else {
        r.outcome.push_str("keyframes_lost;");
    }
    // conversions of the parsed seed; what the plain round trip already lost is not judged again
    for (tname, to) in gen::VERSIONS {
        let mut t = CaseResult::new();
        conv_seed(&mut t, &p0, seed, ver, to, &w1, &lost);
        for v in t.viols {
            r.viol(v.symptom, format!("to {tname}: {}", v.detail));
        }
        if t.err_return {
            r.count("conversions_refused", 1);
        }
        r.count("conversions", 1);
    }
}

fn conv_seed(r: &mut CaseResult, p0: &M2Model, seed: &emit::Seed, from: M2Version, to: M2Version, w1: &[u8], lost: &Unjudged) {
    let a = seed.version;
    let b = to.to_header_version();
    let c = step!(r, call(|| p0.convert(to).map_err(|e| e.to_string())), "convert(parse(seed))", true);
    let wc = step!(r, m2_write(&c), "write(convert(parse(seed)))", true);
    // (a header number inside the range of the target expansion: conversion is the identity)
    if a == b || from == to {
        byte_diff(r, "conversion of a parsed seed to the same header version changes the written bytes", w1, &wc);
        return;
    }
    let mut exp = seed_expect(seed);
    if b > 263 {
        exp.retain(|(s, _)| *s != "views");
    }
    let n0 = r.viols.len();
    let Some((hc, _)) = walk(r, &wc, "write(convert(parse(seed)))", &exp) else { return };
    if hc.version != b {
        r.viol("converted file does not carry the target header version", format!("wanted {b} got {}", hc.version));
        return;
    }
    if r.viols.len() != n0 {
        return;
    }
    // the key frames themselves (timestamps, values) are representable on both sides
    if !keyframes_vs_seed(r, "conversion loses key frames", &wc, &hc, seed, a, lost).comps.is_empty() {
        return;
    }
    let pc = step!(r, m2_parse(&wc), "parse(write(convert(parse(seed))))", false);
    if deep() {
        // the converted object is itself a fixed point of write→parse→write
        let w2 = step!(r, m2_write(&pc), "write(parse(write(convert(parse(seed)))))", false);
        byte_diff(r, "converted seed: second write is not byte-identical to the first", &wc, &w2);
    }
}

// ------------------------------------------------------------------ driver

fn build(name: &str, _arg: &str, tier: Tier) -> Box<dyn Space> {
    vcore::alloc::HARD_CAP.store(1usize << 30, std::sync::atomic::Ordering::Relaxed);
    DEEP.store(tier == Tier::Thorough, std::sync::atomic::Ordering::Relaxed);
    match name {
        "m2" => Box::new(M2Space::new(tier.pick(2, 3), tier.pick(&[0][..], &[0, 4, 7][..]))),
        "m2many" => Box::new(ManySpace::new()),
        "m2flags" => Box::new(FlagSpace::new()),
        "m2conv" => Box::new(ConvSpace { models: enum_models(tier.pick(1, 2)), rotations: tier.pick(vec![0], vec![0, 4]) }),
        "seed" => Box::new(SeedSpace::new(tier)),
        "share" => Box::new(share::ShareSpace::new(tier)),
        "seedchain" => Box::new(chain::SeedChainSpace::new()),
        "edit" => Box::new(chain::EditSpace::new()),
        "m2chain" => Box::new(chain::M2ChainSpace::new()),
        "odd" => Box::new(odd::OddSpace::new()),
        "skin" => Box::new(skinfile::SkinSpace::new(tier)),
        "anim" => Box::new(animfile::AnimSpace::new(tier)),
        _ => panic!("space {name}"),
    }
}

fn main() {
    let args: Vec<String> = std::env::args().collect();
    if args.len() >= 2 && args[1] == "--repro" {
        install_panic_hook();
        repro::run(args.get(2).map(|s| s.as_str()).unwrap_or("all"));
        return;
    }
    if args.len() >= 3 && args[1] == "--survey" {
        // triage helper: run a whole space in-process and tabulate the symptom classes
        install_panic_hook();
        let tier = if args.get(3).map(|s| s.as_str()) == Some("thorough") { Tier::Thorough } else { Tier::Quick };
        let sp = build(&args[2], "", tier);
        let n = sp.len();
        let table: std::sync::Mutex<std::collections::BTreeMap<String, (u64, u64, String)>> = Default::default();
        let next = std::sync::atomic::AtomicU64::new(0);
        std::thread::scope(|sc| {
            for _ in 0..16 {
                sc.spawn(|| loop {
                    let i = next.fetch_add(1, std::sync::atomic::Ordering::Relaxed);
                    if i >= n {
                        break;
                    }
                    let r = match guarded(|| sp.run(i)) {
                        Ok(r) => r,
                        Err((f, l, m)) => {
                            let mut r = CaseResult::new();
                            r.viol(panic_class(&f, &m), format!("{f}:{l} {m}"));
                            r
                        }
                    };
                    let mut t = table.lock().unwrap();
                    if std::env::var("C13_DUMP").is_ok() {
                        for v in &r.viols {
                            println!("DUMP\t{}", json!({"i": i, "symptom": v.symptom, "case": sp.describe(i).to_string()}));
                        }
                    }
                    for v in r.viols {
                        let e = t.entry(v.symptom).or_insert((0, u64::MAX, String::new()));
                        e.0 += 1;
                        if i < e.1 {
                            e.1 = i;
                            e.2 = v.detail;
                        }
                    }
                });
            }
        });
        for (s, (cnt, first, det)) in table.lock().unwrap().iter() {
            println!("{cnt:7}  first={first:<7} {s}\n           case {}\n           {}", sp.describe(*first), det.chars().take(300).collect::<String>());
        }
        return;
    }
    let Mode::Supervisor(mut c) = start("C13", "exploration", build) else { return };
    let k = c.tier.pick(2, 3);
    c.rule = format!(
        "m2: every model within <= {k} site deviations of the all-empty and of the all-populated baseline ({} sites, 3-5 population levels each: empty/one/three, names none/short/255 chars, textures unnamed/named, float pool ±0,1,-1.5,MAX,MIN_POSITIVE,±inf,subnormal) x 8 header numbers (5 versions + 257, 263, 271) x {} rotation(s) of the float pool over the fields; m2conv: every model within <= {} deviations x all 25 (from,to) pairs x 2 entry points (thorough: x 2 float rotations, and the converted object must be a fixed point of write→parse→write); seed: byte-level MD20 files carrying {} key frames in {} records for every subset of <= {} of the 11 animated sections (+ all eleven) x variant {{plain, shared timestamp arrays, key-less tracks with non-default header}} x {} header numbers, each also converted to all 5 versions; second block of seed: sections with key-less records NEXT TO sections that carry key frames: every ordered pair (key-less section, keyed section) of the 11 animated sections + each section keyed alone among ten key-less ones{} x {} x {} header numbers; share: dense byte-level seeds (every animated value keyed) in which animated values point at the SAME array: 10 sharing patterns (two/all values of one record, same value of the next / third / all records, other value of the next record, every value of every record, two separate groups, second record only) x shared kind {{ranges, timestamps, values, ranges+timestamps, all three}} x 10 animated sections singly + all ten at once{} x {} header numbers x keys {} x records {} x extent {}; skin: {}; anim: full product format x sections x bones x track mask x keys{}.{} A case is non-trivial when at least one section is populated (share: at least one array really points at an earlier one); distinct by its axis tuple.",
        gen::SITES.len(),
        c.tier.pick(1, 3),
        c.tier.pick(1, 2),
        c.tier.pick("1 or 3 (or no)", "0, 1, 2, 3 or 8"),
        c.tier.pick("1 or 3", "1, 2, 3 or 5"),
        c.tier.pick(2, 4),
        c.tier.pick(5, 8),
        c.tier.pick("", " + each section key-less alone among ten keyed ones"),
        c.tier.pick("(1 key-less + 1 keyed record with 1 key | 3 + 3 records with 3 keys)", "key-less records {1,3,5} x keyed records {1,3} x keys {1,3}"),
        c.tier.pick(5, 8),
        c.tier.pick("", " + each singly next to the nine others populated without sharing"),
        c.tier.pick(5, 8),
        c.tier.pick("{1,3}", "{1,2,3,8}"),
        c.tier.pick("{3}", "{2,3,5}"),
        c.tier.pick("{same count}", "{same count, member is a prefix of the source, member is one element longer than the source}"),
        c.tier.pick("full product of 5 sections x {empty,one,many} x 6 header layouts x conversions", "full product of 5 sections x {empty,one,many,300} plus every tuple over {empty,many} with one or two of indices/triangles/bone indices at 65537 elements, x 6 header layouts x conversions"),
        c.tier.pick("", " (counts and keys 0,1,2,3,9)"),
        c.tier.pick(
            "",
            " Thorough only: m2flags: every single bit of the model flags, 0x8|0x8000000 (the two bits that announce an optional trailing header field) and that pair with every other bit, on both baselines x 8 header numbers, each also converted to all 5 versions; m2many: one or two of 28 sites at 17 / 300 elements (4335-character name, 300 textures with embedded names) on both baselines, 16 small-record sites also at 65537 elements, x 8 header numbers; m2chain: every model within <= 2 deviations converted from -> via -> to over all 125 triples x 2 entry points x source {built, reparsed}: content representable in all three versions must survive and the result must be a write→parse→write fixed point; seedchain: sparse / dense / shared key-frame seeds (10 sections singly + all) converted over all 125 triples; edit: load-edit-save: a parsed key-frame seed (sparse, dense, dense+shared; all sections + embedded skin profiles) whose static sections are replaced through the object API by every <= 2-deviation static population x 8 header numbers, written, decoded independently (static fields against the object, key frames against the seed), parsed, written again; odd: emitter records with plain sub-arrays (ribbon texture/material index lists, particle geometry model name / tile coordinates) and animated values with ranges but no keys."
        ),
    );
    c.assume("content equality is judged on the Debug rendering of the section vectors with every `offset:` value (recomputed by the writer) masked; NaN is not in the float pool (the parser documents that it replaces NaN pivots)");
    c.assume("object-API models follow the convention of parsed objects: texture file name count includes the NUL, a non-zero placeholder offset marks a named texture, vertex bone indices stay below the bone count, animation blocks of API-built records are empty (key frames enter only through parsed seeds)");
    c.assume("fields a version cannot store (bone name CRC < 260, camera id/flags < 264, ribbon slice/variation < 272, classic vs BC+ animation timing) are excluded from the comparison for that version / conversion pair");
    c.assume("seed files and the container walker follow the record layouts the property names (32/52-byte sequences, 108/112/88-byte bones, 28/20-byte animated values); /repo/docs describes a later layout for some records and is used for header order and M2Array semantics only");
    let spaces: &[&str] = c.tier.pick(&["m2", "m2conv", "seed", "share", "skin", "anim"][..], &["m2", "m2many", "m2flags", "m2conv", "m2chain", "seed", "share", "seedchain", "edit", "odd", "skin", "anim"][..]);
    for s in spaces {
        c.run_space(s, "");
    }
    let mut sites = Map::new();
    for s in gen::SITES {
        sites.insert(s.name.into(), json!(s.levels.len()));
    }
    c.extra_cov.insert(
        "axes".into(),
        json!({"versions": 5, "m2_sites": gen::SITES.len(), "m2_levels_per_site": sites, "m2_max_deviations": k, "conversion_pairs": 25, "conversion_entry_points": 2,
               "seed_tracked_sections": emit::TRACKED.len(), "seed_keyless_next_to_keyed_section_sets": c.tier.pick(121, 132), "seed_records": [1, 3], "seed_keys": [0, 1, 3], "seed_variants": emit::VARIANTS, "m2_header_numbers": 8,
               "skin_layouts": skinfile::LAYOUTS.len(), "skin_sections": 5, "skin_levels": 3, "anim_formats": 2,
               "share_patterns": share::PATTERNS, "share_kinds": share::KINDS.iter().map(|k| k.0).collect::<Vec<_>>(), "share_sections": share::SECTIONS, "share_extents": share::EXTENTS}),
    );
    if c.tier == Tier::Thorough {
        c.extra_cov.insert(
            "thorough_axes".into(),
            json!({"seed_header_numbers": 8, "seed_records": [1, 2, 3, 5], "seed_keys": [0, 1, 2, 3, 8], "seed_max_subset": 4,
                   "share_header_numbers": 8, "share_records": [2, 3, 5], "share_keys": [1, 2, 3, 8], "share_section_choices": 21, "share_extents": 3,
                   "m2flags_flag_values": 64, "m2many_counts": [17, 300, 65537], "m2many_sites": 28, "m2many_huge_sites": 16,
                   "m2chain_triples": 125, "m2chain_entry_points": 2, "m2chain_source_states": 2, "m2chain_max_deviations": 2,
                   "seedchain_triples": 125, "seedchain_seed_kinds": chain::SEED_KINDS, "seedchain_section_choices": 11,
                   "edit_seed_kinds": 3, "edit_header_numbers": 8, "edit_static_max_deviations": 2,
                   "odd_kinds": odd::KINDS, "skin_levels": [0, 1, 3, 300, 65537], "anim_counts": [0, 1, 2, 3, 9], "anim_keys": [0, 1, 2, 3, 9]}),
        );
    }
    c.finish();
}
