//! Thorough-only space "odd": content kinds of parsed files that the other seeds leave empty.
//! * emitter sub-arrays: ribbon emitters with texture / material index lists, particle emitters
//!   with a geometry model file name / tile coordinates (plain arrays referenced from the
//!   record). After parse → write the referenced bytes must still be what the seed carried.
//! * ranges without keys: an animated value whose `ranges` array is populated while it has no
//!   timestamps / values (the sequence table of a pre-WotLK track that is never keyed).
use crate::emit::{self, Seed};
use crate::walker::{self, Hdr};
use crate::{gen, seed_case, share};
use serde_json::{json, Value};
use vcore::*;

pub const KINDS: [&str; 4] = ["emitter_subarrays:first", "emitter_subarrays:second", "emitter_subarrays:both", "ranges_without_keys"];
const SUB_SETS: [(&[&str], &str); 3] = [(&["ribbon_emitters"], "ribbon_emitters"), (&["particle_emitters"], "particle_emitters"), (&["ribbon_emitters", "particle_emitters"], "ribbon+particle_emitters")];

pub fn subarray_names(sec: &str) -> [&'static str; 2] {
    match sec {
        "ribbon_emitters" => ["texture indices", "material indices"],
        _ => ["geometry model file name", "tile coordinates"],
    }
}

/// payloads of the sub-arrays of record `i` (mask bit k: sub-array k is populated)
fn payloads(sec: &str, i: usize, mask: usize) -> Vec<Vec<u8>> {
    emit::subarray_slots(sec)
        .iter()
        .enumerate()
        .map(|(k, (_, elem))| {
            if mask & (1 << k) == 0 {
                return vec![];
            }
            if sec == "particle_emitters" && k == 0 {
                return format!("Spells\\Geo{i}.mdx\0").into_bytes();
            }
            emit::pattern(60_000 + (i * 4 + k) as u32, elem * (1 + (i + k) % 3))
        })
        .collect()
}

/// compare the sub-arrays a written file references with the seed's
pub fn subarrays_vs_seed(r: &mut CaseResult, what: &str, b: &[u8], h: &Hdr, seed: &Seed) {
    for ((sec, i), want) in &seed.subarrays {
        let Some((bytes, n, sz)) = walker::section(b, h, sec) else {
            r.viol(format!("{what}: section {sec}: records unreadable"), "");
            continue;
        };
        if *i >= n {
            continue; // count mismatch is reported by the layout check
        }
        for (k, ((pos, elem), w)) in emit::subarray_slots(sec).iter().zip(want.iter()).enumerate() {
            let c = walker::u32at(bytes, i * sz + pos).unwrap() as usize;
            let o = walker::u32at(bytes, i * sz + pos + 4).unwrap() as usize;
            let got: Option<&[u8]> = if c == 0 { Some(&[]) } else { b.get(o..o.saturating_add(c.saturating_mul(*elem))) };
            if got != Some(&w[..]) {
                r.viol(
                    format!("{what}: section {sec}: {} (plain array referenced from the record)", subarray_names(sec)[k]),
                    format!("record {i}: record says (count {c}, offset {o}) in a {}-byte file; want {:02x?} got {:02x?}", b.len(), w, got.map(|g| &g[..g.len().min(32)])),
                );
                return;
            }
        }
    }
}

pub struct OddSpace {
    versions: Vec<(&'static str, wow_m2::M2Version, u32)>,
}
impl OddSpace {
    pub fn new() -> Self {
        let mut versions: Vec<(&'static str, wow_m2::M2Version, u32)> = gen::VERSIONS.iter().map(|(n, v)| (*n, *v, v.to_header_version())).collect();
        versions.extend(gen::ALT_NUMBERS.iter().map(|(n, v, k)| (*n, *v, *k)));
        OddSpace { versions }
    }
    fn radices(&self) -> [u64; 5] {
        // version, records, keys, section choice, kind
        [self.versions.len() as u64, 2, 3, 11, KINDS.len() as u64]
    }
}
const RECS: [usize; 2] = [1, 3];
const KEYS: [usize; 3] = [1, 3, 0];

impl OddSpace {
    fn sections(&self, kind: usize, choice: usize) -> Option<(Vec<&'static str>, String)> {
        if kind < 3 {
            SUB_SETS.get(choice).map(|(s, n)| (s.to_vec(), n.to_string()))
        } else if choice < 10 {
            Some((vec![share::SECTIONS[choice]], share::SECTIONS[choice].to_string()))
        } else {
            Some((share::SECTIONS[..10].to_vec(), "all_sections".into()))
        }
    }
}

impl Space for OddSpace {
    fn len(&self) -> u64 {
        self.radices().iter().product()
    }
    fn describe(&self, i: u64) -> Value {
        let d = vcore::gen::mixed_radix(i, &self.radices());
        let v = self.versions[d[0] as usize];
        let secs = self.sections(d[4] as usize, d[3] as usize).map(|x| x.1).unwrap_or_else(|| "-".into());
        json!({"space": "odd", "version": v.0, "header_number": v.2, "records": RECS[d[1] as usize], "keys": KEYS[d[2] as usize], "sections": secs, "content": KINDS[d[4] as usize]})
    }
    fn run(&self, i: u64) -> CaseResult {
        let d = vcore::gen::mixed_radix(i, &self.radices());
        let (_, ver, vnum) = self.versions[d[0] as usize];
        let (n, k, kind) = (RECS[d[1] as usize], KEYS[d[2] as usize], d[4] as usize);
        let mut r = CaseResult::new();
        r.key = format!("odd/{:?}", d);
        let Some((secs, _)) = self.sections(kind, d[3] as usize) else {
            r.outcome = "not_applicable".into();
            return r;
        };
        let mut seed = emit::make_seed(vnum, &secs, n, k, 0);
        if kind < 3 {
            for sec in &secs {
                for rec in 0..n {
                    seed.subarrays.insert((*sec, rec), payloads(sec, rec, kind + 1));
                }
            }
            r.nontrivial = true;
        } else {
            // every animated value that has no keys gets a ranges array (where the layout has one)
            for (sec, recs) in seed.tracks.iter_mut() {
                if *sec == "bones" && vnum >= 264 {
                    continue;
                }
                for (ri, rec) in recs.iter_mut().enumerate() {
                    for (j, t) in rec.iter_mut().enumerate() {
                        if t.times.as_ref().map(|x| x.is_empty()).unwrap_or(true) {
                            t.ranges = Some(emit::pattern(70_000 + (ri * 16 + j) as u32, 8 * (1 + (ri + j) % 2)));
                            r.nontrivial = true;
                        }
                    }
                }
            }
            if vnum <= 263 {
                for (ri, e) in seed.events.iter_mut().enumerate() {
                    if e.1.is_empty() {
                        e.0 = emit::pattern(71_000 + ri as u32, 8);
                        r.nontrivial = true;
                    }
                }
            }
        }
        seed_case(&mut r, &seed, ver);
        if r.outcome.is_empty() {
            r.outcome = "held".into();
        }
        if !r.viols.is_empty() {
            r.outcome.push_str("viol");
        }
        r
    }
}
