//! Stand-alone reproductions of the defects the check reports (`c13 --repro [name]`).
pub fn run(_which: &str) {
    println!("(filled in after triage)");
}
