//! Stand-alone reproductions of the defects the check reports: `c13 --repro [name|all]`.
//! Each one uses only the public API of wow-m2 (plus the byte-level seed emitter where key
//! frames are needed) and prints expected vs actual.
use crate::{emit, walker};
use std::io::Cursor;
use wow_m2::anim::*;
use wow_m2::chunks::texture::{M2Texture, M2TextureFlags, M2TextureType};
use wow_m2::common::{C3Vector, FixedString, M2Array, M2ArrayString};
use wow_m2::header::{M2Header, M2ModelFlags};
use wow_m2::skin::{OldSkin, OldSkinHeader, Skin, SkinBatch, SkinFile, SkinHeader, SkinSubmesh};
use wow_m2::{M2Model, M2Version};

fn write(m: &M2Model) -> Result<Vec<u8>, String> {
    let r = vcore::guarded(|| {
        let mut c = Cursor::new(Vec::new());
        m.write(&mut c).map(|_| c.into_inner()).map_err(|e| e.to_string())
    });
    match r {
        Ok(x) => x,
        Err((f, l, msg)) => Err(format!("PANIC at {f}:{l}: {msg}")),
    }
}

fn texture_name() {
    println!("--- texture-name: M2Model::write with a named texture");
    for filler in [0usize, 4] {
        let mut m = M2Model::default();
        m.header = M2Header::new(M2Version::WotLK);
        for i in 0..filler {
            m.vertices.push(wow_m2::chunks::M2Vertex {
                position: C3Vector { x: i as f32 + 1.0, y: 2.0, z: 3.0 },
                bone_weights: [255, 0, 0, 0],
                bone_indices: [0; 4],
                normal: C3Vector { x: 0.0, y: 0.0, z: 1.0 },
                tex_coords: wow_m2::common::C2Vector { x: 0.5, y: 0.5 },
                tex_coords2: None,
            });
        }
        m.textures.push(M2Texture {
            texture_type: M2TextureType::Hardcoded,
            flags: M2TextureFlags::empty(),
            // as produced by the parser: count includes the NUL, data does not
            filename: M2ArrayString { string: FixedString { data: b"a.blp".to_vec() }, array: M2Array::new(6, 1) },
        });
        match write(&m) {
            Err(e) => println!("  {filler} vertices before the texture: write -> {e}   (expected: Ok)"),
            Ok(b) => {
                let p = M2Model::parse(&mut Cursor::new(&b)).unwrap();
                println!(
                    "  {filler} vertices before the texture: write Ok; parsed back name = {:?} (expected \"a.blp\"), vertex[2].tex_coords = {:?} (expected x=0.5,y=0.5: the name's count/offset were patched into this vertex)",
                    String::from_utf8_lossy(&p.textures[0].filename.string.data),
                    p.vertices.get(2).map(|v| v.tex_coords)
                );
            }
        }
    }
    println!("  cause: model.rs write(): `base_data_offset = std::mem::size_of::<M2Header>()` ({} bytes, the in-memory struct) is used where the on-disk header size (304/324) is needed", std::mem::size_of::<M2Header>());
}

fn combiner_flag() {
    println!("--- combiner-flag: header flag 0x8 survives, the field it announces is dropped");
    let mut m = M2Model::default();
    m.header = M2Header::new(M2Version::Cataclysm);
    m.header.flags = M2ModelFlags::USE_TEXTURE_COMBINERS;
    let b = write(&m).unwrap();
    println!("  written {} bytes, flags dword = {:#x}; a header with the field needs {} bytes", b.len(), walker::u32at(&b, 16).unwrap(), walker::header_len(272, 8));
    println!("  M2Model::parse(write(m)) = {:?}   (expected: Ok)", M2Model::parse(&mut Cursor::new(&b)).map(|_| ()).map_err(|e| e.to_string()));
}

fn seed_roundtrip(sections: &[&'static str], k: usize, variant: usize) -> (emit::Seed, Vec<u8>, Vec<u8>) {
    let seed = emit::make_seed(256, sections, 1, k, variant);
    let s = emit::emit(&seed);
    let p0 = M2Model::parse(&mut Cursor::new(&s)).expect("seed parses");
    let w1 = write(&p0).expect("write");
    (seed, s, w1)
}

fn event_ranges() {
    println!("--- event-ranges: parse→write of a Vanilla file with one event carrying 2 ranges + 1 timestamp");
    let (seed, s, w1) = seed_roundtrip(&["events"], 1, 0);
    let hs = walker::header(&s).unwrap();
    let h1 = walker::header(&w1).unwrap();
    println!("  seed file : {:?}", walker::event_arrays(&s, &hs).unwrap()[0]);
    println!("  rewritten : {:?}", walker::event_arrays(&w1, &h1).unwrap()[0]);
    println!("  expected  : ({:?}, {:?})", Some(&seed.events[0].0), Some(&seed.events[0].1));
    println!("  cause: model.rs write(), EVENTS SECTION: the offset map and the running offset cover the timestamps only, but the ranges bytes are emitted in front of them");
}

fn embedded_batches() {
    println!("--- embedded-skin-batches: parse→write of a Vanilla file with one embedded skin profile holding 1 batch (24 bytes)");
    let (_seed, s, w1) = seed_roundtrip(&["views"], 1, 0);
    let hs = walker::header(&s).unwrap();
    let h1 = walker::header(&w1).unwrap();
    let pv = |b: &[u8], h: &walker::Hdr| {
        let p = h.pair("views").unwrap();
        (walker::u32at(b, p.offset as usize + 32).unwrap(), walker::u32at(b, p.offset as usize + 36).unwrap())
    };
    println!("  seed file : batches (count, offset) = {:?}", pv(&s, &hs));
    println!("  rewritten : batches (count, offset) = {:?}   (expected count 1)", pv(&w1, &h1));
    println!("  cause: model.rs write(): `n_batches = skin.batches.len() / 96` while collect_embedded_skin_data reads 24 bytes per batch");
}

fn keyless_header() {
    println!("--- keyless-track-header: bone whose tracks have interpolation=Linear, global sequence 0, no key frames");
    let (_seed, s, w1) = seed_roundtrip(&["bones"], 0, 2);
    let hs = walker::header(&s).unwrap();
    let h1 = walker::header(&w1).unwrap();
    let t = |b: &[u8], h: &walker::Hdr| {
        let x = &walker::tracks(b, h, "bones").unwrap()[0][0];
        (x.interp, x.gseq)
    };
    println!("  seed file : translation (interpolation, global sequence) = {:?}", t(&s, &hs));
    println!("  rewritten : translation (interpolation, global sequence) = {:?}   (expected unchanged)", t(&w1, &h1));
    println!("  cause: model.rs write(): when a section has no preserved key frames every track is replaced by `Default::default()`, header fields included");
}

fn skin_detect() {
    println!("--- skin-layout-detection: old-layout skin with 3 indices");
    let s = SkinFile::Old(OldSkin { header: OldSkinHeader::new(), indices: vec![0, 1, 2], triangles: vec![0, 1, 2], bone_indices: vec![], submeshes: vec![], batches: vec![] });
    let mut c = Cursor::new(Vec::new());
    s.write(&mut c).unwrap();
    let b = c.into_inner();
    println!("  OldSkin::parse   -> {:?}", OldSkin::parse(&mut Cursor::new(&b)).map(|x| x.indices));
    println!("  SkinFile::parse  -> {:?}   (expected Old with indices [0, 1, 2])", SkinFile::parse(&mut Cursor::new(&b)).map(|x| (x.is_old_format(), x.indices().clone())).map_err(|e| e.to_string()));
    println!("  cause: skin.rs detect_skin_format(): `second_field <= 4` takes the indices count of a small old-layout file for a version number");
}

fn skin_submesh() {
    println!("--- skin-submesh-size: one submesh + one batch");
    let sm = SkinSubmesh { id: 1, level: 0, vertex_start: 0, vertex_count: 3, triangle_start: 0, triangle_count: 3, bone_count: 1, bone_start: 0, bone_influence: 1, center: [1.0, 2.0, 3.0], sort_center: [4.0, 5.0, 6.0], bounding_radius: 7.0 };
    let bt = SkinBatch { flags: 0x10, priority_plane: 0, shader_id: 0x11, skin_section_index: 0, geoset_index: 0, color_index: 0xFFFF, material_index: 1, material_layer: 0, texture_count: 1, texture_combo_index: 2, texture_coord_combo_index: 3, texture_weight_combo_index: 4, texture_transform_combo_index: 5 };
    let s = Skin { header: SkinHeader::new(M2Version::Cataclysm), indices: vec![0, 1, 2, 3, 4, 5], triangles: vec![], bone_indices: vec![], submeshes: vec![sm], batches: vec![bt.clone()] };
    let mut c = Cursor::new(Vec::new());
    s.write(&mut c).unwrap();
    let b = c.into_inner();
    let p = Skin::parse(&mut Cursor::new(&b)).unwrap();
    println!("  header: submeshes (count, offset) = ({}, {}), batches (count, offset) = ({}, {}); a submesh record is 48 bytes", p.header.submeshes.count, p.header.submeshes.offset, p.header.batches.count, p.header.batches.offset);
    println!("  batch read back: {:?}\n  expected       : {:?}", p.batches[0], bt);
    println!("  cause: skin.rs SkinG::write(): `current_offset += submeshes.len() * 40` although SkinSubmesh::write emits 48 bytes");
}

fn skin_bfa() {
    println!("--- skin-bfa-center: new-layout version 4 header with centre position/bounds");
    let mut h = SkinHeader::new(M2Version::BfA);
    h.center_position = Some([1.0, 2.0, 3.0]);
    h.center_bounds = Some(4.0);
    let s = Skin { header: h, indices: vec![0, 1, 2, 3, 4, 5], triangles: vec![], bone_indices: vec![], submeshes: vec![], batches: vec![] };
    let mut c = Cursor::new(Vec::new());
    s.write(&mut c).unwrap();
    let p = Skin::parse(&mut Cursor::new(c.into_inner())).unwrap();
    println!("  parsed back centre = {:?} {:?}   (expected Some([1.0, 2.0, 3.0]) Some(4.0))", p.header.center_position, p.header.center_bounds);
    println!("  cause: skin.rs SkinHeader::parse(): seeks to the end to learn the file size, then compares the size with the *new* stream position");
}

fn anim_files() {
    println!("--- anim-legacy / anim-modern: one section, one bone with one translation key");
    let bone = AnimBoneAnimation { bone_id: 5, translation: Some(AnimTranslation { timestamps: vec![0], translations: vec![C3Vector { x: 1.0, y: 2.0, z: 3.0 }] }), rotation: None, scaling: None };
    let sec = AnimSection { header: AnimSectionHeader { magic: *b"AFID", id: 60, start: 0, end: 100 }, bone_animations: vec![bone] };
    let legacy = AnimFile {
        format: AnimFormat::Legacy,
        sections: vec![sec.clone()],
        metadata: AnimMetadata::Legacy { file_size: 0, animation_count: 1, structure_hints: LegacyStructureHints { appears_valid: true, estimated_blocks: 1, has_timestamps: false } },
    };
    let modern = AnimFile {
        format: AnimFormat::Modern,
        sections: vec![sec],
        metadata: AnimMetadata::Modern { header: AnimHeader { magic: ANIM_MAGIC, version: 1, id_count: 1, unknown: 0, anim_entry_offset: 20 }, entries: vec![AnimEntry { id: 60, offset: 0, size: 0 }] },
    };
    for (n, a) in [("legacy", legacy), ("modern", modern)] {
        let mut c = Cursor::new(Vec::new());
        a.write(&mut c).unwrap();
        let b = c.into_inner();
        let r = AnimFile::parse(&mut Cursor::new(&b));
        println!(
            "  {n}: wrote {} bytes; parse -> {}   (expected: 1 section id 60 with 1 bone animation)",
            b.len(),
            match r {
                Ok(p) => format!("{} section(s), ids {:?}, bone animations {:?}", p.sections.len(), p.sections.iter().map(|s| s.header.id).collect::<Vec<_>>(), p.sections.iter().map(|s| s.bone_animations.len()).collect::<Vec<_>>()),
                Err(e) => format!("Err({e})"),
            }
        );
    }
    println!("  cause: anim.rs parse_legacy() is a placeholder (always one empty section with id 1); AnimSection::parse() derives the bone count from the entry size, which includes the key-frame payload");
}

fn parse(b: &[u8]) -> M2Model {
    M2Model::parse(&mut Cursor::new(b)).expect("parse")
}

fn shared_ranges() {
    println!("--- shared-ranges: Vanilla file, one bone whose translation and rotation tracks point at ONE ranges block (as real pre-WotLK models do)");
    let (seed, n) = crate::share::make(256, &["bones"], &[], 2, 1, 0, &[emit::RANGES], 0);
    let s = emit::emit(&seed);
    let w1 = write(&parse(&s)).expect("write");
    let (hs, h1) = (walker::header(&s).unwrap(), walker::header(&w1).unwrap());
    let (a, b) = (walker::tracks(&s, &hs, "bones").unwrap(), walker::tracks(&w1, &h1, "bones").unwrap());
    println!("  {n} shared array(s); key frames of all bone tracks after parse→write identical to the seed: {}   (expected true)", a == b);
    let w2 = write(&parse(&w1)).expect("write");
    println!("  second write byte-identical: {}   (expected true)", w1 == w2);
}

fn shared_longer_member() {
    println!("--- shared-longer-member: two animated values at the SAME offset, the first with 1 timestamp, the second with 2");
    let (seed, _) = crate::share::make(256, &["transparency_animations"], &[], 2, 1, 3, &[emit::TIMES], 2);
    let s = emit::emit(&seed);
    let w1 = write(&parse(&s)).expect("write");
    let (hs, h1) = (walker::header(&s).unwrap(), walker::header(&w1).unwrap());
    let t = |b: &[u8], h: &walker::Hdr| walker::tracks(b, h, "transparency_animations").unwrap()[1][0].times.clone();
    println!("  seed file : record 1 timestamps = {:?}", t(&s, &hs));
    println!("  rewritten : record 1 timestamps = {:?}   (expected unchanged)", t(&w1, &h1));
    println!("  cause: model.rs write(): offset_map / written_offsets are keyed by the original offset only; the first (shorter) array is written and the longer one re-uses its new offset with its own count");
}

fn ranges_without_keys() {
    println!("--- ranges-without-keys: texture animation whose first value has 1 range but no timestamps / values");
    let mut seed = emit::make_seed(256, &["texture_animations"], 1, 0, 0);
    seed.tracks.get_mut("texture_animations").unwrap()[0][0].ranges = Some(emit::pattern(1, 8));
    let s = emit::emit(&seed);
    let w1 = write(&parse(&s)).expect("write");
    let (hs, h1) = (walker::header(&s).unwrap(), walker::header(&w1).unwrap());
    let t = |b: &[u8], h: &walker::Hdr| walker::tracks(b, h, "texture_animations").unwrap()[0][0].ranges.clone();
    println!("  seed file : ranges = {:?}", t(&s, &hs));
    println!("  rewritten : ranges = {:?}   (expected unchanged)", t(&w1, &h1));
    println!("  cause: model.rs collect_*_track_data(): a track is skipped when timestamps and values are empty, its ranges are never read; write() then resets the whole block");
}

fn emitter_subarrays() {
    println!("--- emitter-subarrays: ribbon emitter with a 1-element texture index list and a 2-element material index list");
    let mut seed = emit::make_seed(264, &["ribbon_emitters"], 1, 1, 0);
    seed.subarrays.insert(("ribbon_emitters", 0), vec![vec![0x42, 0x22], vec![1, 0, 2, 0]]);
    let s = emit::emit(&seed);
    let w1 = write(&parse(&s)).expect("write");
    let show = |b: &[u8]| {
        let h = walker::header(b).unwrap();
        let (rec, _, _) = walker::section(b, &h, "ribbon_emitters").unwrap();
        let (c, o) = (walker::u32at(rec, 16).unwrap() as usize, walker::u32at(rec, 20).unwrap() as usize);
        format!("texture indices (count {c}, offset {o}) -> {:02x?} (file has {} bytes)", b.get(o..o + 2 * c), b.len())
    };
    println!("  seed file : {}", show(&s));
    println!("  rewritten : {}   (expected the same two bytes)", show(&w1));
    println!("  cause: M2RibbonEmitter / M2ParticleEmitter keep only the M2Array header of these lists; model.rs write() emits the record with the offset of the source file and never writes the payload");
}

fn orphan_bone_ranges() {
    println!("--- orphan-bone-ranges: Vanilla file with one keyed bone, converted to WotLK");
    let seed = emit::make_seed(256, &["bones"], 1, 1, 0);
    let s = emit::emit(&seed);
    let c = parse(&s).convert(M2Version::WotLK).expect("convert");
    let wc = write(&c).expect("write");
    let w2 = write(&parse(&wc)).expect("write");
    println!("  write(convert(p)) = {} bytes, write(parse(write(convert(p)))) = {} bytes   (expected equal)", wc.len(), w2.len());
    println!("  cause: model.rs write(): the ranges bytes kept in raw_data.bone_animation_data are emitted (and the running offset advanced) although the 88-byte WotLK+ bone record cannot reference them");
}

pub fn run(which: &str) {
    let all: [(&str, fn()); 15] = [
        ("shared-ranges", shared_ranges),
        ("shared-longer-member", shared_longer_member),
        ("ranges-without-keys", ranges_without_keys),
        ("emitter-subarrays", emitter_subarrays),
        ("orphan-bone-ranges", orphan_bone_ranges),
        ("texture-name", texture_name),
        ("combiner-flag", combiner_flag),
        ("event-ranges", event_ranges),
        ("embedded-skin-batches", embedded_batches),
        ("keyless-track-header", keyless_header),
        ("skin-layout-detection", skin_detect),
        ("skin-submesh-size", skin_submesh),
        ("skin-bfa-center", skin_bfa),
        ("anim-legacy", anim_files),
        ("anim-modern", anim_files),
    ];
    let mut done: Vec<usize> = vec![];
    for (n, f) in all {
        if which == "all" || which == n {
            if done.contains(&(f as usize)) {
                continue;
            }
            done.push(f as usize);
            f();
        }
    }
}
