//! Space "share": byte-level MD20 seeds in which several animated values point at the SAME
//! ranges / timestamps / values array (same offset in the file), the way real Vanilla/TBC models
//! share one `ranges` block between the translation / rotation / scale tracks of a bone and
//! WotLK+ models share timestamp arrays between tracks. Every animated value is populated
//! (dense), so that a mis-mapped shared block shifts data that is compared afterwards.
//! The oracles are those of the seed space (parse → write → independent decode of every array
//! against the seed → parse → write byte-identical; conversion to every version).
use crate::emit::{self, Seed, RANGES, TIMES, VALUES};
use crate::walker::{self, TrackData};
use crate::{gen, seed_case};
use serde_json::{json, Value};
use vcore::*;

pub const SECTIONS: [&str; 11] = [
    "bones",
    "particle_emitters",
    "color_animations",
    "texture_animations",
    "transparency_animations",
    "events",
    "attachments",
    "cameras",
    "lights",
    "ribbon_emitters",
    "all_sections",
];

pub const PATTERNS: [&str; 10] = [
    "same_record_first_two_values",
    "same_record_first_and_last_value",
    "same_record_all_values",
    "next_record_same_value",
    "third_record_same_value",
    "next_record_other_value",
    "all_records_same_value",
    "every_value_of_every_record",
    "two_separate_groups",
    "second_record_only",
];

pub const KINDS: [(&str, &[u8]); 5] = [
    ("ranges", &[RANGES]),
    ("timestamps", &[TIMES]),
    ("values", &[VALUES]),
    ("ranges+timestamps", &[RANGES, TIMES]),
    ("ranges+timestamps+values", &[RANGES, TIMES, VALUES]),
];

/// how the member's element count relates to the source's (same offset in every case)
pub const EXTENTS: [&str; 3] = ["same_count", "member_is_prefix", "member_is_longer"];

/// groups of (record, animated value) positions that share; the first position of a group is
/// the one that is laid out first in the file
pub fn groups(pattern: usize, n: usize, ns: usize) -> Vec<Vec<(usize, usize)>> {
    let last = ns.saturating_sub(1);
    let raw: Vec<Vec<(usize, usize)>> = match pattern {
        0 => vec![vec![(0, 0), (0, 1)]],
        1 => vec![vec![(0, 0), (0, last)]],
        2 => vec![(0..ns).map(|j| (0, j)).collect()],
        3 => vec![vec![(0, 0), (1, 0)]],
        4 => vec![vec![(0, 0), (2, 0)]],
        5 => vec![vec![(0, 1), (1, 0)]],
        6 => vec![(0..n).map(|i| (i, 0)).collect()],
        7 => vec![(0..n).flat_map(|i| (0..ns).map(move |j| (i, j))).collect()],
        8 => vec![vec![(0, 0), (1, 0)], vec![(0, last), (1, last)]],
        _ => {
            if ns >= 2 {
                vec![vec![(1, 0), (1, 1)]]
            } else {
                vec![vec![(1, 0), (2, 0)]]
            }
        }
    };
    let mut seen = std::collections::BTreeSet::new();
    let mut out = vec![];
    for g in raw {
        let mut g2: Vec<(usize, usize)> = vec![];
        for p in g {
            if p.0 < n && p.1 < ns && seen.insert(p) {
                g2.push(p);
            }
        }
        g2.sort();
        if g2.len() >= 2 {
            out.push(g2);
        }
    }
    out
}

fn dense_track(tag: u32, i: usize, j: usize, k: usize, vsz: usize, with_ranges: bool) -> TrackData {
    TrackData {
        interp: [1u16, 0, 2, 3][(i + j) % 4],
        gseq: if j == 1 { 1 } else { 0xFFFF },
        ranges: Some(if with_ranges { emit::pattern(tag + 500, 8 * (1 + (i + j) % 2)) } else { vec![] }),
        times: Some(emit::timestamps(k, tag)),
        values: Some(emit::pattern(tag, vsz * k)),
    }
}

fn arr_mut(t: &mut TrackData, kind: u8) -> &mut Option<Vec<u8>> {
    match kind {
        RANGES => &mut t.ranges,
        TIMES => &mut t.times,
        _ => &mut t.values,
    }
}

/// Build a dense seed. `shared`: the sections in which `pattern` is applied; `plain`: further
/// sections that are populated without sharing. Returns the seed and the number of arrays that
/// really point at an earlier one.
pub fn make(version: u32, shared: &[&'static str], plain: &[&'static str], n: usize, k: usize, pattern: usize, kinds: &[u8], extent: usize) -> (Seed, usize) {
    let mut s = Seed { version, name: b"Seed\\Shared.m2\0".to_vec(), n_vertices: 2, n_global_sequences: 2, ..Default::default() };
    let mut n_alias = 0;
    let all: Vec<(&'static str, bool)> = shared.iter().map(|x| (*x, true)).chain(plain.iter().map(|x| (*x, false))).collect();
    for (si, (sec, do_share)) in all.iter().enumerate() {
        let sec: &'static str = sec;
        if sec == "events" {
            for i in 0..n {
                let tag = 7000 + i as u32;
                let ranges = if version <= 263 { emit::pattern(tag, 8 * (1 + i % 2)) } else { vec![] };
                s.events.push((ranges, emit::timestamps(k, 10 * i as u32 + 1)));
            }
            if *do_share {
                for g in groups(pattern, n, 1) {
                    let src = g[0];
                    for m in &g[1..] {
                        for &kind in kinds {
                            let (elem, src_bytes) = match kind {
                                RANGES => (8, s.events[src.0].0.clone()),
                                TIMES => (4, s.events[src.0].1.clone()),
                                _ => continue,
                            };
                            if src_bytes.is_empty() {
                                continue;
                            }
                            let Some(mb) = member_bytes(&mut s, sec, src, kind, elem, src_bytes, extent) else { continue };
                            if kind == RANGES {
                                s.events[m.0].0 = mb;
                            } else {
                                s.events[m.0].1 = mb;
                            }
                            s.alias.insert((sec, m.0, 0, kind), (src.0, 0, kind));
                            n_alias += 1;
                        }
                    }
                }
            }
            continue;
        }
        let slots = walker::track_slots(sec, version);
        let with_ranges = sec != "bones" || version < 264;
        let recs: Vec<Vec<TrackData>> = (0..n)
            .map(|i| slots.iter().enumerate().map(|(j, (_, vsz))| dense_track((si as u32 + 1) * 1000 + (i * 16 + j) as u32, i, j, k, *vsz, with_ranges)).collect())
            .collect();
        s.tracks.insert(sec, recs);
        if !*do_share {
            continue;
        }
        for g in groups(pattern, n, slots.len()) {
            let src = g[0];
            for m in &g[1..] {
                for &kind in kinds {
                    let elem = match kind {
                        RANGES => 8,
                        TIMES => 4,
                        _ => slots[src.1].1,
                    };
                    // a values array can only be shared by animated values of the same element size
                    if kind == VALUES && slots[m.1].1 != elem {
                        continue;
                    }
                    let src_bytes = arr_mut(&mut s.tracks.get_mut(sec).unwrap()[src.0][src.1], kind).clone().unwrap_or_default();
                    if src_bytes.is_empty() {
                        continue;
                    }
                    let Some(mb) = member_bytes(&mut s, sec, (src.0, src.1), kind, elem, src_bytes, extent) else { continue };
                    *arr_mut(&mut s.tracks.get_mut(sec).unwrap()[m.0][m.1], kind) = Some(mb);
                    s.alias.insert((sec, m.0, m.1, kind), (src.0, src.1, kind));
                    n_alias += 1;
                }
            }
        }
    }
    (s, n_alias)
}

/// bytes the member sees at the source's offset. `member_is_prefix`: one element less than the
/// source (not possible for a one-element source); `member_is_longer`: the source's array is
/// followed directly by one more element that only the member covers.
fn member_bytes(s: &mut Seed, sec: &'static str, src: (usize, usize), kind: u8, elem: usize, src_bytes: Vec<u8>, extent: usize) -> Option<Vec<u8>> {
    match extent {
        0 => Some(src_bytes),
        1 => {
            if src_bytes.len() / elem < 2 {
                None
            } else {
                Some(src_bytes[..src_bytes.len() - elem].to_vec())
            }
        }
        _ => {
            let key = (sec, src.0, src.1, kind);
            let extra = s.tail.entry(key).or_insert_with(|| emit::pattern(90_000 + (src.0 * 64 + src.1 * 4) as u32 + kind as u32, elem)).clone();
            let mut v = src_bytes;
            v.extend_from_slice(&extra);
            Some(v)
        }
    }
}

pub struct ShareSpace {
    /// (name, header number)
    versions: Vec<(&'static str, u32)>,
    /// (shared sections, plain sections, label)
    sections: Vec<(Vec<&'static str>, Vec<&'static str>, String)>,
    records: Vec<usize>,
    keys: Vec<usize>,
    extents: Vec<usize>,
}

impl ShareSpace {
    pub fn new(tier: Tier) -> Self {
        let mut versions: Vec<(&'static str, u32)> = gen::VERSIONS.iter().map(|(n, v)| (*n, v.to_header_version())).collect();
        let singles: Vec<&'static str> = SECTIONS[..10].to_vec();
        let mut sections: Vec<(Vec<&'static str>, Vec<&'static str>, String)> = singles.iter().map(|s| (vec![*s], vec![], s.to_string())).collect();
        sections.push((singles.clone(), vec![], "all_sections".into()));
        if tier == Tier::Thorough {
            versions.extend(gen::ALT_NUMBERS.iter().map(|(n, _, k)| (*n, *k)));
            for s in &singles {
                let others: Vec<&'static str> = singles.iter().copied().filter(|x| x != s).collect();
                sections.push((vec![*s], others, format!("{s}+others_unshared")));
            }
        }
        ShareSpace {
            versions,
            sections,
            records: tier.pick(vec![3], vec![2, 3, 5]),
            keys: tier.pick(vec![1, 3], vec![1, 2, 3, 8]),
            extents: tier.pick(vec![0], vec![0, 1, 2]),
        }
    }
    fn radices(&self) -> [u64; 7] {
        [self.versions.len() as u64, KINDS.len() as u64, PATTERNS.len() as u64, self.keys.len() as u64, self.records.len() as u64, self.extents.len() as u64, self.sections.len() as u64]
    }
}

impl Space for ShareSpace {
    fn len(&self) -> u64 {
        self.radices().iter().product()
    }
    fn describe(&self, i: u64) -> Value {
        let d = vcore::gen::mixed_radix(i, &self.radices());
        json!({"space": "share", "version": self.versions[d[0] as usize].0, "header_number": self.versions[d[0] as usize].1, "shared_arrays": KINDS[d[1] as usize].0,
               "pattern": PATTERNS[d[2] as usize], "keys": self.keys[d[3] as usize], "records": self.records[d[4] as usize], "extent": EXTENTS[self.extents[d[5] as usize]],
               "sections": self.sections[d[6] as usize].2})
    }
    fn run(&self, i: u64) -> CaseResult {
        let d = vcore::gen::mixed_radix(i, &self.radices());
        let (_, vnum) = self.versions[d[0] as usize];
        let (shared, plain, _) = &self.sections[d[6] as usize];
        let (seed, n_alias) = make(vnum, shared, plain, self.records[d[4] as usize], self.keys[d[3] as usize], d[2] as usize, KINDS[d[1] as usize].1, self.extents[d[5] as usize]);
        let mut r = CaseResult::new();
        r.key = format!("share/{:?}", d);
        // non-trivial: at least one array really points at an earlier one
        r.nontrivial = n_alias > 0;
        r.count("shared_arrays", n_alias as u64);
        seed_case(&mut r, &seed, version_of(vnum));
        if r.outcome.is_empty() {
            r.outcome = "held".into();
        }
        if !r.viols.is_empty() {
            r.outcome.push_str("viol");
        }
        r
    }
}

pub fn version_of(vnum: u32) -> wow_m2::M2Version {
    gen::VERSIONS
        .iter()
        .map(|(_, v)| *v)
        .chain(gen::ALT_NUMBERS.iter().map(|(_, v, _)| *v))
        .zip(gen::VERSIONS.iter().map(|(_, v)| v.to_header_version()).chain(gen::ALT_NUMBERS.iter().map(|(_, _, k)| *k)))
        .find(|(_, k)| *k == vnum)
        .map(|(v, _)| v)
        .expect("known header number")
}
