//! Space "skin": SkinFile (old / new header layouts) write→parse round trip and conversion.
use crate::{byte_diff, call, cmp, step, walker, Call};
use serde_json::{json, Value};
use std::io::Cursor;
use vcore::*;
use wow_m2::skin::{OldSkin, OldSkinHeader, Skin, SkinBatch, SkinFile, SkinHeader, SkinSubmesh};
use wow_m2::M2Version;

pub const LAYOUTS: [(&str, Option<M2Version>); 6] = [
    ("old", None),
    ("new_Cataclysm", Some(M2Version::Cataclysm)),
    ("new_MoP", Some(M2Version::MoP)),
    ("new_WoD", Some(M2Version::WoD)),
    ("new_Legion", Some(M2Version::Legion)),
    ("new_BfA", Some(M2Version::BfA)),
];
const TARGETS: [(&str, M2Version); 5] = [
    ("WotLK", M2Version::WotLK),
    ("Cataclysm", M2Version::Cataclysm),
    ("MoP", M2Version::MoP),
    ("Legion", M2Version::Legion),
    ("BfA", M2Version::BfA),
];
const SECS: [&str; 5] = ["indices", "triangles", "bone_indices", "submeshes", "batches"];
const LEVELS: [&str; 5] = ["empty", "one", "many", "300", "65537"];
const LEVEL_COUNTS: [usize; 5] = [0, 1, 3, 300, 65537];

/// quick: full product of 5 sections x {empty, one, many}; thorough: full product over
/// {empty, one, many, 300} plus every tuple over {empty, many} in which one or two of the plain
/// index sections are raised to 65537 elements (past the 16-bit boundary of the index values)
pub struct SkinSpace {
    tuples: Vec<[u64; 5]>,
}
impl SkinSpace {
    pub fn new(t: Tier) -> Self {
        let mut tuples = vec![];
        let r = t.pick(3u64, 4u64);
        for i in 0..r.pow(5) {
            let d = vcore::gen::mixed_radix(i, &[r; 5]);
            tuples.push([d[0], d[1], d[2], d[3], d[4]]);
        }
        if t == Tier::Thorough {
            // one or two of the plain index sections (indices, triangles, bone indices) raised to
            // 65537 elements, the other sections over {empty, many}
            for mask in 1..8u32 {
                if mask.count_ones() > 2 {
                    continue;
                }
                let low: Vec<usize> = (0..5).filter(|k| mask >> k & 1 == 0).collect();
                for bits in 0..(1u32 << low.len()) {
                    let mut tup = [4u64; 5];
                    for (x, &k) in low.iter().enumerate() {
                        tup[k] = if bits >> x & 1 == 1 { 2 } else { 0 };
                    }
                    tuples.push(tup);
                }
            }
        }
        SkinSpace { tuples }
    }
}

fn submesh(i: usize) -> SkinSubmesh {
    SkinSubmesh {
        id: [0u16, 1, 0xFFFF][i % 3],
        level: i as u16,
        vertex_start: [0u16, 3, 0xFFFE][i % 3],
        vertex_count: [3u16, 0, 1][i % 3],
        triangle_start: [0u16, 3, 6][i % 3],
        triangle_count: [3u16, 3, 0xFFFF][i % 3],
        bone_count: [1u16, 4, 0][i % 3],
        bone_start: [0u16, 1, 5][i % 3],
        bone_influence: [1u16, 4, 0][i % 3],
        center: [crate::gen::f(i), crate::gen::f(i + 1), crate::gen::f(i + 2)],
        sort_center: [crate::gen::f(i + 3), crate::gen::f(i + 4), crate::gen::f(i + 5)],
        bounding_radius: crate::gen::f(i + 2),
    }
}
fn batch(i: usize) -> SkinBatch {
    SkinBatch {
        flags: [0u8, 0x10, 0xFF][i % 3],
        priority_plane: [0i8, -128, 127][i % 3],
        shader_id: [0u16, 0x8000, 0xFFFF][i % 3],
        skin_section_index: i as u16,
        geoset_index: (i + 1) as u16,
        color_index: [0xFFFFu16, 0, 1][i % 3],
        material_index: (i as u16).wrapping_add(2),
        material_layer: i as u16,
        texture_count: [1u16, 2, 4][i % 3],
        texture_combo_index: (i as u16).wrapping_add(3),
        texture_coord_combo_index: (i as u16).wrapping_add(4),
        texture_weight_combo_index: (i as u16).wrapping_add(5),
        texture_transform_combo_index: [0xFFFFu16, 6, 7][i % 3],
    }
}

struct Parts {
    indices: Vec<u16>,
    triangles: Vec<u16>,
    bone_indices: Vec<u8>,
    submeshes: Vec<SkinSubmesh>,
    batches: Vec<SkinBatch>,
}
fn parts(lv: &[u64]) -> Parts {
    let n = |k: usize| LEVEL_COUNTS[lv[k] as usize];
    let cyc16 = |pool: &[u16], n: usize| -> Vec<u16> { (0..n).map(|i| pool[i % pool.len()]).collect() };
    Parts {
        indices: if lv[0] < 3 { [vec![], vec![7u16], vec![0, 1, 2, 0xFFFF, 4, 5]][lv[0] as usize].clone() } else { cyc16(&[0, 1, 2, 0xFFFF, 4, 5], n(0)) },
        triangles: if lv[1] < 3 { [vec![], vec![0u16, 1, 2], vec![0, 1, 2, 2, 1, 3, 5, 4, 0xFFFF]][lv[1] as usize].clone() } else { cyc16(&[0, 1, 2, 2, 1, 3, 5, 4, 0xFFFF], n(1) * 3) },
        bone_indices: if lv[2] < 3 {
            [vec![], vec![0u8, 1, 2, 3], vec![0, 0, 0, 0, 255, 1, 0, 9, 4, 3, 2, 1]][lv[2] as usize].clone()
        } else {
            (0..n(2) * 4).map(|i| [0u8, 0, 0, 0, 255, 1, 0, 9, 4, 3, 2, 1][i % 12]).collect()
        },
        submeshes: (0..n(3)).map(submesh).collect(),
        batches: (0..n(4)).map(batch).collect(),
    }
}

fn make(layout: usize, lv: &[u64]) -> SkinFile {
    let p = parts(lv);
    match LAYOUTS[layout].1 {
        None => {
            let mut h = OldSkinHeader::new();
            h.bone_count_max = 21;
            SkinFile::Old(OldSkin { header: h, indices: p.indices, triangles: p.triangles, bone_indices: p.bone_indices, submeshes: p.submeshes, batches: p.batches })
        }
        Some(v) => {
            let mut h = SkinHeader::new(v);
            // non-zero, non-default, different from every index count of the alphabet
            h.vertex_count = 9;
            if let Some(c) = h.center_position.as_mut() {
                *c = [1.0, -2.0, 0.5];
            }
            if let Some(c) = h.center_bounds.as_mut() {
                *c = 7.25;
            }
            SkinFile::New(Skin { header: h, indices: p.indices, triangles: p.triangles, bone_indices: p.bone_indices, submeshes: p.submeshes, batches: p.batches })
        }
    }
}

fn skin_write(s: &SkinFile) -> Call<Vec<u8>> {
    call(|| {
        let mut c = Cursor::new(Vec::new());
        s.write(&mut c).map_err(|e| e.to_string())?;
        Ok(c.into_inner())
    })
}
/// What `SkinFile::parse` would try to reserve for this file (it sizes its vectors from the
/// header counts before reading): the detector takes any file whose second dword is <= 4 for the
/// new layout.  Used to keep a mis-detected file from aborting the worker process.
fn reservation(b: &[u8]) -> u64 {
    let second = walker::u32at(b, 4).unwrap_or(0);
    let first_pair = if second <= 4 { 20 } else { 4 };
    let sizes = [2u64, 2, 4, 48, 24];
    (0..5).map(|k| walker::u32at(b, first_pair + 8 * k).unwrap_or(0) as u64 * sizes[k]).sum()
}
fn skin_parse(b: &[u8]) -> Call<SkinFile> {
    let need = reservation(b);
    if need > (64 << 20) {
        return Call::Err(format!("not attempted: the parser would reserve {need} bytes for a {}-byte file", b.len()));
    }
    call(|| SkinFile::parse(&mut Cursor::new(b)).map_err(|e| e.to_string()))
}

/// content rendering: the five data vectors + the non-derived header fields
fn content(s: &SkinFile) -> Vec<(&'static str, String)> {
    let hdr = match s {
        SkinFile::Old(o) => format!("old bone_count_max {}", o.header.bone_count_max),
        SkinFile::New(n) => format!("new version {} vertex_count {} center {:?} {:?}", n.header.version, n.header.vertex_count, n.header.center_position, n.header.center_bounds),
    };
    vec![
        ("header", hdr),
        ("indices", format!("{:?}", s.indices())),
        ("triangles", format!("{:?}", s.triangles())),
        ("bone_indices", format!("{:?}", s.bone_indices())),
        ("submeshes", format!("{:?}", s.submeshes())),
        ("batches", format!("{:?}", s.batches())),
    ]
}

/// independent walk of a written skin: header pairs inside the file, disjoint, counts and the
/// plain arrays equal to the object
fn walk_skin(r: &mut CaseResult, what: &str, b: &[u8], s: &SkinFile) {
    if b.len() < 4 || &b[0..4] != b"SKIN" {
        r.viol(format!("{what}: no SKIN magic"), "");
        return;
    }
    let (first_pair, hlen) = match s {
        SkinFile::Old(_) => (4usize, 48usize),
        SkinFile::New(n) => (20usize, if n.header.center_position.is_some() { 76 } else { 60 }),
    };
    let sizes = [2usize, 2, 4, 48, 24];
    let lens = [s.indices().len(), s.triangles().len(), s.bone_indices().len() / 4, s.submeshes().len(), s.batches().len()];
    let mut ext = vec![];
    for k in 0..5 {
        let (Some(c), Some(o)) = (walker::u32at(b, first_pair + 8 * k), walker::u32at(b, first_pair + 8 * k + 4)) else {
            r.viol(format!("{what}: header truncated"), "");
            return;
        };
        if c as usize != lens[k] {
            r.viol(format!("{what}: header count differs from vector length in section {}", SECS[k]), format!("header {} object {}", c, lens[k]));
        }
        if c == 0 {
            continue;
        }
        let (st, en) = (o as usize, o as usize + c as usize * sizes[k]);
        if st < hlen || en > b.len() {
            r.viol(format!("{what}: header pair points outside the file body in section {}", SECS[k]), format!("({c}, {o}) file {}", b.len()));
            continue;
        }
        ext.push((st, en, SECS[k]));
        let want: Option<Vec<u8>> = match k {
            0 => Some(s.indices().iter().flat_map(|x| x.to_le_bytes()).collect()),
            1 => Some(s.triangles().iter().flat_map(|x| x.to_le_bytes()).collect()),
            2 => Some(s.bone_indices().clone()),
            _ => None,
        };
        if let Some(w) = want {
            if b[st..en] != w[..] {
                r.viol(format!("{what}: written bytes differ from the object (independent decode) in section {}", SECS[k]), "");
            }
        }
    }
    ext.sort();
    for w in ext.windows(2) {
        if w[1].0 < w[0].1 {
            r.viol(format!("{what}: record arrays overlap, sections {} and {}", w[0].2, w[1].2), format!("{:?} {:?}", w[0], w[1]));
        }
    }
}

/// Scalar header fields that both the source and the converted skin can store must survive a
/// conversion: new layout -> new layout keeps vertex_count (and the centre position / bounds when
/// both versions carry them), old layout -> old layout keeps bone_count_max. Across the layouts
/// nothing is demanded: the old layout has no vertex count and the new one no bone_count_max.
fn header_survives(r: &mut CaseResult, what: &str, s: &SkinFile, c: &SkinFile) {
    match (s, c) {
        (SkinFile::New(a), SkinFile::New(b)) => {
            if a.header.vertex_count != b.header.vertex_count {
                r.viol(format!("{what} loses header field vertex_count (new layout to new layout)"), format!("source {} converted {}", a.header.vertex_count, b.header.vertex_count));
            }
            if a.header.name.count != b.header.name.count {
                r.viol(format!("{what} loses header field name (new layout to new layout)"), format!("source count {} converted {}", a.header.name.count, b.header.name.count));
            }
            if let (Some(x), Some(y)) = (a.header.center_position, b.header.center_position) {
                if x.map(f32::to_bits) != y.map(f32::to_bits) || a.header.center_bounds.map(f32::to_bits) != b.header.center_bounds.map(f32::to_bits) {
                    r.viol(format!("{what} loses header fields centre position / bounds (both versions carry them)"), format!("source {:?} {:?} converted {:?} {:?}", x, a.header.center_bounds, y, b.header.center_bounds));
                }
            }
        }
        (SkinFile::Old(a), SkinFile::Old(b)) => {
            if a.header.bone_count_max != b.header.bone_count_max {
                r.viol(format!("{what} loses header field bone_count_max (old layout to old layout)"), format!("source {} converted {}", a.header.bone_count_max, b.header.bone_count_max));
            }
        }
        _ => {}
    }
}

fn diff(r: &mut CaseResult, what: &str, a: &[(&'static str, String)], b: &[(&'static str, String)], skip_header: bool) {
    for ((s, x), (_, y)) in a.iter().zip(b.iter()) {
        if skip_header && *s == "header" {
            continue;
        }
        if x != y {
            r.viol(format!("{what} in section {s}"), cmp::first_diff(x, y));
        }
    }
}

/// `SkinFile::parse` of bytes written from `s`. When it does not hand back the layout that was
/// written, the typed parser of that layout is asked: if that one reads the file back correctly
/// the fault is the layout detection, reported under its own symptom.
fn parse_written(r: &mut CaseResult, tag: &str, bytes: &[u8], s: &SkinFile) -> Option<SkinFile> {
    let res = skin_parse(bytes);
    let wrong_layout = match &res {
        Call::Ok(p) => p.is_new_format() != s.is_new_format(),
        Call::Err(_) => true,
        Call::Panic(..) => false,
    };
    if wrong_layout {
        let typed: Call<SkinFile> = if s.is_new_format() {
            call(|| Skin::parse(&mut Cursor::new(bytes)).map(SkinFile::New).map_err(|e| e.to_string()))
        } else {
            call(|| OldSkin::parse(&mut Cursor::new(bytes)).map(SkinFile::Old).map_err(|e| e.to_string()))
        };
        if let Call::Ok(t) = typed {
            if content(&t) == content(s) {
                let how = match &res {
                    Call::Ok(_) => "takes it for the other layout".to_string(),
                    Call::Err(e) => format!("returns Err: {e}"),
                    _ => String::new(),
                };
                r.viol(
                    format!("{tag}SkinFile::parse does not recognise the {} header layout of a file the typed parser reads back correctly", if s.is_new_format() { "new" } else { "old" }),
                    format!("indices count {}; SkinFile::parse {how}", s.indices().len()),
                );
                r.outcome.push_str("layout_misdetected;");
                return None;
            }
        }
    }
    let mut out = None;
    (|r: &mut CaseResult| {
        let p = step!(r, res, format!("{tag}parse(write(skin))"), false);
        if p.is_new_format() != s.is_new_format() {
            r.viol(format!("{tag}parse(write(skin)) yields the other header layout"), "");
            return;
        }
        out = Some(p);
    })(r);
    out
}

fn roundtrip(r: &mut CaseResult, s: &SkinFile, tag: &str) -> Option<Vec<u8>> {
    let mut out = None;
    let mut inner = |r: &mut CaseResult| {
        let w1 = step!(r, skin_write(s), format!("{tag}write(skin)"), true);
        r.count("writes", 1);
        out = Some(w1.clone());
        let n0 = r.viols.len();
        walk_skin(r, &format!("{tag}write(skin)"), &w1, s);
        if r.viols.len() != n0 {
            return; // a structurally wrong file: what the parser makes of it is not judged
        }
        let Some(p1) = parse_written(r, tag, &w1, s) else { return };
        r.count("parses", 1);
        let n1 = r.viols.len();
        diff(r, &format!("{tag}parse(write(skin)) differs from the object"), &content(s), &content(&p1), false);
        if r.viols.len() != n1 {
            return;
        }
        let w2 = step!(r, skin_write(&p1), format!("{tag}write(parse(write(skin)))"), false);
        if w1 != w2 {
            let pos = w1.iter().zip(w2.iter()).position(|(a, b)| a != b).unwrap_or(w1.len().min(w2.len()));
            r.viol(format!("{tag}write(parse(write(skin))) is not byte-identical to write(skin)"), format!("lengths {} vs {}, first difference at byte {}", w1.len(), w2.len(), pos));
        }
    };
    inner(r);
    out
}

impl SkinSpace {
    /// (five section levels, layout): the tuple index runs fastest, as before
    fn decode(&self, i: u64) -> [u64; 6] {
        let t = self.tuples[i as usize % self.tuples.len()];
        [t[0], t[1], t[2], t[3], t[4], i / self.tuples.len() as u64]
    }
}

impl Space for SkinSpace {
    fn len(&self) -> u64 {
        (self.tuples.len() * LAYOUTS.len()) as u64
    }
    fn describe(&self, i: u64) -> Value {
        let d = self.decode(i);
        json!({"space": "skin", "layout": LAYOUTS[d[5] as usize].0, "indices": LEVELS[d[0] as usize], "triangles": LEVELS[d[1] as usize],
               "bone_indices": LEVELS[d[2] as usize], "submeshes": LEVELS[d[3] as usize], "batches": LEVELS[d[4] as usize]})
    }
    fn case_timeout(&self) -> u64 {
        120
    }
    fn run(&self, i: u64) -> CaseResult {
        let d = self.decode(i);
        let mut r = CaseResult::new();
        r.key = format!("skin/{:?}", d);
        r.nontrivial = d[..5].iter().any(|x| *x != 0);
        let s = make(d[5] as usize, &d[..5]);
        let w1 = roundtrip(&mut r, &s, "");
        // conversions (judged only when the plain round trip holds)
        if r.viols.is_empty() {
            for (tn, tv) in TARGETS {
                let mut t = CaseResult::new();
                (|t: &mut CaseResult| {
                    let c = step!(t, call(|| s.convert(tv).map_err(|e| e.to_string())), "convert(skin)", true);
                    let same_layout = match (&s, LAYOUTS[d[5] as usize].1) {
                        (SkinFile::Old(_), _) => !tv.uses_new_skin_format(),
                        (SkinFile::New(_), Some(v)) => v == tv,
                        _ => false,
                    };
                    if same_layout {
                        let wc = step!(t, skin_write(&c), "write(convert(skin, same version))", false);
                        if let Some(w1) = &w1 {
                            byte_diff(t, "conversion of a skin to its own version changes the written bytes", w1, &wc);
                        }
                        return;
                    }
                    if c.is_new_format() != tv.uses_new_skin_format() {
                        t.viol("converted skin has the wrong header layout for the target version", "");
                        return;
                    }
                    // the five data vectors are representable in every layout
                    let n0 = t.viols.len();
                    diff(t, "skin conversion loses content", &content(&s), &content(&c), true);
                    header_survives(t, "skin conversion", &s, &c);
                    if t.viols.len() != n0 {
                        return;
                    }
                    // and the converted object must itself survive write→parse
                    roundtrip(t, &c, "converted skin: ");
                })(&mut t);
                for v in t.viols {
                    r.viol(v.symptom, format!("to {tn}: {}", v.detail));
                }
                r.count("conversions", 1);
            }
            // thorough: conversion chains s -> t1 -> t2 keep the five data vectors, and a chain that
            // returns to the layout / version of s gives back the bytes of s
            if crate::deep() {
                for (n1, t1) in TARGETS {
                    for (n2, t2) in TARGETS {
                        let mut t = CaseResult::new();
                        (|t: &mut CaseResult| {
                            let c1 = step!(t, call(|| s.convert(t1).map_err(|e| e.to_string())), "convert(skin)", true);
                            let c2 = step!(t, call(|| c1.convert(t2).map_err(|e| e.to_string())), "convert(convert(skin))", true);
                            if c2.is_new_format() != t2.uses_new_skin_format() {
                                t.viol("chained skin conversion: wrong header layout for the target version", "");
                                return;
                            }
                            diff(t, "chained skin conversion loses content", &content(&s), &content(&c2), true);
                            if c1.is_new_format() == s.is_new_format() {
                                // (a detour through the other layout legitimately recomputes these fields)
                                header_survives(t, "chained skin conversion", &s, &c2);
                            }
                            let back_home = match (&s, LAYOUTS[d[5] as usize].1) {
                                (SkinFile::Old(_), _) => !t2.uses_new_skin_format() && !t1.uses_new_skin_format(),
                                (SkinFile::New(_), Some(v)) => v == t2 && v == t1,
                                _ => false,
                            };
                            if back_home {
                                let wc = step!(t, skin_write(&c2), "write(convert(convert(skin)))", false);
                                if let Some(w1) = &w1 {
                                    byte_diff(t, "chained skin conversion staying in the version of the skin changes the written bytes", w1, &wc);
                                }
                            }
                        })(&mut t);
                        for v in t.viols {
                            r.viol(v.symptom, format!("via {n1} to {n2}: {}", v.detail));
                        }
                        r.count("conversions", 2);
                    }
                }
            }
        }
        r.outcome = if r.viols.is_empty() { "held".into() } else { format!("{}viol", r.outcome) };
        r
    }
}
