//! Independent reader for the MD20 container: header layout per version, record sizes, and
//! field-level decoding of the sections the oracle compares against the in-memory model.
//! Written from /repo/docs/src/formats/graphics/m2.md (header order, M2Array = (count, offset),
//! vertex / texture / material / bone field order) and the version thresholds named in the
//! property text (animation records 32/52 bytes, bone records 108/112/88 bytes, pre-264 tracks
//! carry a `ranges` array).  Shares no code with /repo.

pub fn u16at(b: &[u8], o: usize) -> Option<u16> {
    b.get(o..o + 2).map(|s| u16::from_le_bytes([s[0], s[1]]))
}
pub fn u32at(b: &[u8], o: usize) -> Option<u32> {
    b.get(o..o + 4).map(|s| u32::from_le_bytes([s[0], s[1], s[2], s[3]]))
}

#[derive(Clone, Debug)]
pub struct Pair {
    pub name: &'static str,
    pub count: u32,
    pub offset: u32,
    /// byte position of the pair inside the header
    pub pos: usize,
}

#[derive(Clone, Debug)]
pub struct Hdr {
    pub version: u32,
    pub flags: u32,
    pub pairs: Vec<Pair>,
    /// WotLK+: number of skin profiles (replaces the views array)
    #[allow(dead_code)]
    pub nviews: Option<u32>,
    /// bounding box min/max, radius, collision box min/max, radius (raw bits)
    pub floats: [u32; 14],
    pub len: usize,
}

impl Hdr {
    pub fn pair(&self, name: &str) -> Option<&Pair> {
        self.pairs.iter().find(|p| p.name == name)
    }
}

/// header field order; `None` marks the place of the views field and of the 14 floats
pub const ORDER: &[&str] = &[
    "name",
    "#flags",
    "global_sequences",
    "animations",
    "animation_lookup",
    "?playable_animation_lookup",
    "bones",
    "key_bone_lookup",
    "vertices",
    "#views",
    "color_animations",
    "textures",
    "transparency_animations",
    "?texture_flipbooks",
    "texture_animations",
    "color_replacements",
    "materials",
    "bone_lookup_table",
    "texture_lookup_table",
    "texture_units",
    "transparency_lookup_table",
    "texture_animation_lookup",
    "#floats",
    "bounding_triangles",
    "bounding_vertices",
    "bounding_normals",
    "attachments",
    "attachment_lookup_table",
    "events",
    "lights",
    "cameras",
    "camera_lookup_table",
    "ribbon_emitters",
    "particle_emitters",
];

pub fn header_len(version: u32, flags: u32) -> usize {
    let mut n = 8;
    for f in ORDER {
        n += match *f {
            "#flags" => 4,
            "#views" => {
                if version <= 263 {
                    8
                } else {
                    4
                }
            }
            "#floats" => 56,
            s if s.starts_with('?') => {
                if version <= 263 {
                    8
                } else {
                    0
                }
            }
            _ => 8,
        };
    }
    if version >= 260 && flags & 0x800_0000 != 0 {
        n += 8;
    }
    if flags & 0x8 != 0 {
        n += 8;
    }
    n
}

pub fn header(b: &[u8]) -> Result<Hdr, String> {
    header_opts(b, false)
}

/// `ignore_combos`: do not expect the optional trailing field that flag 0x8 announces
pub fn header_opts(b: &[u8], ignore_combos: bool) -> Result<Hdr, String> {
    if b.len() < 8 || &b[0..4] != b"MD20" {
        return Err("no MD20 magic".into());
    }
    let version = u32at(b, 4).unwrap();
    let mut o = 8usize;
    let mut pairs = vec![];
    let mut flags = 0u32;
    let mut nviews = None;
    let mut floats = [0u32; 14];
    let pair = |o: &mut usize, name: &'static str| -> Result<Pair, String> {
        let c = u32at(b, *o).ok_or_else(|| format!("header truncated at field {name}"))?;
        let f = u32at(b, *o + 4).ok_or_else(|| format!("header truncated at field {name}"))?;
        let p = Pair { name, count: c, offset: f, pos: *o };
        *o += 8;
        Ok(p)
    };
    for f in ORDER {
        match *f {
            "#flags" => {
                flags = u32at(b, o).ok_or("header truncated at flags")?;
                o += 4;
            }
            "#views" => {
                if version <= 263 {
                    pairs.push(pair(&mut o, "views")?);
                } else {
                    nviews = Some(u32at(b, o).ok_or("header truncated at views")?);
                    o += 4;
                }
            }
            "#floats" => {
                for k in 0..14 {
                    floats[k] = u32at(b, o).ok_or("header truncated at bounding floats")?;
                    o += 4;
                }
            }
            s if s.starts_with('?') => {
                if version <= 263 {
                    let name: &'static str = &s[1..];
                    pairs.push(pair(&mut o, name)?);
                }
            }
            s => pairs.push(pair(&mut o, s)?),
        }
    }
    // optional trailing fields announced by flags: blend map overrides (header version >= 260,
    // flag 0x8000000), then texture combiner combos (flag 0x8)
    if version >= 260 && flags & 0x800_0000 != 0 && !ignore_combos {
        pairs.push(pair(&mut o, "blend_map_overrides")?);
    }
    if flags & 0x8 != 0 && !ignore_combos {
        pairs.push(pair(&mut o, "texture_combiner_combos")?);
    }
    Ok(Hdr { version, flags, pairs, nviews, floats, len: o })
}

/// size in bytes of one record of the named header array
pub fn rec_size(name: &str, version: u32) -> usize {
    // animated value header: interpolation u16, global sequence i16, then (count, offset) arrays
    let block = 4 + 3 * 8; // ranges + timestamps + values
    let bone_track = if version < 264 { 4 + 3 * 8 } else { 4 + 2 * 8 };
    match name {
        "name" => 1,
        "global_sequences" => 4,
        "animations" => {
            if version <= 256 {
                32
            } else {
                52
            }
        }
        "bones" => 4 + 4 + 2 + 2 + if version >= 260 { 4 } else { 0 } + 3 * bone_track + 12,
        "vertices" => 48,
        "views" => 44,
        "color_animations" => 2 * block,
        "textures" => 16,
        "transparency_animations" => block,
        "texture_animations" => 4 + 5 * block,
        "materials" => 4,
        "bounding_triangles" => 2,
        "bounding_vertices" | "bounding_normals" => 12,
        "attachments" => 4 + 4 + 12 + block,
        "events" => 4 + 4 + 4 + 12 + 4 + 8 + 8,
        "lights" => 4 + 12 + 5 * block + 4 + 4,
        "cameras" => 16 + block + 12 + block + 12 + block + if version >= 264 { 8 } else { 0 },
        "ribbon_emitters" => 4 + 12 + 8 + 8 + 4 * block + 12 + 4 + if version >= 272 { 4 } else { 0 } + 8,
        // id, flags, pos, bone, tex, model name, parent, unk, 4 type bytes, tile coords,
        // 45 floats, colour + 2 floats, 2 floats + u32 + f32, 10 animated values
        "particle_emitters" => 4 + 4 + 12 + 2 + 2 + 8 + 2 + 2 + 4 + 8 + 45 * 4 + 12 + 8 + 16 + 10 * block,
        // u16 tables
        _ => 2,
    }
}

pub struct Finding {
    pub symptom: String,
    pub detail: String,
}

/// Structural sanity: every populated pair lies inside the file behind the header, record
/// arrays do not overlap, counts equal the expected vector lengths.
pub fn check_layout(b: &[u8], h: &Hdr, expect: &[(&str, usize)], what: &str) -> Vec<Finding> {
    let mut out = vec![];
    let mut ext: Vec<(usize, usize, &str)> = vec![];
    for p in &h.pairs {
        if let Some((_, n)) = expect.iter().find(|(s, _)| *s == p.name) {
            if *n != p.count as usize {
                out.push(Finding {
                    symptom: format!("{what}: header count differs from vector length in section {}", p.name),
                    detail: format!("header says {} elements, object has {}", p.count, n),
                });
            }
        }
        if p.count == 0 {
            continue;
        }
        let sz = rec_size(p.name, h.version);
        let start = p.offset as usize;
        let end = start.saturating_add((p.count as usize).saturating_mul(sz));
        if start < h.len || end > b.len() {
            out.push(Finding {
                symptom: format!("{what}: header pair points outside the file body in section {}", p.name),
                detail: format!("count {} offset {} record size {} header {} file {}", p.count, p.offset, sz, h.len, b.len()),
            });
            continue;
        }
        ext.push((start, end, p.name));
    }
    ext.sort();
    for w in ext.windows(2) {
        if w[1].0 < w[0].1 {
            out.push(Finding {
                symptom: format!("{what}: record arrays overlap, sections {} and {}", w[0].2, w[1].2),
                detail: format!("{} = [{}, {}) and {} = [{}, {})", w[0].2, w[0].0, w[0].1, w[1].2, w[1].0, w[1].1),
            });
        }
    }
    out
}

/// bytes of the record array of a section (None when outside the file)
pub fn section<'a>(b: &'a [u8], h: &Hdr, name: &str) -> Option<(&'a [u8], usize, usize)> {
    let p = h.pair(name)?;
    let sz = rec_size(name, h.version);
    if p.count == 0 {
        return Some((&b[0..0], 0, sz));
    }
    let s = p.offset as usize;
    let e = s.checked_add((p.count as usize).checked_mul(sz)?)?;
    b.get(s..e).map(|x| (x, p.count as usize, sz))
}

/// which header field or section body contains byte position `pos` (for classifying a byte diff)
pub fn locate(b: &[u8], h: &Hdr, pos: usize) -> String {
    if pos < 8 {
        return "header:magic/version".into();
    }
    if pos < h.len {
        for p in &h.pairs {
            if pos >= p.pos && pos < p.pos + 8 {
                return format!("header:{}", p.name);
            }
        }
        return "header:scalars".into();
    }
    // inside a record array?
    let mut best: Option<(&str, usize)> = None;
    for p in &h.pairs {
        if p.count == 0 {
            continue;
        }
        let s = p.offset as usize;
        let e = s + p.count as usize * rec_size(p.name, h.version);
        if pos >= s && pos < e {
            return format!("records:{}", p.name);
        }
        if s <= pos && best.map(|x| s > x.1).unwrap_or(true) {
            best = Some((p.name, s));
        }
    }
    let _ = b;
    match best {
        Some((n, _)) => format!("payload-after:{n}"),
        None => "body".into(),
    }
}

// ------------------------------------------------------------------ animated values

#[derive(Clone, Debug, PartialEq, Default)]
pub struct TrackData {
    pub interp: u16,
    pub gseq: u16,
    pub ranges: Option<Vec<u8>>,
    pub times: Option<Vec<u8>>,
    pub values: Option<Vec<u8>>,
}

fn arr(b: &[u8], o: usize, elem: usize) -> Option<Vec<u8>> {
    let c = u32at(b, o)? as usize;
    let f = u32at(b, o + 4)? as usize;
    if c == 0 {
        return Some(vec![]);
    }
    b.get(f..f.checked_add(c.checked_mul(elem)?)?).map(|s| s.to_vec())
}

/// decode one animated-value header at `o`; `with_ranges` = it carries a ranges array
pub fn track(b: &[u8], o: usize, with_ranges: bool, vsize: usize) -> TrackData {
    let mut t = TrackData { interp: u16at(b, o).unwrap_or(0xEEEE), gseq: u16at(b, o + 2).unwrap_or(0xEEEE), ..Default::default() };
    let mut p = o + 4;
    if with_ranges {
        t.ranges = arr(b, p, 8);
        p += 8;
    } else {
        t.ranges = Some(vec![]);
    }
    t.times = arr(b, p, 4);
    t.values = arr(b, p + 8, vsize);
    t
}

/// (offset inside record, value size) of every animated value of a section's record
pub fn track_slots(name: &str, version: u32) -> Vec<(usize, usize)> {
    let block = 28usize;
    match name {
        "bones" => {
            let t = if version < 264 { 28 } else { 20 };
            let base = 12 + if version >= 260 { 4 } else { 0 };
            vec![(base, 12), (base + t, 8), (base + 2 * t, 12)]
        }
        "color_animations" => vec![(0, 12), (block, 2)],
        "transparency_animations" => vec![(0, 4)],
        "texture_animations" => (0..5).map(|k| (4 + k * block, 4)).collect(),
        "attachments" => vec![(20, 4)],
        "cameras" => vec![(16, 12), (16 + block + 12, 12), (16 + 2 * (block + 12), 4)],
        "lights" => vec![(16, 12), (16 + block, 12), (16 + 2 * block, 4), (16 + 3 * block, 4), (16 + 4 * block, 4)],
        "ribbon_emitters" => vec![(32, 12), (32 + block, 4), (32 + 2 * block, 4), (32 + 3 * block, 4)],
        "particle_emitters" => [4usize, 4, 4, 8, 4, 12, 4, 4, 4, 4].iter().enumerate().map(|(k, v)| (264 + k * block, *v)).collect(),
        _ => vec![],
    }
}

/// all animated values of a section: one Vec<TrackData> per record
pub fn tracks(b: &[u8], h: &Hdr, name: &str) -> Option<Vec<Vec<TrackData>>> {
    let p = h.pair(name)?;
    let sz = rec_size(name, h.version);
    let slots = track_slots(name, h.version);
    let mut out = vec![];
    for i in 0..p.count as usize {
        let ro = p.offset as usize + i * sz;
        if ro + sz > b.len() {
            return None;
        }
        let with_ranges = name != "bones" || h.version < 264;
        out.push(slots.iter().map(|(o, v)| track(b, ro + o, with_ranges, *v)).collect());
    }
    Some(out)
}

/// events: ranges array (8-byte elements) and times array (4-byte elements)
pub fn event_arrays(b: &[u8], h: &Hdr) -> Option<Vec<(Option<Vec<u8>>, Option<Vec<u8>>)>> {
    let p = h.pair("events")?;
    let sz = rec_size("events", h.version);
    let mut out = vec![];
    for i in 0..p.count as usize {
        let ro = p.offset as usize + i * sz;
        if ro + sz > b.len() {
            return None;
        }
        out.push((arr(b, ro + 28, 8), arr(b, ro + 36, 4)));
    }
    Some(out)
}

#[derive(Clone, Debug, PartialEq, Default)]
pub struct ViewData {
    pub indices: Option<Vec<u8>>,
    pub triangles: Option<Vec<u8>>,
    pub properties: Option<Vec<u8>>,
    pub submeshes: Option<Vec<u8>>,
    pub batches: Option<Vec<u8>>,
    pub bone_count_max: u32,
}

/// embedded skin profiles of a pre-WotLK file
pub fn views(b: &[u8], h: &Hdr) -> Option<Vec<ViewData>> {
    let p = h.pair("views")?;
    let sub = if h.version < 260 { 32 } else { 48 };
    let mut out = vec![];
    for i in 0..p.count as usize {
        let ro = p.offset as usize + i * 44;
        if ro + 44 > b.len() {
            return None;
        }
        out.push(ViewData {
            indices: arr(b, ro, 2),
            triangles: arr(b, ro + 8, 2),
            properties: arr(b, ro + 16, 4),
            submeshes: arr(b, ro + 24, sub),
            batches: arr(b, ro + 32, 24),
            bone_count_max: u32at(b, ro + 40)?,
        });
    }
    Some(out)
}
