//! C14 — ADT terrain survives build -> serialise -> parse, re-serialisation is stable, and the
//! chunk framing / offset tables of every produced file are consistent.
//!
//! Bounded exhaustive exploration: every builder input with <= D deviations from a minimal and
//! from a (version-adjusted) full baseline over the site table in `model.rs`, for every target
//! version; every produced file (builder output and each re-serialisation round on two rebuild
//! paths) is judged by the independent chunk walker in `walker.rs` and by content comparison.
//!
//! Space `holes` (both tiers): the value alphabet of the 64-bit hole bitmap of terrain chunks with the
//! high_res_holes flag (`model::hole_alphabet`), on chunks that carry heights and normals.
//!
//! The thorough tier adds five spaces over an extended alphabet (values after `Site::core`):
//! `ext` (<= 2 deviations with at least one extended value), `chunks` (full product of per-chunk
//! sub-chunk presence/format, 256 combinations per tile), `top_names` and `top_chunks` (full
//! products of the top-level sites) and `convert` (version conversion chains and load-modify-save).
mod model;
mod walker;

use model::*;
use serde_json::{json, Value};
use std::collections::HashSet;
use std::io::Cursor;
use vcore::*;
use wow_adt::{AdtBuilder, BuiltAdt, ParsedAdt, RootAdt};

const ROUNDS: usize = 3;
const MAX_FILE: usize = 12 << 20;

struct Case {
    base: &'static str,
    devs: Vec<(usize, u8)>,
    spec: Spec,
}

struct Main {
    cases: Vec<Case>,
}

/// All specs that differ from `base` at exactly `ndev` sites.  `ext == false`: core values only (the
/// alphabet of the quick tier and of the main space); `ext == true`: all values, and only deviation
/// sets with at least one extended value are kept.
fn deviations(base: &Spec, ndev: usize, ext: bool, skip_val: &dyn Fn(usize, u8) -> bool) -> Vec<(Vec<(usize, u8)>, Spec)> {
    fn rec(base: &Spec, start: usize, left: usize, ext: bool, cur: &mut Vec<(usize, u8)>, out: &mut Vec<(Vec<(usize, u8)>, Spec)>, skip_val: &dyn Fn(usize, u8) -> bool) {
        if left == 0 {
            if ext && !cur.iter().any(|(site, v)| *v as usize >= SITES[*site].core) {
                return;
            }
            let mut s = base.clone();
            for (site, v) in cur.iter() {
                s.v[*site] = *v;
            }
            out.push((cur.clone(), s));
            return;
        }
        for site in start..NSITES {
            let nvals = if ext { SITES[site].vals.len() } else { SITES[site].core };
            for v in 0..nvals as u8 {
                if v == base.v[site] || skip_val(site, v) {
                    continue;
                }
                cur.push((site, v));
                rec(base, site + 1, left - 1, ext, cur, out, skip_val);
                cur.pop();
            }
        }
    }
    let mut out = vec![];
    rec(base, 0, ndev, ext, &mut vec![], &mut out, skip_val);
    out
}

fn documented_refusal(s: &Spec) -> bool {
    for (i, site) in SITES.iter().enumerate() {
        if s.v[i] != 0 && site.full_from > 0 && i != S_MTXF && i != S_WATERFMT && s.version < site.full_from {
            return true;
        }
    }
    s.val(S_TEX) == "none" || s.val(S_MCNK) == "n257" || (s.val(S_DOODADS) != "none" && s.val(S_MODELS) == "none") || (s.val(S_WMOPL) != "none" && s.val(S_WMOS) == "none")
}

impl Main {
    fn new(tier: Tier) -> Main {
        let (dmin, dfull) = tier.pick((2, 2), (3, 3));
        let quick = tier == Tier::Quick;
        let mut cases = vec![];
        let mut seen: HashSet<Spec> = HashSet::new();
        for ndev in 0..=dmin.max(dfull) {
            for (bname, dmax) in [("minimal", dmin), ("full", dfull), ("full_staggered", if quick { 0 } else { dfull })] {
                if ndev > dmax || (quick && bname == "full_staggered") {
                    continue;
                }
                for version in 0..VERSIONS.len() {
                    let base = match bname {
                        "minimal" => Spec::minimal(version),
                        "full" => Spec::full(version),
                        _ => {
                            let mut b = Spec::full(version);
                            b.v[S_STAGGER] = 1;
                            b
                        }
                    };
                    let heavy_from = if quick && bname == "full" { 2 } else { 3 };
                    let skip = |site: usize, v: u8| (quick || bname == "full_staggered") && ndev >= heavy_from && site == S_MCNK && SITES[site].vals[v as usize] == "all256";
                    for (devs, spec) in deviations(&base, ndev, false, &skip) {
                        let canon = spec.canonical();
                        // from 3 deviations on, inputs the builder is documented to refuse are not
                        // enumerated again (refusals are covered with <= 2 deviations)
                        if ndev >= 3 && documented_refusal(&canon) {
                            continue;
                        }
                        if seen.insert(canon.clone()) {
                            cases.push(Case { base: bname, devs, spec: canon });
                        }
                    }
                }
            }
        }
        Main { cases }
    }
}

fn err_class(s: &str) -> String {
    let mut out = String::new();
    let mut last_digit = false;
    // first line only: binrw appends a multi-line, coloured backtrace
    let s = s.lines().next().unwrap_or("").trim();
    for c in s.chars().take(110) {
        if c.is_ascii_digit() {
            if !last_digit {
                out.push('N');
            }
            last_digit = true;
        } else {
            out.push(c);
            last_digit = false;
        }
    }
    out
}

fn build(inp: &Input) -> Result<BuiltAdt, wow_adt::AdtError> {
    let mut b = AdtBuilder::new().with_version(inp.version);
    for t in &inp.textures {
        b = b.add_texture(t.clone());
    }
    for m in &inp.models {
        b = b.add_model(m.clone());
    }
    for w in &inp.wmos {
        b = b.add_wmo(w.clone());
    }
    for p in &inp.doodads {
        b = b.add_doodad_placement(*p);
    }
    for p in &inp.wmo_placements {
        b = b.add_wmo_placement(*p);
    }
    if let Some(m) = &inp.mcnk {
        for c in m {
            b = b.add_mcnk_chunk(c.clone());
        }
    }
    if let Some(x) = &inp.flight_bounds {
        b = b.add_flight_bounds(*x);
    }
    if let Some(x) = &inp.water {
        b = b.add_water_data(x.clone());
    }
    if let Some(x) = &inp.mtxf {
        b = b.add_texture_flags(x.clone());
    }
    if let Some(x) = &inp.mamp {
        b = b.add_texture_amplifier(*x);
    }
    if let Some(x) = &inp.mtxp {
        b = b.add_texture_params(x.clone());
    }
    if let Some((h, bb, v, i)) = &inp.blend {
        b = b.add_blend_mesh_headers(h.clone()).add_blend_mesh_bounds(bb.clone()).add_blend_mesh_vertices(v.clone()).add_blend_mesh_indices(i.clone());
    }
    b.build()
}

fn parse(bytes: &[u8]) -> Result<RootAdt, String> {
    match wow_adt::parse_adt(&mut Cursor::new(bytes)) {
        Ok(ParsedAdt::Root(r)) => Ok(*r),
        Ok(other) => Err(format!("parsed as {:?}, not as a root tile", other.file_type())),
        Err(e) => Err(e.to_string()),
    }
}

struct Ctx<'a> {
    r: &'a mut CaseResult,
    seen: HashSet<String>,
}
impl Ctx<'_> {
    fn viol(&mut self, s: String, d: String) {
        if self.seen.insert(s.clone()) {
            self.r.viol(s, d);
        }
    }
    fn walk(&mut self, bytes: &[u8], stage: &str) -> walker::Report {
        let rep = walker::inspect(bytes);
        self.r.count("files_walked", 1);
        self.r.count("offset_entries_checked", rep.offsets_checked);
        self.r.count("bytes_walked", bytes.len() as u64);
        if rep.mcin_size_conv == "data" {
            self.r.count("files_with_mcin_size_excluding_header", 1);
        }
        for (s, d) in &rep.problems {
            self.viol(s.clone(), format!("[{stage}] {d}"));
        }
        rep
    }
}

fn growth_symptoms(old: &walker::Report, new: &walker::Report) -> Vec<(String, String)> {
    let mut out = vec![];
    for (scope, a, b) in [("top-level chunk", &old.top_bytes, &new.top_bytes), ("MCNK sub-chunk", &old.sub_bytes, &new.sub_bytes)] {
        for (k, nb) in b.iter() {
            let ob = a.get(k).copied().unwrap_or(0);
            if *nb > ob {
                let how = if ob == 0 { "appears" } else { "grows" };
                out.push((format!("re-serialisation grows the file: {scope} {k} {how}"), format!("{k}: {ob} -> {nb} bytes")));
            }
        }
    }
    if new.mcnk_count > old.mcnk_count {
        out.push(("re-serialisation grows the file: more MCNK chunks".into(), format!("{} -> {}", old.mcnk_count, new.mcnk_count)));
    }
    if out.is_empty() {
        out.push(("re-serialisation grows the file".into(), "no chunk type grew (framing broken?)".into()));
    }
    out
}

/// How deep one builder input is explored.
struct Opts {
    rounds: usize,
    /// rebuild paths: "from_root_adt", "from_parsed", "alternating" (odd rounds from_root_adt, even from_parsed)
    paths: &'static [&'static str],
}
const OPTS_MAIN: Opts = Opts { rounds: ROUNDS, paths: &["from_root_adt", "from_parsed"] };
const OPTS_CHUNKS: Opts = Opts { rounds: 2, paths: &["from_root_adt", "from_parsed"] };
const OPTS_TOP: Opts = Opts { rounds: ROUNDS, paths: &["from_root_adt", "from_parsed", "alternating"] };

fn run_spec(spec: &Spec, r: &mut CaseResult) {
    run_input(&make_input(spec), r, &OPTS_MAIN);
}

/// Returns the parsed builder output and its content when the tile was built and parsed.
fn run_input(inp: &Input, r: &mut CaseResult, opts: &Opts) -> Option<(RootAdt, Content)> {
    let mut cx = Ctx { r, seen: HashSet::new() };

    // ---- build + serialise
    let built = match build(inp) {
        Ok(b) => b,
        Err(e) => {
            cx.r.err_return = true;
            cx.r.outcome = format!("build refused: {}", err_class(&e.to_string()).chars().take(40).collect::<String>());
            return None;
        }
    };
    let bytes0 = match built.to_bytes() {
        Ok(b) => b,
        Err(e) => {
            cx.r.err_return = true;
            cx.r.outcome = format!("to_bytes refused: {}", err_class(&e.to_string()).chars().take(40).collect::<String>());
            return None;
        }
    };
    cx.r.nontrivial = true;
    cx.r.count("tiles_serialised", 1);

    // ---- (3) independent walker on the builder output, raw cross-checks against the input
    let rep0 = cx.walk(&bytes0, "builder output");
    for (id, want, what) in [(b"MTEX", &inp.textures, "MTEX"), (b"MMDX", &inp.models, "MMDX"), (b"MWMO", &inp.wmos, "MWMO")] {
        let got = walker::raw_names(&bytes0, &rep0, id).unwrap_or_default();
        let want: Vec<Vec<u8>> = want.iter().map(|s| s.as_bytes().to_vec()).collect();
        if got != want {
            cx.viol(format!("raw {what} name list differs from the builder input"), format!("{} names in file, {} given", got.len(), want.len()));
        }
    }
    for (id, n, rec, what) in [(b"MDDF", inp.doodads.len(), 36, "MDDF"), (b"MODF", inp.wmo_placements.len(), 64, "MODF")] {
        let got = walker::raw_size(&rep0, id).unwrap_or(0);
        if got != n * rec {
            cx.viol(format!("raw {what} size differs from record size times the number of placements given"), format!("{got} bytes for {n} placements"));
        }
    }
    let want_mcnk = inp.mcnk.as_ref().map(|m| m.len()).unwrap_or(256);
    if rep0.mcnk_count != want_mcnk {
        cx.viol("number of MCNK chunks in the file differs from the builder input".into(), format!("{} in file, {} expected", rep0.mcnk_count, want_mcnk));
    }
    // data bytes per MCNK sub-chunk kind, read by the walker, against record size times the number
    // of records given (clause 1 judged without wow-adt's own parser)
    if let Some(m) = &inp.mcnk {
        for (kind, want) in expected_sub_data(m) {
            let got = rep0.sub_data.get(kind).copied().unwrap_or(0);
            if got != want {
                cx.viol(format!("raw {kind} data size over all MCNK chunks differs from record size times the number of records given"), format!("{got} bytes in file, {want} expected"));
            }
        }
        cx.r.count("raw_sub_chunk_kinds_checked", 11);
    }

    // ---- (1) parse(serialise(built)) == builder input
    let p0 = match parse(&bytes0) {
        Ok(p) => p,
        Err(e) => {
            cx.viol(
                format!("parse_adt rejects the builder output (file ends with MCNK sub-chunk {}): {}", if rep0.last_sub.is_empty() { "-" } else { &rep0.last_sub }, err_class(&e)),
                format!("{} bytes; error: {}", bytes0.len(), e),
            );
            cx.r.outcome = "built, parse failed".into();
            return None;
        }
    };
    let vsame = p0.version == inp.version;
    if !vsame {
        cx.r.count("detected_version_differs_from_target", 1);
    }
    let c_in = input_content(inp);
    let c0 = root_content(&p0);
    {
        let mut c0f = c0.clone();
        if inp.mcnk.is_none() {
            c0f.retain(|k, _| !k.starts_with("mcnk"));
        }
        let mut c_in = c_in.clone();
        if inp.mtxf.is_none() && c0f.contains_key("texture_flags") {
            // unspecified texture flags: absent or the documented default (one zero per texture)
            let dflt = vec![0u8; 4 * inp.textures.len()];
            if c0f.get("texture_flags") == Some(&dflt) {
                c0f.remove("texture_flags");
            } else {
                c_in.insert("texture_flags".into(), dflt);
            }
        }
        for (cls, d) in diff(&c_in, &c0f, "builder input", "parsed tile") {
            cx.viol(format!("parse(serialise(built)) {cls}"), d);
        }
        cx.r.count("content_sections_compared", c_in.len() as u64);
    }

    // ---- (2) rounds of parse -> rebuild -> serialise on both rebuild paths
    let mut stable_all = true;
    for &path in opts.paths {
        let mut prev_bytes = bytes0.clone();
        let mut prev_rep = walker::inspect(&bytes0);
        let mut prev_root = p0.clone();
        let mut prev_content = c0.clone();
        for n in 1..=opts.rounds {
            let stage = format!("{path} round {n}");
            let rebuilt: Result<Vec<u8>, String> = if path == "from_root_adt" || (path == "alternating" && n % 2 == 1) {
                BuiltAdt::from_root_adt(prev_root.clone(), None).to_bytes().map_err(|e| e.to_string())
            } else {
                AdtBuilder::from_parsed(prev_root.clone()).build().and_then(|b| b.to_bytes()).map_err(|e| e.to_string())
            };
            let bytes = match rebuilt {
                Ok(b) => b,
                Err(_) => {
                    cx.r.count("rebuild_refused", 1);
                    stable_all = false;
                    break;
                }
            };
            cx.r.count("rounds_run", 1);
            let rep = cx.walk(&bytes, &stage);
            let mut changed = false;
            if bytes.len() > prev_bytes.len() {
                changed = true;
                for (s, d) in growth_symptoms(&prev_rep, &rep) {
                    cx.viol(s, format!("[{stage}] file {} -> {} bytes; {d}", prev_bytes.len(), bytes.len()));
                }
            }
            // a sub-chunk kind that carried data in the previous file must not vanish: this also
            // covers sub-chunks the serialiser generated itself (not part of the builder input),
            // whose loss the content comparison of parsed tiles cannot see
            for (k, old_n) in prev_rep.sub_data.iter() {
                if *old_n > 0 && rep.sub_data.get(k).copied().unwrap_or(0) == 0 {
                    changed = true;
                    cx.viol(
                        format!("re-serialisation drops MCNK sub-chunk {k} although the previous file carried {k} data"),
                        format!("[{stage}] {k}: {old_n} data bytes in {} MCNK chunks before, none after; file {} -> {} bytes", prev_rep.mcnk_count, prev_bytes.len(), bytes.len()),
                    );
                }
            }
            let pn = match parse(&bytes) {
                Ok(p) => p,
                Err(e) => {
                    cx.viol(
                        format!("parse_adt rejects a re-serialised tile (file ends with MCNK sub-chunk {}): {}", if rep.last_sub.is_empty() { "-" } else { &rep.last_sub }, err_class(&e)),
                        format!("[{stage}] {} bytes; error: {}", bytes.len(), e),
                    );
                    stable_all = false;
                    break;
                }
            };
            let cn = root_content(&pn);
            for (cls, d) in diff(&prev_content, &cn, "tile before", "tile after") {
                changed = true;
                cx.viol(format!("re-parse after re-serialisation {cls}"), format!("[{stage}] {d}"));
            }
            if n >= 2 && !changed && bytes != prev_bytes {
                let p = bytes.iter().zip(prev_bytes.iter()).position(|(a, b)| a != b).unwrap_or(bytes.len().min(prev_bytes.len()));
                cx.viol("re-serialisation is not a fixed point although the content is equal".into(), format!("[{stage}] first differing byte at {:#x}; {} vs {} bytes", p, bytes.len(), prev_bytes.len()));
                changed = true;
            }
            if changed {
                stable_all = false;
            }
            if bytes.len() > MAX_FILE {
                cx.r.count("rounds_cut_by_size_cap", 1);
                break;
            }
            prev_bytes = bytes;
            prev_rep = rep;
            prev_root = pn;
            prev_content = cn;
        }
    }
    let nviol = cx.r.viols.len();
    cx.r.outcome = format!(
        "built; version {}; rounds {}; {}",
        if vsame { "detected" } else { "misdetected" },
        if stable_all { "stable" } else { "unstable" },
        if nviol == 0 { "held" } else { "violated" }
    );
    Some((p0, c0))
}

impl Space for Main {
    fn len(&self) -> u64 {
        self.cases.len() as u64
    }
    fn describe(&self, i: u64) -> Value {
        let c = &self.cases[i as usize];
        let devs: Vec<Value> = c.devs.iter().map(|(s, v)| json!(format!("{}={}", SITES[*s].name, SITES[*s].vals[*v as usize]))).collect();
        json!({"base": c.base, "deviations": devs, "spec": c.spec.json()})
    }
    fn run(&self, i: u64) -> CaseResult {
        let c = &self.cases[i as usize];
        let mut r = CaseResult::new();
        r.key = c.spec.key();
        run_spec(&c.spec, &mut r);
        r
    }
    fn case_timeout(&self) -> u64 {
        180
    }
}

// ------------------------------------------------------------------ hole bitmaps

/// `holes`: every value of the `hole_bitmap` site on terrain chunks that have the high_res_holes
/// flag, heights AND normals (with the flag the bitmap occupies the header bytes that otherwise hold
/// the MCVT / MCNR offsets, so a reader has to find both sub-chunks without them), from two
/// baselines: the minimal tile with heights, normals and the flag switched on (one terrain chunk,
/// MCVT and MCNR its only sub-chunks) and the version-adjusted full tile with the flag switched on
/// (two terrain chunks, every sub-chunk kind).  Quick: target MoP; thorough: every target version
/// (the builder accepts the flag for every target; a refusal would be counted as an error return).
/// Judged like every other builder input (`run_input`): walker, parse == input incl. heights,
/// normals and bitmap, then rounds on both rebuild paths.
struct Holes {
    cases: Vec<Case>,
}
const HOLES_BASELINES: [&str; 2] = ["minimal_heights_normals", "full"];
impl Holes {
    fn versions(tier: Tier) -> Vec<usize> {
        tier.pick(vec![VERSIONS.len() - 1], (0..VERSIONS.len()).collect())
    }
    fn new(tier: Tier) -> Holes {
        check_hole_vals();
        let flag = vidx(S_CFLAGS, "high_res_holes");
        let mut cases = vec![];
        let mut seen: HashSet<Spec> = HashSet::new();
        // bitmap outermost: the lowest failing index names the simplest bitmap
        for hv in 0..SITES[S_HOLES].vals.len() as u8 {
            for bname in HOLES_BASELINES {
                for version in Self::versions(tier) {
                    let (mut spec, mut devs) = if bname == "full" { (Spec::full(version), vec![]) } else { (Spec::minimal(version), vec![(S_HEIGHTS, 1u8), (S_NORMALS, 1u8)]) };
                    devs.push((S_CFLAGS, flag));
                    devs.push((S_HOLES, hv));
                    for (site, v) in &devs {
                        spec.v[*site] = *v;
                    }
                    let canon = spec.canonical();
                    assert!(canon.val(S_HEIGHTS) == "on" && canon.val(S_NORMALS) == "on" && canon.val(S_CFLAGS) == "high_res_holes" && canon.v[S_HOLES] == hv);
                    if seen.insert(canon.clone()) {
                        cases.push(Case { base: bname, devs, spec: canon });
                    }
                }
            }
        }
        Holes { cases }
    }
}
impl Space for Holes {
    fn len(&self) -> u64 {
        self.cases.len() as u64
    }
    fn describe(&self, i: u64) -> Value {
        let c = &self.cases[i as usize];
        let devs: Vec<Value> = c.devs.iter().map(|(s, v)| json!(format!("{}={}", SITES[*s].name, SITES[*s].vals[*v as usize]))).collect();
        let class = match hole_value(c.spec.val(S_HOLES)) {
            Some(v) => hole_alphabet().into_iter().find(|(x, _)| *x == v).map(|(_, cl)| cl).unwrap_or("?"),
            None => "default",
        };
        json!({"base": c.base, "space": "holes", "hole_bitmap_class": class, "deviations": devs, "spec": c.spec.json()})
    }
    fn run(&self, i: u64) -> CaseResult {
        let c = &self.cases[i as usize];
        let mut r = CaseResult::new();
        r.key = c.spec.key();
        run_spec(&c.spec, &mut r);
        r.count("hole_bitmaps_round_tripped", r.nontrivial as u64);
        r
    }
    fn case_timeout(&self) -> u64 {
        180
    }
}

// ------------------------------------------------------------------ thorough-only spaces

/// `ext`: <= 2 deviations from the three baselines with at least one value of the extended alphabet.
struct Ext {
    cases: Vec<Case>,
}
impl Ext {
    fn new() -> Ext {
        let mut cases = vec![];
        let mut seen: HashSet<Spec> = HashSet::new();
        for ndev in 1..=2 {
            for bname in ["minimal", "full", "full_staggered"] {
                for version in 0..VERSIONS.len() {
                    let base = match bname {
                        "minimal" => Spec::minimal(version),
                        "full" => Spec::full(version),
                        _ => {
                            let mut b = Spec::full(version);
                            b.v[S_STAGGER] = 1;
                            b
                        }
                    };
                    for (devs, spec) in deviations(&base, ndev, true, &|_, _| false) {
                        let canon = spec.canonical();
                        // canonicalisation may have reset the extended value (e.g. a per-chunk value with auto256)
                        if !(0..NSITES).any(|i| canon.v[i] as usize >= SITES[i].core) {
                            continue;
                        }
                        if seen.insert(canon.clone()) {
                            cases.push(Case { base: bname, devs, spec: canon });
                        }
                    }
                }
            }
        }
        Ext { cases }
    }
}
impl Space for Ext {
    fn len(&self) -> u64 {
        self.cases.len() as u64
    }
    fn describe(&self, i: u64) -> Value {
        let c = &self.cases[i as usize];
        let devs: Vec<Value> = c.devs.iter().map(|(s, v)| json!(format!("{}={}", SITES[*s].name, SITES[*s].vals[*v as usize]))).collect();
        json!({"base": c.base, "deviations": devs, "spec": c.spec.json()})
    }
    fn run(&self, i: u64) -> CaseResult {
        let c = &self.cases[i as usize];
        let mut r = CaseResult::new();
        r.key = c.spec.key();
        run_spec(&c.spec, &mut r);
        r
    }
    fn case_timeout(&self) -> u64 {
        300
    }
}

/// `chunks`: full product of the per-chunk alphabet `CHUNK_PRODUCT`, 256 consecutive combinations on
/// the 256 terrain chunks of one tile, top-level sites at the full baseline of the version.
struct Chunks {
    blocks: u64,
}
impl Chunks {
    fn new() -> Chunks {
        Chunks { blocks: chunk_product_len().div_ceil(256) }
    }
    fn tile(&self, i: u64) -> (Spec, u64) {
        let version = (i / self.blocks) as usize;
        let block = i % self.blocks;
        let mut s = Spec::full(version);
        s.v[S_MCNK] = vidx(S_MCNK, "all256");
        (s, block)
    }
}
impl Space for Chunks {
    fn len(&self) -> u64 {
        self.blocks * VERSIONS.len() as u64
    }
    fn describe(&self, i: u64) -> Value {
        let (s, block) = self.tile(i);
        let mut spec = s.json();
        for (site, _) in CHUNK_PRODUCT.iter() {
            spec[SITES[*site].name] = json!("product");
        }
        json!({"base": "chunk_product", "block": block, "combinations": format!("{}..{}", block * 256, (block * 256 + 256).min(chunk_product_len())), "spec": spec})
    }
    fn run(&self, i: u64) -> CaseResult {
        let (s, block) = self.tile(i);
        let mut r = CaseResult::new();
        r.key = format!("chunks:{}:{}", s.version, block);
        let mut inp = make_input(&s);
        let chunks = product_chunks(&s, block, inp.textures.len());
        r.count("chunk_combinations", chunks.len() as u64);
        inp.mcnk = Some(chunks);
        run_input(&inp, &mut r, &OPTS_CHUNKS);
        r
    }
    fn case_timeout(&self) -> u64 {
        300
    }
}

/// Full product over a list of (site, value names) with the other sites at the minimal baseline;
/// combinations that the builder is documented to refuse are not enumerated.
struct TopProduct {
    cases: Vec<Spec>,
    name: &'static str,
}
const TOP_NAMES: [(usize, &[&str]); 8] = [
    (S_TEX, &["one", "three_shared_prefix", "long255_plus_two", "many300", "utf8_two"]),
    (S_MODELS, &["none", "one", "three_shared_prefix", "many300"]),
    (S_DOODADS, &["none", "one", "three", "many1821"]),
    (S_WMOS, &["none", "one", "three_shared_prefix", "many300"]),
    (S_WMOPL, &["none", "one", "three", "many1025"]),
    (S_MFBO, &["off", "on"]),
    (S_WATER, &["none", "c0"]),
    (S_WATERFMT, &["two_layers"]),
];
const TOP_CHUNKS: [(usize, &[&str]); 9] = [
    (S_MCNK, &["one"]),
    (S_TEX, &["one", "three_shared_prefix"]),
    (S_MFBO, &["off", "on"]),
    (S_MTXF, &["none", "per_texture", "one_fewer", "two_more"]),
    (S_MAMP, &["off", "on"]),
    (S_MTXP, &["off", "per_texture", "two_more"]),
    (S_BLEND, &["off", "two_batches", "one_batch", "big"]),
    (S_WATER, &["none", "c0", "c255", "c0_17_255", "present_empty", "all256", "c0_17attrs_255", "vec1_c0"]),
    (S_WATERFMT, &["plain_attrs", "lvf0_bitmap", "lvf1_full", "lvf2_bitmap_attrs", "lvf3", "two_layers", "bitmap_no_vertices_attrs", "two_layers_last_bitmap_only", "three_layers", "lvf0_full_bitmap64"]),
];
/// the same with the 256 serialiser-generated terrain chunks (their content depends on the version), one water format
const TOP_CHUNKS_AUTO: [(usize, &[&str]); 9] = [
    (S_MCNK, &["auto256"]),
    (S_TEX, &["one", "three_shared_prefix"]),
    (S_MFBO, &["off", "on"]),
    (S_MTXF, &["none", "per_texture", "one_fewer", "two_more"]),
    (S_MAMP, &["off", "on"]),
    (S_MTXP, &["off", "per_texture", "two_more"]),
    (S_BLEND, &["off", "two_batches", "one_batch", "big"]),
    (S_WATER, &["none", "c0", "c255", "c0_17_255", "present_empty", "all256", "c0_17attrs_255", "vec1_c0"]),
    (S_WATERFMT, &["two_layers"]),
];
impl TopProduct {
    fn new(name: &'static str, products: &[&[(usize, &[&str])]]) -> TopProduct {
        let mut cases = vec![];
        let mut seen: HashSet<Spec> = HashSet::new();
        for axes in products {
            Self::add(&mut cases, &mut seen, axes);
        }
        TopProduct { cases, name }
    }
    fn add(cases: &mut Vec<Spec>, seen: &mut HashSet<Spec>, axes: &[(usize, &[&str])]) {
        let radices: Vec<u64> = axes.iter().map(|(_, v)| v.len() as u64).collect();
        for version in 0..VERSIONS.len() {
            for i in 0..gen::product(&radices) {
                let mut s = Spec::minimal(version);
                for ((site, vals), d) in axes.iter().zip(gen::mixed_radix(i, &radices)) {
                    s.v[*site] = vidx(*site, vals[d as usize]);
                }
                let s = s.canonical();
                if documented_refusal(&s) || (s.v[S_MTXF] != 0 && version < SITES[S_MTXF].full_from) {
                    continue;
                }
                if seen.insert(s.clone()) {
                    cases.push(s);
                }
            }
        }
    }
}
impl Space for TopProduct {
    fn len(&self) -> u64 {
        self.cases.len() as u64
    }
    fn describe(&self, i: u64) -> Value {
        json!({"base": self.name, "spec": self.cases[i as usize].json()})
    }
    fn run(&self, i: u64) -> CaseResult {
        let s = &self.cases[i as usize];
        let mut r = CaseResult::new();
        r.key = s.key();
        run_input(&make_input(s), &mut r, &OPTS_TOP);
        r
    }
    fn case_timeout(&self) -> u64 {
        300
    }
}

/// `convert`: chains that start from a parsed builder output: explicit version conversion
/// `BuiltAdt::from_root_adt(root, Some(v))` to every version and back, and the documented
/// load-modify-save flow `AdtBuilder::from_parsed(root).add_*(..).build()`.
struct Convert {
    cases: Vec<Case>,
}
impl Convert {
    fn new() -> Convert {
        let mut cases = vec![];
        let mut seen: HashSet<Spec> = HashSet::new();
        for ndev in 0..=1 {
            for bname in ["minimal", "full", "full_staggered"] {
                for version in 0..VERSIONS.len() {
                    let base = match bname {
                        "minimal" => Spec::minimal(version),
                        "full" => Spec::full(version),
                        _ => {
                            let mut b = Spec::full(version);
                            b.v[S_STAGGER] = 1;
                            b
                        }
                    };
                    let all = |base: &Spec| -> Vec<(Vec<(usize, u8)>, Spec)> {
                        // every single deviation over the whole alphabet (core and extended)
                        let mut out = vec![];
                        if ndev == 0 {
                            out.push((vec![], base.clone()));
                            return out;
                        }
                        for site in 0..NSITES {
                            for v in 0..SITES[site].vals.len() as u8 {
                                if v != base.v[site] {
                                    let mut s = base.clone();
                                    s.v[site] = v;
                                    out.push((vec![(site, v)], s));
                                }
                            }
                        }
                        out
                    };
                    for (devs, spec) in all(&base) {
                        let canon = spec.canonical();
                        if documented_refusal(&canon) || (canon.v[S_MTXF] != 0 && version < SITES[S_MTXF].full_from) {
                            continue;
                        }
                        if seen.insert(canon.clone()) {
                            cases.push(Case { base: bname, devs, spec: canon });
                        }
                    }
                }
            }
        }
        // two deviations among the top-level sites (the ones a conversion acts on) from the full baseline
        for version in 0..VERSIONS.len() {
            let base = Spec::full(version);
            let top: Vec<usize> = (0..NSITES).filter(|i| !SITES[*i].per_chunk).collect();
            for (x, &s1) in top.iter().enumerate() {
                for &s2 in &top[x + 1..] {
                    for v1 in 0..SITES[s1].vals.len() as u8 {
                        for v2 in 0..SITES[s2].vals.len() as u8 {
                            if v1 == base.v[s1] || v2 == base.v[s2] {
                                continue;
                            }
                            let mut s = base.clone();
                            s.v[s1] = v1;
                            s.v[s2] = v2;
                            let canon = s.canonical();
                            if documented_refusal(&canon) || (canon.v[S_MTXF] != 0 && version < SITES[S_MTXF].full_from) {
                                continue;
                            }
                            if seen.insert(canon.clone()) {
                                cases.push(Case { base: "full", devs: vec![(s1, v1), (s2, v2)], spec: canon });
                            }
                        }
                    }
                }
            }
        }
        Convert { cases }
    }
}

/// Lowest version index in which a content section exists (a conversion to an older version may drop it).
fn section_min_version(class: &str) -> usize {
    match class {
        "flight_bounds" => 2,
        "MH2O water entry" | "texture_flags" => 3,
        "texture_amplifier" => 4,
        "texture_params" | "blend_mesh_headers" | "blend_mesh_bounds" | "blend_mesh_vertices" | "blend_mesh_indices" => 5,
        "MCNK vertex_colors" => 1,
        "MCNK vertex_lighting" | "MCNK doodad_refs" | "MCNK wmo_refs" | "MCNK materials" => 4,
        "MCNK doodad_disable" | "MCNK blend_batches" | "MCNK high_res_holes" => 5,
        _ => 0,
    }
}

/// Content restricted to what a conversion chain whose oldest version is `level` has to keep.
fn keep_for_level(c: &Content, level: usize) -> Content {
    c.iter()
        .filter_map(|(k, v)| {
            let cls = key_class(k);
            if cls == "MCNK header" && level < 5 {
                // the flag word announces version-specific sub-chunks: not compared below MoP
                let mut v = v.clone();
                v[..4].fill(0);
                return Some((k.clone(), v));
            }
            (section_min_version(&cls) <= level).then(|| (k.clone(), v.clone()))
        })
        .collect()
}

/// Documented additions of a conversion ("adds empty version-specific chunks as needed"): all-zero
/// flight bounds and one zero texture flag per texture that the source did not have are not judged.
fn drop_documented_additions(before: &Content, after: &mut Content) {
    if !before.contains_key("flight_bounds") && after.get("flight_bounds").map(|v| v.iter().all(|b| *b == 0)).unwrap_or(false) {
        after.remove("flight_bounds");
    }
    if !before.contains_key("texture_flags") && after.get("texture_flags").map(|v| v.iter().all(|b| *b == 0)).unwrap_or(false) {
        after.remove("texture_flags");
    }
}

fn run_convert(spec: &Spec, r: &mut CaseResult) {
    let inp = make_input(spec);
    let Some((p0, c0)) = run_input(&inp, r, &Opts { rounds: 1, paths: &["alternating"] }) else { return };
    let mut cx = Ctx { r, seen: HashSet::new() };
    for v in cx.r.viols.iter() {
        cx.seen.insert(v.symptom.clone());
    }
    let a = spec.version;
    let dir = |from: usize, to: usize| if to > from { "to a later version" } else if to < from { "to an earlier version" } else { "to the same version" };
    for b in 0..VERSIONS.len() {
        let stage = format!("convert {} -> {}", VERSIONS[a].0, VERSIONS[b].0);
        let Ok(bytes_b) = BuiltAdt::from_root_adt(p0.clone(), Some(VERSIONS[b].1)).to_bytes() else {
            cx.r.count("conversions_refused", 1);
            continue;
        };
        cx.r.count("conversions_run", 1);
        cx.walk(&bytes_b, &stage);
        let pb = match parse(&bytes_b) {
            Ok(p) => p,
            Err(e) => {
                cx.viol(format!("parse_adt rejects a tile converted {}: {}", dir(a, b), err_class(&e)), format!("[{stage}] {} bytes; error: {}", bytes_b.len(), e));
                continue;
            }
        };
        let mut cb = keep_for_level(&root_content(&pb), b);
        let want = keep_for_level(&c0, b);
        drop_documented_additions(&want, &mut cb);
        for (cls, d) in diff(&want, &cb, "tile before", "converted tile") {
            cx.viol(format!("conversion {} {cls}", dir(a, b)), format!("[{stage}] {d}"));
        }
        // the converted tile is a parsed tile like any other: re-serialising it (no target version)
        // must neither grow the file nor change the content, on both rebuild paths
        let full_b = root_content(&pb);
        let rep_b = walker::inspect(&bytes_b);
        for path in ["from_root_adt", "from_parsed"] {
            let rebuilt = if path == "from_root_adt" { BuiltAdt::from_root_adt(pb.clone(), None).to_bytes().ok() } else { AdtBuilder::from_parsed(pb.clone()).build().and_then(|x| x.to_bytes()).ok() };
            let Some(bytes_r) = rebuilt else {
                cx.r.count("rebuild_refused", 1);
                continue;
            };
            let stage_r = format!("{stage}, then {path}");
            cx.r.count("rounds_run", 1);
            let rep_r = cx.walk(&bytes_r, &stage_r);
            if bytes_r.len() > bytes_b.len() {
                for (sy, d) in growth_symptoms(&rep_b, &rep_r) {
                    cx.viol(format!("after a version conversion: {sy}"), format!("[{stage_r}] file {} -> {} bytes; {d}", bytes_b.len(), bytes_r.len()));
                }
            }
            match parse(&bytes_r) {
                Ok(pr) => {
                    for (cls, d) in diff(&full_b, &root_content(&pr), "converted tile", "tile after") {
                        cx.viol(format!("after a version conversion: re-parse after re-serialisation {cls}"), format!("[{stage_r}] {d}"));
                    }
                }
                Err(e) => cx.viol(format!("parse_adt rejects a re-serialised converted tile: {}", err_class(&e)), format!("[{stage_r}] {} bytes; error: {}", bytes_r.len(), e)),
            }
        }
        // and back to the version the tile was built for
        let stage = format!("convert {} -> {} -> {}", VERSIONS[a].0, VERSIONS[b].0, VERSIONS[a].0);
        let Ok(bytes_ba) = BuiltAdt::from_root_adt(pb, Some(VERSIONS[a].1)).to_bytes() else {
            cx.r.count("conversions_refused", 1);
            continue;
        };
        cx.r.count("conversions_run", 1);
        cx.walk(&bytes_ba, &stage);
        match parse(&bytes_ba) {
            Ok(pba) => {
                let level = a.min(b);
                let mut cba = keep_for_level(&root_content(&pba), level);
                let want = keep_for_level(&c0, level);
                drop_documented_additions(&want, &mut cba);
                for (cls, d) in diff(&want, &cba, "tile before", "tile converted there and back") {
                    cx.viol(format!("conversion there and back {cls}"), format!("[{stage}] {d}"));
                }
            }
            Err(e) => cx.viol(format!("parse_adt rejects a tile converted there and back: {}", err_class(&e)), format!("[{stage}] {} bytes; error: {}", bytes_ba.len(), e)),
        }
    }

    // ---- load-modify-save: builder seeded with the parsed tile, then more content added
    let n0 = p0.mcnk_chunks.len();
    let extra = (n0 < 256).then(|| {
        let mut s = Spec::full(a);
        s.v[S_STAGGER] = 0;
        make_chunk(&s, n0, 256, p0.textures.len() + 1)
    });
    let mut want = c0.clone();
    let app = |c: &mut Content, key: &str, name: &str| {
        let e = c.entry(key.to_string()).or_default();
        e.extend(name.as_bytes());
        e.push(0);
    };
    app(&mut want, "textures", "tileset/appended.blp");
    app(&mut want, "models", "world/doodad/appended.m2");
    app(&mut want, "wmos", "world/wmo/appended.wmo");
    let mut bld = AdtBuilder::from_parsed(p0).add_texture("tileset/appended.blp").add_model("world/doodad/appended.m2").add_wmo("world/wmo/appended.wmo");
    if let Some(ch) = &extra {
        bld = bld.add_mcnk_chunk(ch.clone());
        want.insert("mcnk_count".into(), (n0 as u32 + 1).to_le_bytes().to_vec());
        mcnk_content(&mut want, n0, ch);
    }
    let Ok(bytes_m) = bld.build().and_then(|b| b.to_bytes()) else {
        cx.r.count("modify_refused", 1);
        return;
    };
    cx.r.count("modify_run", 1);
    cx.walk(&bytes_m, "load-modify-save");
    match parse(&bytes_m) {
        Ok(pm) => {
            let mut cm = root_content(&pm);
            drop_documented_additions(&want, &mut cm);
            for (cls, d) in diff(&want, &cm, "parsed tile plus additions", "re-parsed tile") {
                cx.viol(format!("load-modify-save (from_parsed, add_*, build) {cls}"), format!("[load-modify-save] {d}"));
            }
        }
        Err(e) => cx.viol(format!("parse_adt rejects a tile made by load-modify-save: {}", err_class(&e)), format!("{} bytes; error: {}", bytes_m.len(), e)),
    }
    if !cx.r.viols.is_empty() && cx.r.outcome.ends_with("held") {
        cx.r.outcome = cx.r.outcome.replace("held", "violated");
    }
}

impl Space for Convert {
    fn len(&self) -> u64 {
        self.cases.len() as u64
    }
    fn describe(&self, i: u64) -> Value {
        let c = &self.cases[i as usize];
        let devs: Vec<Value> = c.devs.iter().map(|(s, v)| json!(format!("{}={}", SITES[*s].name, SITES[*s].vals[*v as usize]))).collect();
        json!({"base": c.base, "chain": "convert", "deviations": devs, "spec": c.spec.json()})
    }
    fn run(&self, i: u64) -> CaseResult {
        let c = &self.cases[i as usize];
        let mut r = CaseResult::new();
        r.key = c.spec.key();
        run_convert(&c.spec, &mut r);
        r
    }
    fn case_timeout(&self) -> u64 {
        300
    }
}

/// Saving a tile to a path (`BuiltAdt::write_to_file`) over whatever the path holds: absent, a shorter
/// tile, a longer tile, the same tile. The file must afterwards be exactly what `to_bytes()` yields (so
/// the chunk framing tiles the *file*, not only the byte vector).
struct SaveFile {
    specs: Vec<Spec>,
    scratch: Scratch,
}
impl SaveFile {
    fn new() -> SaveFile {
        let mut specs = vec![];
        for vi in 0..VERSIONS.len() {
            specs.push(Spec::minimal(vi).canonical());
            specs.push(Spec::full(vi).canonical());
        }
        SaveFile { specs, scratch: Scratch::new("c14save") }
    }
}
impl Space for SaveFile {
    fn len(&self) -> u64 {
        // (first tile or nothing) x second tile
        ((self.specs.len() + 1) * self.specs.len()) as u64
    }
    fn describe(&self, i: u64) -> Value {
        let n = self.specs.len();
        let (a, b) = ((i as usize) / n, (i as usize) % n);
        json!({"space": "savefile", "path_holds_before": if a == 0 { json!("nothing") } else { self.specs[a - 1].json() }, "saved": self.specs[b].json()})
    }
    fn run(&self, i: u64) -> CaseResult {
        let n = self.specs.len();
        let (a, b) = ((i as usize) / n, (i as usize) % n);
        let mut r = CaseResult::new();
        r.key = format!("save{i}");
        let path = self.scratch.path(&format!("t{i}.adt"));
        let _ = std::fs::remove_file(&path);
        let mut before_len = 0usize;
        if a > 0 {
            match build(&make_input(&self.specs[a - 1])).and_then(|t| t.write_to_file(&path)) {
                Ok(()) => before_len = std::fs::metadata(&path).map(|m| m.len() as usize).unwrap_or(0),
                Err(_) => {
                    r.err_return = true;
                    r.outcome = "first-save-refused".into();
                    return r;
                }
            }
        }
        let tile = match build(&make_input(&self.specs[b])) {
            Ok(t) => t,
            Err(_) => {
                r.err_return = true;
                r.outcome = "build-refused".into();
                return r;
            }
        };
        let want = match tile.to_bytes() {
            Ok(w) => w,
            Err(_) => {
                r.err_return = true;
                r.outcome = "to_bytes-refused".into();
                return r;
            }
        };
        r.nontrivial = true;
        match tile.write_to_file(&path) {
            Ok(()) => {
                let got = std::fs::read(&path).unwrap_or_default();
                r.outcome = format!("saved over {}", if a == 0 { "nothing" } else if before_len > want.len() { "a longer file" } else if before_len < want.len() { "a shorter file" } else { "a file of the same length" });
                if got != want {
                    let class = if got.len() > want.len() && got[..want.len()] == want[..] { "stale tail of the previous file left behind the tile" } else { "bytes differ" };
                    r.viol(format!("write_to_file: the file on disk differs from to_bytes() ({class})"), format!("file {} bytes, to_bytes {} bytes, path held {} bytes before", got.len(), want.len(), before_len));
                }
                r.count("files_saved", 1);
            }
            Err(e) => {
                r.err_return = true;
                r.outcome = format!("save-refused: {}", err_class(&e.to_string()));
            }
        }
        let _ = std::fs::remove_file(&path);
        r
    }
}

fn build_space(name: &str, _arg: &str, tier: Tier) -> Box<dyn Space> {
    match name {
        "savefile" => Box::new(SaveFile::new()),
        "main" => Box::new(Main::new(tier)),
        "holes" => Box::new(Holes::new(tier)),
        "ext" => Box::new(Ext::new()),
        "chunks" => Box::new(Chunks::new()),
        "top_names" => Box::new(TopProduct::new("top_names_product", &[&TOP_NAMES])),
        "top_chunks" => Box::new(TopProduct::new("top_chunks_product", &[&TOP_CHUNKS, &TOP_CHUNKS_AUTO])),
        "convert" => Box::new(Convert::new()),
        _ => panic!("space {name}"),
    }
}

/// `c14 --repro <name>`: tiny stand-alone reproductions of the defects found (plain API calls).
fn repro(name: &str) {
    use wow_adt::AdtVersion;
    let p = |b: &[u8]| parse(b).expect("parse");
    match name {
        "mtxf" => {
            // D1: WotLK tile, nothing but one texture: MTXF is read until end of FILE, not end of chunk
            let b0 = AdtBuilder::new().with_version(AdtVersion::WotLK).add_texture("a.blp").build().unwrap().to_bytes().unwrap();
            let r0 = p(&b0);
            println!("file {} bytes, 1 texture, parsed texture_flags has {} entries (expected 1)", b0.len(), r0.texture_flags.as_ref().map(|m| m.flags.len()).unwrap_or(0));
            let b1 = BuiltAdt::from_root_adt(r0, None).to_bytes().unwrap();
            let b2 = BuiltAdt::from_root_adt(p(&b1), None).to_bytes().unwrap();
            println!("round 1: {} bytes, round 2: {} bytes (expected: no growth)", b1.len(), b2.len());
        }
        "auto_mccv" => {
            // D8: auto-generated MCNK chunks carry MCCV but not the has_mccv flag
            for (path, f) in [
                ("from_root_adt", (|r: RootAdt| BuiltAdt::from_root_adt(r, None).to_bytes().unwrap()) as fn(RootAdt) -> Vec<u8>),
                ("from_parsed", |r: RootAdt| AdtBuilder::from_parsed(r).build().unwrap().to_bytes().unwrap()),
            ] {
                let b0 = AdtBuilder::new().with_version(AdtVersion::WotLK).add_texture("a.blp").build().unwrap().to_bytes().unwrap();
                let w0 = walker::inspect(&b0);
                let r0 = p(&b0);
                let flag = r0.mcnk_chunks[0].header.flags.value;
                let has = r0.mcnk_chunks.iter().filter(|m| m.vertex_colors.is_some()).count();
                let b1 = f(r0);
                let w1 = walker::inspect(&b1);
                println!(
                    "{path}: file {} -> {} bytes; MCCV data bytes {:?} -> {:?}; mcnk[0].flags={:#x}, ofs_mccv set, parsed chunks with vertex_colors: {has}/256",
                    b0.len(),
                    b1.len(),
                    w0.sub_data.get("MCCV"),
                    w1.sub_data.get("MCCV"),
                    flag
                );
            }
        }
        "holes" => {
            // D9: a terrain chunk with the high-res-holes flag: the 8-byte hole bitmap given to the builder is
            // overwritten with the MCVT/MCNR offsets by the serialiser
            for with_heights in [false, true] {
                let mut s = Spec::minimal(5);
                s.v[S_CFLAGS] = vidx(S_CFLAGS, "high_res_holes");
                if with_heights {
                    s.v[S_HEIGHTS] = 1;
                    s.v[S_NORMALS] = 1;
                }
                let inp = make_input(&s);
                let given = inp.mcnk.as_ref().unwrap()[0].header.holes_high_res();
                let b0 = build(&inp).unwrap().to_bytes().unwrap();
                let r0 = p(&b0);
                let h = &r0.mcnk_chunks[0].header;
                println!(
                    "MoP tile, one MCNK with flags {:#x} (high_res_holes), MCVT+MCNR {}: holes_high_res() given {:x?}, parsed back {:x?}; parsed flags {:#x}",
                    h.flags.value,
                    if with_heights { "present" } else { "absent" },
                    given,
                    h.holes_high_res(),
                    h.flags.value
                );
            }
        }
        "blend" => {
            // D1 (MoP variant): MTXP / MBMH / MBBB / MBNV / MBMI are read until end of file as well
            let s = Spec::full(5);
            let inp = make_input(&s);
            let b0 = build(&inp).unwrap().to_bytes().unwrap();
            let r0 = p(&b0);
            println!(
                "given: 3 MTXP entries, 2 MBMH, 2 MBBB, 7 MBNV, 9 MBMI; parsed: {} / {} / {} / {} / {}",
                r0.texture_params.as_ref().map(|m| m.entries.len()).unwrap_or(0),
                r0.blend_mesh_headers.as_ref().map(|m| m.entries.len()).unwrap_or(0),
                r0.blend_mesh_bounds.as_ref().map(|m| m.entries.len()).unwrap_or(0),
                r0.blend_mesh_vertices.as_ref().map(|m| m.vertices.len()).unwrap_or(0),
                r0.blend_mesh_indices.as_ref().map(|m| m.indices.len()).unwrap_or(0)
            );
        }
        "refs" | "mclq" | "extras" | "mtxf_old" | "blend_nomtxp" | "mfbo" => {
            let (dev, ver) = match name {
                "refs" => ("refs=doodad_only", 0),        // D2
                "mclq" => ("liquid=water", 0),            // D3
                "extras" => ("extras=mcmt", 0),           // D4
                "mfbo" => ("", 3),                        // D5
                "mtxf_old" => ("mtxf=per_texture", 2),    // D6
                _ => ("blend_mesh=two_batches", 5),       // D7
            };
            let mut s = Spec::minimal(ver);
            if let Some((site, val)) = dev.split_once('=') {
                let si = SITES.iter().position(|x| x.name == site).unwrap();
                s.v[si] = SITES[si].vals.iter().position(|x| *x == val).unwrap() as u8;
            }
            let inp = make_input(&s);
            let b0 = build(&inp).unwrap().to_bytes().unwrap();
            println!("builder input: version {}, {}; file {} bytes", VERSIONS[ver].0, if dev.is_empty() { "one texture, one empty MCNK" } else { dev }, b0.len());
            match parse(&b0) {
                Err(e) => println!("parse_adt(to_bytes()) = Err({})", e.lines().next().unwrap_or("")),
                Ok(r0) => {
                    let m = &r0.mcnk_chunks[0];
                    println!(
                        "parsed: version {:?}; mcnk[0]: refs={:?} doodad_refs={:?} wmo_refs={:?} materials={:?}; texture_flags={:?}; flight_bounds={}; blend_mesh_headers={}",
                        r0.version,
                        m.refs.as_ref().map(|x| x.references.clone()),
                        m.doodad_refs.as_ref().map(|x| x.doodad_refs.clone()),
                        m.wmo_refs.as_ref().map(|x| x.wmo_refs.clone()),
                        m.materials.map(|x| x.material_ids),
                        r0.texture_flags.as_ref().map(|x| x.flags.len()),
                        r0.flight_bounds.is_some(),
                        r0.blend_mesh_headers.is_some()
                    );
                    let b1 = BuiltAdt::from_root_adt(r0, None).to_bytes().unwrap();
                    let r1 = p(&b1);
                    println!("after from_root_adt(root, None).to_bytes(): {} bytes; flight_bounds={}", b1.len(), r1.flight_bounds.is_some());
                }
            }
        }
        other => {
            // generic: "site=value,site=value@Version[@full]"
            let mut parts = other.split('@');
            let devs = parts.next().unwrap_or("");
            let ver = parts.next().unwrap_or("VanillaEarly");
            let full = parts.next() == Some("full");
            let vi = VERSIONS.iter().position(|v| v.0 == ver).expect("version name");
            let mut s = if full { Spec::full(vi) } else { Spec::minimal(vi) };
            for d in devs.split(',').filter(|d| !d.is_empty()) {
                let (site, val) = d.split_once('=').expect("site=value");
                let si = SITES.iter().position(|x| x.name == site).expect("site name");
                let v = SITES[si].vals.iter().position(|x| *x == val).expect("value name");
                s.v[si] = v as u8;
            }
            let s = s.canonical();
            println!("spec: {}", s.json());
            let mut r = CaseResult::new();
            match guarded(|| run_spec(&s, &mut r)) {
                Ok(()) => {}
                Err((f, l, m)) => println!("PANIC at {f}:{l}: {m}"),
            }
            println!("outcome: {} (err_return={})", r.outcome, r.err_return);
            for (k, n) in &r.counters {
                println!("  {k} = {n}");
            }
            for v in &r.viols {
                println!("VIOL {} :: {}", v.symptom, v.detail);
            }
        }
    }
}

fn main() {
    let args: Vec<String> = std::env::args().collect();
    if args.len() >= 3 && args[1] == "--repro" {
        install_panic_hook();
        repro(&args[2]);
        return;
    }
    let Mode::Supervisor(mut c) = start("C14", "exploration", build_space) else { return };
    let tier = c.tier;
    let (dmin, dfull) = tier.pick((2, 2), (3, 3));
    c.rule = format!(
        "builder inputs = all specs with <= {dmin} deviations from the minimal baseline and <= {dfull} from the version-adjusted full baseline over {} sites ({} site values in total) x 6 target versions (VanillaEarly..MoP), canonicalised (sites without effect reset) and de-duplicated{}; per case: build -> to_bytes -> independent walker -> parse_adt -> content comparison with the input, then {ROUNDS} rounds of parse -> rebuild -> to_bytes on two rebuild paths (BuiltAdt::from_root_adt(root, None) and AdtBuilder::from_parsed(root).build()), every produced file walked; space savefile: BuiltAdt::write_to_file of the minimal and the full tile of every version over a path that holds nothing / each of those tiles (shorter, longer, same), file == to_bytes(); space holes: the {} values of site hole_bitmap (the 64-bit hole bitmap of a terrain chunk with the high_res_holes flag, which occupies the header bytes that otherwise hold the MCVT/MCNR offsets: the default diagonal pattern, empty, all 64 single holes, the 8 full rows, the 8 full columns, lower half in {{1, 0x90, 0x1000, 0x3FFFF, 0x40000}} with upper half zero, upper half in that set with lower half zero, all 25 pairs with both halves in that set, dense) on chunks with the flag, heights AND normals x 2 baselines (minimal + heights + normals + flag: one terrain chunk; version-adjusted full + flag: two terrain chunks, every sub-chunk kind) x {}, judged like a case of space main (parse == input incl. heights, normals and hole bitmap, {ROUNDS} rounds on both rebuild paths, every file walked). A case is non-trivial when the builder accepted it and a file was produced; distinct by (version, site vector).",
        NSITES,
        SITES.iter().map(|s| s.vals.len()).sum::<usize>(),
        if tier == Tier::Quick { "; 256 populated MCNK within <= 2 deviations of the minimal and <= 1 of the full baseline".to_string() } else { format!("; thorough adds a third baseline (full with staggered sub-chunk presence: sub-chunk k present on chunk i iff (i+k) even) with the same deviation bound as full, 256 populated MCNK there only within <= 2 deviations; with 3 deviations, inputs that the builder documents as refused are not enumerated again. The sites of space main use their core values ({} values). Thorough-only spaces over the extended alphabet ({} values: name lists of 300 names / > 65535 bytes, multi-byte UTF-8 names, 1821 doodad and 1025 WMO placements (> 65535 bytes), 3/17/255/257 terrain chunks, 2 and 3 layers, 3-byte alpha maps, 40 sound emitters, WMO-only and 150 references, ocean/slime/flat legacy liquid, all 8 subsets of MCMT/MCDD/MCBB, chunk flags impassable+do-not-fix-alpha and high-res holes, the hole-bitmap values of space holes, water on all 256 chunks / attributes-only entry / 1-entry list, 3-layer and 64-bit-bitmap water, MTXF/MTXP counts differing from the texture count, 1-batch and > 65535-byte blend meshes): ext = all specs with <= 2 deviations from the three baselines with at least one extended value; chunks = full product of {} per-chunk sites ({} combinations, 256 consecutive combinations on the 256 terrain chunks of one tile, {} tiles) x 6 versions, top level at the full baseline, 2 rounds; top_names = full product textures x models x doodads x wmos x wmo_placements x flight_bounds x water(none, chunk 0) x 6 versions; top_chunks = full product textures(1, 3) x flight_bounds x mtxf(4) x mamp x mtxp(3) x blend_mesh(4) x water set(8) x water format(10) x 6 versions with one terrain chunk, and the same product with one water format and the 256 terrain chunks the serialiser generates, all without the combinations documented as refused, 3 rounds on three rebuild paths (the third alternates from_root_adt and from_parsed); convert = the three baselines with <= 1 deviation over the whole alphabet, and the full baseline with 2 deviations among the top-level sites, x 6 versions: BuiltAdt::from_root_adt(root, Some(v)) for all 6 v, one plain re-serialisation of every converted tile on both rebuild paths (no growth, same content), and back to the built version (every file walked; content compared for the sections that exist in the oldest version of the chain; all-zero MFBO / MTXF added by a conversion not judged), then AdtBuilder::from_parsed(root) + add_texture/add_model/add_wmo/add_mcnk_chunk -> build -> to_bytes -> walk -> parse == parsed content plus the additions", SITES.iter().map(|s| s.core).sum::<usize>(), SITES.iter().map(|s| s.vals.len()).sum::<usize>(), CHUNK_PRODUCT.len(), chunk_product_len(), chunk_product_len().div_ceil(256)) },
        SITES[S_HOLES].vals.len(),
        if tier == Tier::Quick { "target version MoP (thorough: all 6 target versions, the builder accepts the flag for each)" } else { "all 6 target versions (the builder accepts the flag for each)" }
    );
    c.assume("content equality is judged on a canonical byte rendering of every section (floats by bit pattern); derived fields are excluded: MCNK header offsets/sizes/n_layers/n_snd_emitters, MCNR trailing padding, MH2O header/instance offsets and layer_count, MHDR/MCIN/MMID/MWID (checked by the walker instead); an empty section equals an absent one");
    c.assume("detected version is not content: version detection from chunk presence may legitimately report an older version when no newer chunk is present (counted, not judged); content lost because of it is judged");
    c.assume("texture flags left unspecified by the builder input may come back as one zero per texture (documented default); MCIN sizes may count the MCNK data with or without the 8 header bytes, MCNK sub-offsets may be relative to chunk start or data start, as long as one file uses one convention (docs and code disagree; the property does not fix it)");
    c.assume("builder inputs are self-consistent where the format stores a fact twice (MCNK flags vs. MCCV/MCSH/liquid type, n_doodad_refs/n_map_obj_refs vs. reference lists, MH2O vertex grid vs. instance rectangle, exists bitmap bits within width*height); offsets/sizes/counts that the writer must derive are deliberately given stale values");
    c.assume("walker: /verif/harness/props/c14/src/walker.rs, written from /repo/docs/src/formats/world-data/adt.md and the public ADT/v18 layout, shares no code with wow-adt");
    c.assume("raw sub-chunk sizes: MCVT/MCCV/MCLV 4 bytes per vertex, MCNR 3 bytes per normal plus 13, MCLY 16 bytes per layer, MCRF/MCRD/MCRW 4 bytes per reference, MCSE 28 bytes per emitter, MCSH/MCAL the bytes given (record sizes of /repo/docs/src/formats/world-data/adt.md and the public ADT/v18 layout)");
    c.assume("explicit version conversion: sections that do not exist in the target version may be dropped, an all-zero MFBO and one zero MTXF flag per texture may be added (documented on BuiltAdt::from_root_adt); the MCNK flag word is not compared below MoP; file growth is not judged for conversions");
    c.run_space("main", "");
    c.run_space("holes", "");
    c.run_space("savefile", "");
    if tier == Tier::Thorough {
        for sp in ["ext", "chunks", "top_names", "top_chunks", "convert"] {
            c.run_space(sp, "");
        }
    }
    let mut axes = serde_json::Map::new();
    for s in SITES.iter() {
        axes.insert(s.name.into(), json!(s.vals.len()));
    }
    axes.insert("versions".into(), json!(VERSIONS.len()));
    axes.insert("baselines".into(), json!(tier.pick(2, 3)));
    axes.insert("rounds".into(), json!(ROUNDS));
    axes.insert("rebuild_paths".into(), json!(2));
    c.extra_cov.insert("axes".into(), Value::Object(axes));
    c.extra_cov.insert("max_deviations".into(), json!({"minimal": dmin, "full": dfull}));
    {
        let mut classes: std::collections::BTreeMap<&str, u64> = Default::default();
        for (_, cl) in hole_alphabet() {
            *classes.entry(cl).or_insert(0) += 1;
        }
        c.extra_cov.insert(
            "holes_space".into(),
            json!({"hole_bitmap_values": SITES[S_HOLES].vals.len(), "values_per_class_after_default": classes, "small_halves": SMALL_HALVES.iter().map(|v| format!("{v:#x}")).collect::<Vec<_>>(), "baselines": HOLES_BASELINES, "versions": Holes::versions(tier).iter().map(|v| VERSIONS[*v].0).collect::<Vec<_>>(), "rounds": ROUNDS, "rebuild_paths": 2}),
        );
    }
    if tier == Tier::Thorough {
        let mut core = serde_json::Map::new();
        for s in SITES.iter() {
            core.insert(s.name.into(), json!(s.core));
        }
        c.extra_cov.insert("axes_core_values_of_space_main".into(), Value::Object(core));
        let prod = |axes: &[(usize, &[&str])]| -> Value {
            let mut m = serde_json::Map::new();
            for (site, vals) in axes {
                m.insert(SITES[*site].name.into(), json!(vals.len()));
            }
            Value::Object(m)
        };
        c.extra_cov.insert(
            "thorough_spaces".into(),
            json!({
                "ext": {"max_deviations": 2, "baselines": 3, "versions": 6},
                "chunks": {"product_axes": prod(&CHUNK_PRODUCT), "combinations": chunk_product_len(), "tiles_per_version": chunk_product_len().div_ceil(256), "versions": 6, "rounds": 2, "rebuild_paths": 2},
                "top_names": {"product_axes": prod(&TOP_NAMES), "versions": 6, "rounds": ROUNDS, "rebuild_paths": 3},
                "top_chunks": {"product_axes": prod(&TOP_CHUNKS), "product_axes_auto256": prod(&TOP_CHUNKS_AUTO), "versions": 6, "rounds": ROUNDS, "rebuild_paths": 3},
                "convert": {"baselines": 3, "max_deviations": 1, "max_top_level_deviations_from_full": 2, "versions": 6, "target_versions": 6, "chain": "A->B, A->B->rebuild, A->B->A, load-modify-save"},
            }),
        );
    }
    c.finish();
}
