//! Builder-input model for C14: the site table (alphabet), spec -> concrete wow-adt builder input,
//! and the normalised content rendering used to compare builder input and parsed tiles.

use std::collections::BTreeMap;
use wow_adt::chunks::blend_mesh::{MbbbChunk, MbbbEntry, MbmhChunk, MbmhEntry, MbmiChunk, MbnvChunk, MbnvVertex};
use wow_adt::chunks::mcnk::{
    BlendBatch, LiquidVertex, McbbChunk, McddChunk, MclvChunk, McmtChunk, McrdChunk, McrwChunk,
};
use wow_adt::chunks::mh2o::VertexDataArray;
use wow_adt::chunks::MtxfChunk;
use wow_adt::{
    AdtVersion, DepthOnlyVertex, DoodadPlacement, HeightDepthVertex, HeightUvDepthVertex, HeightUvVertex,
    LiquidType, MampChunk, McalChunk, MccvChunk, MclqChunk, MclyChunk, MclyFlags, MclyLayer, McnkChunk,
    McnkFlags, McnkHeader, McnrChunk, McrfChunk, McseChunk, McshChunk, McvtChunk, MfboChunk, Mh2oAttributes,
    Mh2oChunk, Mh2oEntry, Mh2oHeader, Mh2oInstance, MtxpChunk, RootAdt, SoundEmitter, TextureHeightParams,
    UvMapEntry, VertexColor, VertexNormal, WmoPlacement,
};

pub const VERSIONS: [(&str, AdtVersion); 6] = [
    ("VanillaEarly", AdtVersion::VanillaEarly),
    ("VanillaLate", AdtVersion::VanillaLate),
    ("TBC", AdtVersion::TBC),
    ("WotLK", AdtVersion::WotLK),
    ("Cataclysm", AdtVersion::Cataclysm),
    ("MoP", AdtVersion::MoP),
];

pub struct Site {
    pub name: &'static str,
    /// value names; index 0 is the minimal baseline
    pub vals: &'static [&'static str],
    /// the first `core` values are the alphabet of the quick tier and of the main space; the values
    /// after them are the extended alphabet that only the thorough-only spaces enumerate
    pub core: usize,
    /// value index in the full baseline
    pub full: usize,
    /// lowest version index for which the full baseline switches the site on (else stays at 0)
    pub full_from: usize,
    /// highest version index for which the full baseline switches the site on
    pub full_to: usize,
    /// per-MCNK site (no effect when the terrain chunks are auto-generated)
    pub per_chunk: bool,
}

macro_rules! site {
    ($n:expr, $v:expr, $c:expr, $f:expr) => {
        Site { name: $n, vals: $v, core: $c, full: $f, full_from: 0, full_to: 5, per_chunk: false }
    };
    ($n:expr, $v:expr, $c:expr, $f:expr, chunk) => {
        Site { name: $n, vals: $v, core: $c, full: $f, full_from: 0, full_to: 5, per_chunk: true }
    };
    ($n:expr, $v:expr, $c:expr, $f:expr, $from:expr) => {
        Site { name: $n, vals: $v, core: $c, full: $f, full_from: $from, full_to: 5, per_chunk: false }
    };
}

pub const S_TEX: usize = 0;
pub const S_MODELS: usize = 1;
pub const S_WMOS: usize = 2;
pub const S_DOODADS: usize = 3;
pub const S_WMOPL: usize = 4;
pub const S_MCNK: usize = 5;
pub const S_STAGGER: usize = 6;
pub const S_HEIGHTS: usize = 7;
pub const S_NORMALS: usize = 8;
pub const S_LAYERS: usize = 9;
pub const S_ALPHA: usize = 10;
pub const S_SHADOW: usize = 11;
pub const S_VCOLORS: usize = 12;
pub const S_VLIGHT: usize = 13;
pub const S_SOUND: usize = 14;
pub const S_REFS: usize = 15;
pub const S_SPLITREFS: usize = 16;
pub const S_LIQUID: usize = 17;
pub const S_EXTRAS: usize = 18;
pub const S_WATER: usize = 19;
pub const S_WATERFMT: usize = 20;
pub const S_MFBO: usize = 21;
pub const S_MTXF: usize = 22;
pub const S_MAMP: usize = 23;
pub const S_MTXP: usize = 24;
pub const S_BLEND: usize = 25;
pub const S_CFLAGS: usize = 26;
pub const S_HOLES: usize = 27;
pub const NSITES: usize = 28;

/// Halves of the 64-bit hole bitmap that are "small numbers": with the high_res_holes flag the bitmap
/// lives in the 8 header bytes that otherwise hold ofs_height (lower half) and ofs_normal (upper
/// half), so a half that looks like a plausible offset (non-zero, below 256 KiB) is the interesting
/// case for a reader; 0x3FFFF / 0x40000 sit on the two sides of that bound, 0x90 lands inside the chunk.
pub const SMALL_HALVES: [u64; 5] = [1, 0x90, 0x1000, 0x3FFFF, 0x40000];

/// Alphabet of the `hole_bitmap` site after its default value, as (bitmap, class), simplest first and
/// without repetitions (a value that belongs to two classes is listed under the first one):
/// empty, the 64 single holes, the 8 full rows, the 8 full columns, lower half small / upper half
/// zero, upper half small / lower half zero, both halves small (5 x 5), dense.
pub fn hole_alphabet() -> Vec<(u64, &'static str)> {
    let mut out: Vec<(u64, &'static str)> = vec![];
    let mut add = |v: u64, class: &'static str| {
        if !out.iter().any(|(x, _)| *x == v) {
            out.push((v, class));
        }
    };
    add(0, "empty");
    for k in 0..64 {
        add(1u64 << k, "single_hole");
    }
    for r in 0..8 {
        add(0xFFu64 << (8 * r), "full_row");
    }
    for c in 0..8 {
        add(0x0101_0101_0101_0101u64 << c, "full_column");
    }
    for s in SMALL_HALVES {
        add(s, "lower_half_small_upper_zero");
    }
    for s in SMALL_HALVES {
        add(s << 32, "upper_half_small_lower_zero");
    }
    for hi in SMALL_HALVES {
        for lo in SMALL_HALVES {
            add(hi << 32 | lo, "both_halves_small");
        }
    }
    add(u64::MAX, "dense");
    out
}

/// Value names of the `hole_bitmap` site: the default (the pattern every earlier round of this check
/// used: a diagonal xor-ed with the chunk index) and then `hole_alphabet()` spelled as hex literals;
/// `check_hole_vals()` asserts that the two agree.
pub const HOLE_VALS: [&str; 112] = [
    "diagonal_xor_index",
    "0x0000000000000000", "0x0000000000000001", "0x0000000000000002", "0x0000000000000004",
    "0x0000000000000008", "0x0000000000000010", "0x0000000000000020", "0x0000000000000040",
    "0x0000000000000080", "0x0000000000000100", "0x0000000000000200", "0x0000000000000400",
    "0x0000000000000800", "0x0000000000001000", "0x0000000000002000", "0x0000000000004000",
    "0x0000000000008000", "0x0000000000010000", "0x0000000000020000", "0x0000000000040000",
    "0x0000000000080000", "0x0000000000100000", "0x0000000000200000", "0x0000000000400000",
    "0x0000000000800000", "0x0000000001000000", "0x0000000002000000", "0x0000000004000000",
    "0x0000000008000000", "0x0000000010000000", "0x0000000020000000", "0x0000000040000000",
    "0x0000000080000000", "0x0000000100000000", "0x0000000200000000", "0x0000000400000000",
    "0x0000000800000000", "0x0000001000000000", "0x0000002000000000", "0x0000004000000000",
    "0x0000008000000000", "0x0000010000000000", "0x0000020000000000", "0x0000040000000000",
    "0x0000080000000000", "0x0000100000000000", "0x0000200000000000", "0x0000400000000000",
    "0x0000800000000000", "0x0001000000000000", "0x0002000000000000", "0x0004000000000000",
    "0x0008000000000000", "0x0010000000000000", "0x0020000000000000", "0x0040000000000000",
    "0x0080000000000000", "0x0100000000000000", "0x0200000000000000", "0x0400000000000000",
    "0x0800000000000000", "0x1000000000000000", "0x2000000000000000", "0x4000000000000000",
    "0x8000000000000000", "0x00000000000000ff", "0x000000000000ff00", "0x0000000000ff0000",
    "0x00000000ff000000", "0x000000ff00000000", "0x0000ff0000000000", "0x00ff000000000000",
    "0xff00000000000000", "0x0101010101010101", "0x0202020202020202", "0x0404040404040404",
    "0x0808080808080808", "0x1010101010101010", "0x2020202020202020", "0x4040404040404040",
    "0x8080808080808080", "0x0000000000000090", "0x000000000003ffff", "0x0000009000000000",
    "0x0003ffff00000000", "0x0000000100000001", "0x0000000100000090", "0x0000000100001000",
    "0x000000010003ffff", "0x0000000100040000", "0x0000009000000001", "0x0000009000000090",
    "0x0000009000001000", "0x000000900003ffff", "0x0000009000040000", "0x0000100000000001",
    "0x0000100000000090", "0x0000100000001000", "0x000010000003ffff", "0x0000100000040000",
    "0x0003ffff00000001", "0x0003ffff00000090", "0x0003ffff00001000", "0x0003ffff0003ffff",
    "0x0003ffff00040000", "0x0004000000000001", "0x0004000000000090", "0x0004000000001000",
    "0x000400000003ffff", "0x0004000000040000", "0xffffffffffffffff",
];

/// The bitmap a `hole_bitmap` value name stands for (None: the default pattern).
pub fn hole_value(name: &str) -> Option<u64> {
    name.strip_prefix("0x").map(|h| u64::from_str_radix(h, 16).unwrap_or_else(|_| panic!("hole bitmap literal {name}")))
}

/// The literal table above is exactly the enumeration `hole_alphabet()` describes.
pub fn check_hole_vals() {
    let want: Vec<u64> = hole_alphabet().into_iter().map(|(v, _)| v).collect();
    let got: Vec<u64> = HOLE_VALS[1..].iter().map(|n| hole_value(n).expect("hex literal")).collect();
    assert!(hole_value(HOLE_VALS[0]).is_none() && got == want, "HOLE_VALS does not spell hole_alphabet()");
}

// Values after the first `core` ones (third macro argument) are the extended alphabet.
pub const SITES: [Site; NSITES] = [
    site!("textures", &["one", "three_shared_prefix", "none", "long255_plus_two", "many300", "utf8_two"], 4, 1),
    site!("models", &["none", "one", "three_shared_prefix", "many300"], 3, 2),
    site!("wmos", &["none", "one", "three_shared_prefix", "many300"], 3, 2),
    site!("doodads", &["none", "one", "three", "many1821"], 3, 2),
    site!("wmo_placements", &["none", "one", "three", "many1025"], 3, 2),
    site!("mcnk", &["one", "auto256", "two_first_last", "all256", "three", "seventeen", "n255", "n257"], 4, 2),
    site!("stagger", &["off", "on"], 2, 0, chunk),
    site!("heights", &["off", "on"], 2, 1, chunk),
    site!("normals", &["off", "on"], 2, 1, chunk),
    site!("layers", &["none", "one", "four", "empty", "two", "three"], 4, 2, chunk),
    site!("alpha", &["none", "u4096", "u2048", "rle", "mixed", "empty", "odd3"], 6, 4, chunk),
    site!("shadow", &["off", "on"], 2, 1, chunk),
    site!("vertex_colors", &["off", "on"], 2, 1, chunk),
    site!("vertex_lighting", &["off", "on"], 2, 1, chunk),
    site!("sound", &["none", "one", "three", "empty", "many40"], 4, 2, chunk),
    site!("refs", &["none", "doodad_only", "doodad_and_wmo", "empty", "wmo_only", "many150"], 4, 2, chunk),
    site!("split_refs", &["none", "mcrd", "mcrw", "both"], 4, 0, chunk),
    site!("liquid", &["none", "water", "magma", "ocean", "slime", "flat_water"], 3, 1, chunk),
    site!("extras", &["none", "mcmt", "mcdd", "mcbb", "mcmt_mcdd", "mcmt_mcbb", "mcdd_mcbb", "all_three"], 4, 0, chunk),
    Site { name: "water", vals: &["none", "c0", "c255", "c0_17_255", "present_empty", "all256", "c0_17attrs_255", "vec1_c0"], core: 5, full: 3, full_from: 3, full_to: 5, per_chunk: false },
    Site {
        name: "water_fmt",
        vals: &["plain_attrs", "lvf0_bitmap", "lvf1_full", "lvf2_bitmap_attrs", "lvf3", "two_layers", "bitmap_no_vertices_attrs", "two_layers_last_bitmap_only", "three_layers", "lvf0_full_bitmap64"],
        core: 8,
        full: 5,
        full_from: 3,
        full_to: 5,
        per_chunk: false,
    },
    site!("flight_bounds", &["off", "on"], 2, 1, 2),
    site!("mtxf", &["none", "per_texture", "one_fewer", "two_more"], 2, 1, 3),
    site!("mamp", &["off", "on"], 2, 1, 4),
    site!("mtxp", &["off", "per_texture", "two_more"], 2, 1, 5),
    site!("blend_mesh", &["off", "two_batches", "one_batch", "big"], 2, 1, 5),
    site!("chunk_flags", &["none", "impassable_nofix", "high_res_holes"], 1, 0, chunk),
    // the 64-bit hole bitmap of chunks with chunk_flags=high_res_holes (without effect otherwise)
    site!("hole_bitmap", &HOLE_VALS, 1, 0, chunk),
];

#[derive(Clone, Debug, PartialEq, Eq, Hash)]
pub struct Spec {
    pub version: usize,
    pub v: [u8; NSITES],
}

impl Spec {
    pub fn minimal(version: usize) -> Spec {
        Spec { version, v: [0; NSITES] }
    }
    pub fn full(version: usize) -> Spec {
        let mut v = [0u8; NSITES];
        for (i, s) in SITES.iter().enumerate() {
            if version >= s.full_from && version <= s.full_to {
                v[i] = s.full as u8;
            }
        }
        Spec { version, v }
    }
    /// Sites without effect are reset so that equal inputs get equal specs.
    pub fn canonical(&self) -> Spec {
        let mut c = self.clone();
        if SITES[S_MCNK].vals[c.v[S_MCNK] as usize] == "auto256" {
            for (i, s) in SITES.iter().enumerate() {
                if s.per_chunk {
                    c.v[i] = 0;
                }
            }
        }
        if matches!(SITES[S_WATER].vals[c.v[S_WATER] as usize], "none" | "present_empty") {
            c.v[S_WATERFMT] = 0;
        }
        if SITES[S_CFLAGS].vals[c.v[S_CFLAGS] as usize] != "high_res_holes" {
            c.v[S_HOLES] = 0;
        }
        c
    }
    pub fn val(&self, site: usize) -> &'static str {
        SITES[site].vals[self.v[site] as usize]
    }
    pub fn json(&self) -> serde_json::Value {
        let mut m = serde_json::Map::new();
        m.insert("version".into(), VERSIONS[self.version].0.into());
        for (i, s) in SITES.iter().enumerate() {
            m.insert(s.name.into(), self.val(i).into());
        }
        serde_json::Value::Object(m)
    }
    pub fn key(&self) -> String {
        format!("{}:{:?}", self.version, self.v)
    }
}

// ------------------------------------------------------------------ concrete input

/// The builder input in the same shape as a parsed tile.
pub struct Input {
    pub version: AdtVersion,
    pub textures: Vec<String>,
    pub models: Vec<String>,
    pub wmos: Vec<String>,
    pub doodads: Vec<DoodadPlacement>,
    pub wmo_placements: Vec<WmoPlacement>,
    /// None = auto-generated by the serialiser
    pub mcnk: Option<Vec<McnkChunk>>,
    pub flight_bounds: Option<MfboChunk>,
    pub water: Option<Mh2oChunk>,
    pub mtxf: Option<MtxfChunk>,
    pub mamp: Option<MampChunk>,
    pub mtxp: Option<MtxpChunk>,
    pub blend: Option<(MbmhChunk, MbbbChunk, MbnvChunk, MbmiChunk)>,
}

fn names(kind: &str, ext: &str, n: &str) -> Vec<String> {
    match n {
        "none" => vec![],
        "one" => vec![format!("{kind}/a.{ext}")],
        "three_shared_prefix" => vec![format!("{kind}/a.{ext}"), format!("{kind}/ab.{ext}"), format!("{kind}/a.{ext}x.{ext}")],
        "long255_plus_two" => {
            let stem = "L".repeat(255 - kind.len() - 2 - ext.len());
            vec![format!("{kind}/{stem}.{ext}"), format!("{kind}/b.{ext}"), format!("{kind}/B.{}", ext.to_uppercase())]
        }
        // 300 names of ~220 bytes: the name block (and every name offset after the 297th) exceeds 65535
        "many300" => (0..300).map(|k| format!("{kind}/{k:03}_{}.{ext}", "m".repeat(200 + k % 7))).collect(),
        // multi-byte UTF-8 names (2- and 3-byte sequences), upper-case extension on the second
        "utf8_two" => vec![format!("{kind}/\u{e9}t\u{e9}_\u{4e16}\u{754c}.{ext}"), format!("{kind}/\u{c4}\u{d6}\u{dc}.{}", ext.to_uppercase())],
        _ => unreachable!(),
    }
}

fn f(i: usize, j: usize) -> f32 {
    // small pool with signed zero, a sub-normal-free extreme and ordinary values
    match (i + j) % 7 {
        0 => -0.0,
        1 => 1.5 + i as f32,
        2 => -(j as f32) * 0.25,
        3 => 9999.0,
        4 => f32::MIN_POSITIVE,
        5 => (i * 145 + j) as f32,
        _ => -1.0e-3,
    }
}

fn rle_map(seed: u8) -> Vec<u8> {
    // 4096 bytes: 32 fill runs of 127 + one fill run of 32
    let mut v = vec![];
    for k in 0..32u8 {
        v.push(0x80 | 127);
        v.push(seed.wrapping_add(k));
    }
    v.push(0x80 | 32);
    v.push(seed ^ 0x5A);
    v
}

fn present(spec: &Spec, site: usize, i: usize) -> bool {
    let stag = spec.val(S_STAGGER) == "on";
    !stag || (i + site) % 2 == 0
}

pub fn make_chunk(spec: &Spec, i: usize, n: usize, ntex: usize) -> McnkChunk {
    let (ix, iy) = if n == 2 && i == 1 { (15, 15) } else { ((i % 16) as u32, (i / 16) as u32) };
    let on = |site: usize| -> &'static str {
        if present(spec, site, i) {
            spec.val(site)
        } else {
            SITES[site].vals[0]
        }
    };
    let mut flags = 0u32;
    let cflags = on(S_CFLAGS);
    match cflags {
        "impassable_nofix" => flags |= 0x2 | 0x8000,
        "high_res_holes" => flags |= 0x200, // the bit wow-adt's McnkFlags::high_res_holes() tests
        _ => {}
    }

    let heights = (on(S_HEIGHTS) == "on").then(|| McvtChunk { heights: (0..145).map(|j| f(i, j)).collect() });
    let normals = (on(S_NORMALS) == "on").then(|| McnrChunk {
        normals: (0..145)
            .map(|j| VertexNormal { x: (j as i32 - 72) as i8, z: ((i * 3 + j) % 255) as u8 as i8, y: if j % 2 == 0 { 127 } else { -127 } })
            .collect(),
        padding: vec![0; 13],
    });
    let nlayers: Option<usize> = match on(S_LAYERS) {
        "none" => None,
        "one" => Some(1),
        "four" => Some(4),
        "empty" => Some(0),
        "two" => Some(2),
        "three" => Some(3),
        _ => unreachable!(),
    };
    // alpha maps: one per layer above the base layer (at least one when alpha data is requested)
    let alpha_kind = on(S_ALPHA);
    let nmaps = nlayers.unwrap_or(0).saturating_sub(1).max(1);
    let mut alpha_data: Vec<u8> = vec![];
    let mut map_offsets = vec![];
    let mut map_compressed = vec![];
    if !matches!(alpha_kind, "none" | "empty") {
        for m in 0..nmaps {
            map_offsets.push(alpha_data.len() as u32);
            let kind = match alpha_kind {
                "mixed" => ["u4096", "u2048", "rle"][m % 3],
                k => k,
            };
            map_compressed.push(kind == "rle");
            match kind {
                "u4096" => alpha_data.extend((0..4096).map(|k| ((k * 7 + i + m) % 256) as u8)),
                "u2048" => alpha_data.extend((0..2048).map(|k| ((k * 13 + i * 3 + m) % 256) as u8)),
                "rle" => alpha_data.extend(rle_map((i * 5 + m) as u8)),
                // three bytes per map: every following sub-chunk starts at an odd offset
                "odd3" => alpha_data.extend([i as u8, 0x55, 0xAA ^ m as u8]),
                _ => unreachable!(),
            }
        }
    }
    let alpha = match alpha_kind {
        "none" => None,
        _ => Some(McalChunk { data: alpha_data }),
    };
    let layers = nlayers.map(|n| MclyChunk {
        layers: (0..n)
            .map(|k| {
                let mut fl = (k as u32) & 0x7; // animation rotation bits as texture
                let mut ofs = 0;
                if k > 0 && k - 1 < map_offsets.len() {
                    fl |= 0x100;
                    if map_compressed[k - 1] {
                        fl |= 0x200;
                    }
                    ofs = map_offsets[k - 1];
                }
                MclyLayer { texture_id: (k % ntex.max(1)) as u32, flags: MclyFlags { value: fl }, offset_in_mcal: ofs, effect_id: 100 + k as u32 }
            })
            .collect(),
    });
    let shadow = (on(S_SHADOW) == "on").then(|| McshChunk { shadow_map: (0..512).map(|k| ((k * 31 + i) % 256) as u8).collect() });
    if shadow.is_some() {
        flags |= 0x1;
    }
    let vertex_colors = (on(S_VCOLORS) == "on").then(|| MccvChunk {
        colors: (0..145).map(|j| VertexColor { b: j as u8, g: (j * 2) as u8, r: (i + j) as u8, a: 255 - j as u8 }).collect(),
    });
    if vertex_colors.is_some() {
        flags |= 0x40;
    }
    let vertex_lighting = (on(S_VLIGHT) == "on").then(|| MclvChunk { colors: (0..145u32).map(|j| 0xFF00_0000 | (j << 8) | i as u32 & 0xFF).collect() });
    let sound_emitters = match on(S_SOUND) {
        "none" => None,
        s => {
            let n = match s {
                "one" => 1,
                "three" => 3,
                "many40" => 40,
                _ => 0,
            };
            Some(McseChunk {
                emitters: (0..n)
                    .map(|k| SoundEmitter {
                        sound_entry_id: 7000 + (i * 4 + k) as u32,
                        position: [f(i, k), 10.0 + k as f32, -3.0],
                        size_min: [1.0, 2.0 + k as f32, 0.5],
                        _padding: [],
                    })
                    .collect(),
            })
        }
    };
    let (mut n_doodad_refs, mut n_map_obj_refs) = (0u32, 0u32);
    let refs = match on(S_REFS) {
        "none" => None,
        "doodad_only" => {
            n_doodad_refs = 2;
            Some(McrfChunk { references: vec![i as u32, 1] })
        }
        "doodad_and_wmo" => {
            n_doodad_refs = 2;
            n_map_obj_refs = 1;
            Some(McrfChunk { references: vec![i as u32, 2, 40 + i as u32] })
        }
        "empty" => Some(McrfChunk { references: vec![] }),
        "wmo_only" => {
            n_map_obj_refs = 2;
            Some(McrfChunk { references: vec![40 + i as u32, 41] })
        }
        "many150" => {
            n_doodad_refs = 100;
            n_map_obj_refs = 50;
            Some(McrfChunk { references: (0..150u32).map(|k| k * 3 + i as u32).collect() })
        }
        _ => unreachable!(),
    };
    let sr = on(S_SPLITREFS);
    let doodad_refs = matches!(sr, "mcrd" | "both").then(|| McrdChunk { doodad_refs: vec![5, 6 + i as u32] });
    let wmo_refs = matches!(sr, "mcrw" | "both").then(|| McrwChunk { wmo_refs: vec![9 + i as u32] });
    if refs.is_none() {
        if doodad_refs.is_some() {
            n_doodad_refs = 2;
        }
        if wmo_refs.is_some() {
            n_map_obj_refs = 1;
        }
    }
    let liquid = match on(S_LIQUID) {
        "none" => None,
        k => {
            let lt = match k {
                "magma" => {
                    flags |= 0x10;
                    LiquidType::Magma
                }
                "ocean" => {
                    flags |= 0x08;
                    LiquidType::Ocean
                }
                "slime" => {
                    flags |= 0x20;
                    LiquidType::Slime
                }
                _ => {
                    flags |= 0x04; // river
                    LiquidType::Water
                }
            };
            let flat = k == "flat_water";
            Some(MclqChunk {
                min_height: if flat { 3.0 } else { -5.0 - i as f32 },
                max_height: if flat { 3.0 } else { 10.5 },
                vertices: (0..81).map(|j| LiquidVertex { union_data: [j as u8, i as u8, 3, 4], height: if flat { 3.0 } else { f(i, j + 1) } }).collect(),
                tile_flags: {
                    let mut t = [0u8; 64];
                    for (k, x) in t.iter_mut().enumerate() {
                        *x = ((k + i) % 16) as u8;
                    }
                    t
                },
                liquid_type: lt,
            })
        }
    };
    let ex = on(S_EXTRAS);
    let (ex_mcmt, ex_mcdd, ex_mcbb) = match ex {
        "none" => (false, false, false),
        "mcmt" => (true, false, false),
        "mcdd" => (false, true, false),
        "mcbb" => (false, false, true),
        "mcmt_mcdd" => (true, true, false),
        "mcmt_mcbb" => (true, false, true),
        "mcdd_mcbb" => (false, true, true),
        "all_three" => (true, true, true),
        _ => unreachable!(),
    };
    let materials = ex_mcmt.then(|| McmtChunk { material_ids: [1, 2, i as u8, 255] });
    let doodad_disable = ex_mcdd.then(|| {
        let mut d = [0u8; 64];
        d[0] = 0x81;
        d[63] = i as u8 | 1;
        McddChunk { disable: d }
    });
    let blend_batches = ex_mcbb.then(|| McbbChunk {
        batches: vec![BlendBatch { mbmh_index: 0, index_count: 3, index_first: 0, vertex_count: 3, vertex_first: 0 }, BlendBatch { mbmh_index: 1, index_count: 6, index_first: 3, vertex_count: 4, vertex_first: 3 }],
    });

    // stale derived fields on purpose: the writer must recompute every offset / size / count
    let stale = 0x7770 + i as u32;
    let header = McnkHeader {
        flags: McnkFlags { value: flags },
        index_x: ix,
        index_y: iy,
        n_layers: 9,
        n_doodad_refs,
        // the hole bitmap is a property of the chunk: the same literal on every flagged chunk of the tile
        multipurpose_field: if cflags == "high_res_holes" {
            McnkHeader::multipurpose_from_holes(hole_value(spec.val(S_HOLES)).unwrap_or(0x8040_2010_0804_0201 ^ ((i as u64) << 20)))
        } else {
            McnkHeader::multipurpose_from_offsets(stale, stale + 4)
        },
        ofs_layer: stale,
        ofs_refs: stale,
        ofs_alpha: stale,
        size_alpha: 77,
        ofs_shadow: stale,
        size_shadow: 78,
        area_id: 1000 + i as u32,
        n_map_obj_refs,
        holes_low_res: (i as u16).wrapping_mul(257),
        unknown_but_used: 1,
        pred_tex: [i as u8, 1, 2, 3, 4, 5, 6, 0xFF],
        no_effect_doodad: [0xF0, i as u8, 0, 0, 0, 0, 0, 1],
        unknown_8bytes: [8, 7, 6, 5, 4, 3, 2, i as u8],
        ofs_snd_emitters: stale,
        n_snd_emitters: 5,
        ofs_liquid: stale,
        size_liquid: 79,
        position: [ix as f32 * 33.333_332, iy as f32 * -33.333_332, f(i, 3)],
        ofs_mccv: stale,
        ofs_mclv: stale,
        unused: 0,
        _padding: [0; 8],
    };
    McnkChunk {
        header,
        heights,
        normals,
        layers,
        materials,
        refs,
        doodad_refs,
        wmo_refs,
        alpha,
        shadow,
        vertex_colors,
        vertex_lighting,
        sound_emitters,
        liquid,
        doodad_disable,
        blend_batches,
    }
}

fn water_entry(fmt: &str, ci: usize) -> Mh2oEntry {
    let c = ci as f32;
    let inst = |lt: u16, lvf: u16, x: u8, y: u8, w: u8, h: u8| Mh2oInstance {
        liquid_type: lt,
        liquid_object_or_lvf: lvf,
        min_height_level: -2.5 - c,
        max_height_level: 40.25 + c,
        x_offset: x,
        y_offset: y,
        width: w,
        height: h,
        offset_exists_bitmap: 0x1234, // stale on purpose
        offset_vertex_data: 0x4321,
    };
    let cells = |i: &Mh2oInstance| -> Vec<usize> {
        let mut v = vec![];
        for z in i.y_offset as usize..=(i.y_offset + i.height) as usize {
            for x in i.x_offset as usize..=(i.x_offset + i.width) as usize {
                v.push(z * 9 + x);
            }
        }
        v
    };
    let hd = |i: &Mh2oInstance| {
        let mut g: Box<[Option<HeightDepthVertex>; 81]> = Box::new([None; 81]);
        for (k, idx) in cells(i).into_iter().enumerate() {
            g[idx] = Some(HeightDepthVertex { height: c + k as f32 * 0.5, depth: (k * 3 + ci) as u8 });
        }
        VertexDataArray::HeightDepth(g)
    };
    let hu = |i: &Mh2oInstance| {
        let mut g: Box<[Option<HeightUvVertex>; 81]> = Box::new([None; 81]);
        for (k, idx) in cells(i).into_iter().enumerate() {
            g[idx] = Some(HeightUvVertex { height: -c - k as f32, uv: UvMapEntry { u: (k * 100) as u16, v: 65535 - k as u16 } });
        }
        VertexDataArray::HeightUv(g)
    };
    let d = |i: &Mh2oInstance| {
        let mut g: Box<[Option<DepthOnlyVertex>; 81]> = Box::new([None; 81]);
        for (k, idx) in cells(i).into_iter().enumerate() {
            g[idx] = Some(DepthOnlyVertex { depth: (200 + k + ci) as u8 });
        }
        VertexDataArray::DepthOnly(g)
    };
    let hud = |i: &Mh2oInstance| {
        let mut g: Box<[Option<HeightUvDepthVertex>; 81]> = Box::new([None; 81]);
        for (k, idx) in cells(i).into_iter().enumerate() {
            g[idx] = Some(HeightUvDepthVertex { height: 0.125 * k as f32, uv: UvMapEntry { u: k as u16, v: ci as u16 }, depth: k as u8 });
        }
        VertexDataArray::HeightUvDepth(g)
    };
    let attrs = Some(Mh2oAttributes { fishable: 0xFFFF_0000_FFFF_0001 ^ ci as u64, deep: 0x8000_0000_0000_0000 | ci as u64 });
    let header = Mh2oHeader { offset_instances: 0x999, layer_count: 7, offset_attributes: 0x888 };
    match fmt {
        "plain_attrs" => {
            let i = inst(5, 0, 0, 0, 8, 8);
            Mh2oEntry { header, instances: vec![i], vertex_data: vec![None], exists_bitmaps: vec![None], attributes: attrs }
        }
        "lvf0_bitmap" => {
            let i = inst(1, 0, 1, 2, 3, 2);
            let vd = hd(&i);
            Mh2oEntry { header, instances: vec![i], vertex_data: vec![Some(vd)], exists_bitmaps: vec![Some(0b10_1101)], attributes: None }
        }
        "lvf1_full" => {
            let i = inst(2, 1, 0, 0, 8, 8);
            let vd = hu(&i);
            Mh2oEntry { header, instances: vec![i], vertex_data: vec![Some(vd)], exists_bitmaps: vec![None], attributes: None }
        }
        "lvf2_bitmap_attrs" => {
            let i = inst(14, 2, 7, 7, 1, 1);
            let vd = d(&i);
            Mh2oEntry { header, instances: vec![i], vertex_data: vec![Some(vd)], exists_bitmaps: vec![Some(1)], attributes: attrs }
        }
        "lvf3" => {
            let i = inst(3, 3, 4, 0, 2, 5);
            let vd = hud(&i);
            Mh2oEntry { header, instances: vec![i], vertex_data: vec![Some(vd)], exists_bitmaps: vec![None], attributes: None }
        }
        "two_layers" => {
            let a = inst(1, 0, 0, 0, 4, 4);
            let b = inst(2, 2, 2, 3, 6, 5);
            let (va, vb) = (hd(&a), d(&b));
            Mh2oEntry {
                header,
                instances: vec![a, b],
                vertex_data: vec![Some(va), Some(vb)],
                exists_bitmaps: vec![Some(0xBEEF), None],
                attributes: attrs,
            }
        }
        // flat liquid (min/max height only) with a partial-coverage mask: bitmap without vertex data
        "bitmap_no_vertices_attrs" => {
            let i = inst(5, 0, 2, 1, 4, 6);
            Mh2oEntry { header, instances: vec![i], vertex_data: vec![None], exists_bitmaps: vec![Some(0x00C3_5A0F)], attributes: attrs }
        }
        "two_layers_last_bitmap_only" => {
            let a = inst(2, 1, 0, 0, 8, 8);
            let b = inst(5, 0, 3, 3, 2, 2);
            let va = hu(&a);
            Mh2oEntry { header, instances: vec![a, b], vertex_data: vec![Some(va), None], exists_bitmaps: vec![None, Some(0b1001)], attributes: None }
        }
        // three layers: bitmap + vertices, neither, bitmap + vertices of the widest format; attributes
        "three_layers" => {
            let a = inst(1, 0, 0, 0, 2, 2);
            let b = inst(5, 0, 1, 1, 3, 3);
            let c3 = inst(3, 3, 4, 4, 4, 4);
            let (va, vc) = (hd(&a), hud(&c3));
            Mh2oEntry { header, instances: vec![a, b, c3], vertex_data: vec![Some(va), None, Some(vc)], exists_bitmaps: vec![Some(0b1011), None, Some(0xFFFF)], attributes: attrs }
        }
        // whole chunk, all 81 vertices, bitmap using all 64 bits (top bit set)
        "lvf0_full_bitmap64" => {
            let i = inst(1, 0, 0, 0, 8, 8);
            let vd = hd(&i);
            Mh2oEntry { header, instances: vec![i], vertex_data: vec![Some(vd)], exists_bitmaps: vec![Some(u64::MAX ^ (1 << 17))], attributes: None }
        }
        _ => unreachable!(),
    }
}

pub fn make_input(spec: &Spec) -> Input {
    let textures = names("tileset", "blp", spec.val(S_TEX));
    let models = names("world/doodad", "m2", spec.val(S_MODELS));
    let wmos = names("world/wmo", "wmo", spec.val(S_WMOS));
    let count = |s: &str| match s {
        "none" => 0,
        "one" => 1,
        "three" => 3,
        "many1821" => 1821, // 1821 * 36 bytes > 65535
        "many1025" => 1025, // 1025 * 64 bytes > 65535
        _ => unreachable!(),
    };
    let doodads = (0..count(spec.val(S_DOODADS)))
        .map(|k| DoodadPlacement {
            name_id: if models.is_empty() { 0 } else { ((k + 1) % models.len()) as u32 },
            unique_id: 0xA000_0000 + k as u32,
            position: [17066.0 + k as f32, -0.0, f(k, 2)],
            rotation: [0.0, 90.0 * k as f32, -180.0],
            scale: 1024 + 512 * (k % 8) as u16,
            flags: if k == 2 { 0x1000 } else { 0 },
        })
        .collect();
    let wmo_placements = (0..count(spec.val(S_WMOPL)))
        .map(|k| WmoPlacement {
            name_id: if wmos.is_empty() { 0 } else { ((k + 2) % wmos.len()) as u32 },
            unique_id: 0xB000_0000 + k as u32,
            position: [1.0, 2.0 + k as f32, 3.0],
            rotation: [f(k, 0), 45.0, 0.0],
            extents_min: [-100.0 - k as f32, -50.0, 0.0],
            extents_max: [100.0, 50.0 + k as f32, 200.0],
            flags: k as u16,
            doodad_set: 2 * k as u16,
            name_set: k as u16 + 1,
            scale: if k == 0 { 0 } else { 1024 },
        })
        .collect();
    let n = match spec.val(S_MCNK) {
        "one" => Some(1),
        "auto256" => None,
        "two_first_last" => Some(2),
        "all256" => Some(256),
        "three" => Some(3),
        "seventeen" => Some(17),
        "n255" => Some(255),
        "n257" => Some(257),
        _ => unreachable!(),
    };
    let mcnk = n.map(|n| (0..n).map(|i| make_chunk(spec, i, n, textures.len())).collect());
    let flight_bounds = (spec.val(S_MFBO) == "on").then(|| MfboChunk { max_plane: [500, 501, 502, 503, -1, 32767, 0, 1, 2], min_plane: [-500, -32768, 0, 1, 2, 3, 4, 5, 6] });
    let water = match spec.val(S_WATER) {
        "none" => None,
        w => {
            let mut c = Mh2oChunk::new();
            let all: Vec<usize> = (0..256).collect();
            let set: &[usize] = match w {
                "c0" | "vec1_c0" => &[0],
                "c255" => &[255],
                "c0_17_255" => &[0, 17, 255],
                "c0_17attrs_255" => &[0, 255],
                "all256" => &all,
                _ => &[],
            };
            for &ci in set {
                c.entries[ci] = water_entry(spec.val(S_WATERFMT), ci);
            }
            if w == "c0_17attrs_255" {
                // a chunk with liquid attributes but no liquid layer, between two chunks with liquid
                c.entries[17] = Mh2oEntry {
                    header: Mh2oHeader { offset_instances: 0x999, layer_count: 7, offset_attributes: 0x888 },
                    instances: vec![],
                    vertex_data: vec![],
                    exists_bitmaps: vec![],
                    attributes: Some(Mh2oAttributes { fishable: 0x0102_0304_0506_0708, deep: 0xF0E0_D0C0_B0A0_9080 }),
                };
            }
            if w == "vec1_c0" {
                // the entry list is a plain Vec: one entry only, the writer has to pad to 256 headers
                c.entries.truncate(1);
            }
            Some(c)
        }
    };
    let ntex_adj = |v: &str| match v {
        "one_fewer" => textures.len().saturating_sub(1),
        "two_more" => textures.len() + 2,
        _ => textures.len(),
    };
    let mtxf = (spec.val(S_MTXF) != "none").then(|| MtxfChunk { flags: (0..ntex_adj(spec.val(S_MTXF))).map(|k| [0x1, 0x0, 0x2, 0x10][k % 4]).collect() });
    let mamp = (spec.val(S_MAMP) == "on").then_some(MampChunk { amplifier: 0x0102_0304 });
    let mtxp = (spec.val(S_MTXP) != "off").then(|| MtxpChunk {
        entries: (0..ntex_adj(spec.val(S_MTXP))).map(|k| TextureHeightParams { flags: k as u32, height_scale: 0.5 * k as f32, height_offset: 1.0, padding: 0 }).collect(),
    });
    let blend = match spec.val(S_BLEND) {
        "off" | "two_batches" => None,
        "one_batch" => Some((
            MbmhChunk { entries: vec![MbmhEntry { map_object_id: 21, texture_id: 0, unknown: 0, mbmi_count: 3, mbnv_count: 3, mbmi_start: 0, mbnv_start: 0 }] },
            MbbbChunk { entries: vec![MbbbEntry { map_object_id: 21, min: [-1.0, -0.0, 0.5], max: [1.0, 2.0, 3.0] }] },
            MbnvChunk { vertices: (0..3).map(|k| MbnvVertex { position: [k as f32, 2.0, 3.0], normal: [0.0, 1.0, 0.0], uv: [0.5, 0.25 * k as f32], color: [[k, 1, 2, 3], [4, 5, 6, 7], [8, 9, 10, k]] }).collect() },
            MbmiChunk { indices: vec![0, 1, 2] },
        )),
        // 1500 vertices (44 bytes each) and 40002 indices: MBNV and MBMI both exceed 65535 bytes
        "big" => Some((
            MbmhChunk { entries: vec![MbmhEntry { map_object_id: 31, texture_id: 0, unknown: 1, mbmi_count: 40002, mbnv_count: 1500, mbmi_start: 0, mbnv_start: 0 }] },
            MbbbChunk { entries: vec![MbbbEntry { map_object_id: 31, min: [-9.0; 3], max: [9.0; 3] }] },
            MbnvChunk {
                vertices: (0..1500u32).map(|k| MbnvVertex { position: [k as f32, f(k as usize, 1), -1.0], normal: [0.0, 0.0, 1.0], uv: [k as f32 / 1500.0, 1.0], color: [[k as u8, 1, 2, 3], [4, 5, (k >> 8) as u8, 7], [255, 254, 253, 252]] }).collect(),
            },
            MbmiChunk { indices: (0..40002u32).map(|k| (k * 7 % 1500) as u16).collect() },
        )),
        _ => unreachable!(),
    };
    let blend = blend.or_else(|| (spec.val(S_BLEND) == "two_batches").then(|| {
        (
            MbmhChunk {
                entries: vec![
                    MbmhEntry { map_object_id: 11, texture_id: 0, unknown: 0, mbmi_count: 3, mbnv_count: 3, mbmi_start: 0, mbnv_start: 0 },
                    MbmhEntry { map_object_id: 12, texture_id: 1, unknown: 7, mbmi_count: 6, mbnv_count: 4, mbmi_start: 3, mbnv_start: 3 },
                ],
            },
            MbbbChunk { entries: vec![MbbbEntry { map_object_id: 11, min: [-1.0, -2.0, -3.0], max: [1.0, 2.0, 3.0] }, MbbbEntry { map_object_id: 12, min: [0.0; 3], max: [9.5; 3] }] },
            MbnvChunk {
                vertices: (0..7).map(|k| MbnvVertex { position: [k as f32, 1.0, -0.0], normal: [0.0, 0.0, 1.0], uv: [0.25 * k as f32, 1.0], color: [[k, 1, 2, 3], [4, 5, 6, k], [255, 254, k, 252]] }).collect(),
            },
            MbmiChunk { indices: vec![0, 1, 2, 3, 4, 5, 3, 5, 6] },
        )
    }));
    Input { version: VERSIONS[spec.version].1, textures, models, wmos, doodads, wmo_placements, mcnk, flight_bounds, water, mtxf, mamp, mtxp, blend }
}

// ------------------------------------------------------------------ product alphabets (thorough-only spaces)

pub fn vidx(site: usize, name: &str) -> u8 {
    SITES[site].vals.iter().position(|v| *v == name).unwrap_or_else(|| panic!("site {} has no value {name}", SITES[site].name)) as u8
}

/// Per-chunk product of the `chunks` space: every combination of these values occurs on one terrain
/// chunk (256 consecutive combinations share a tile).  First site varies fastest.
pub const CHUNK_PRODUCT: [(usize, &[&str]); 13] = [
    (S_HEIGHTS, &["off", "on"]),
    (S_NORMALS, &["off", "on"]),
    (S_SHADOW, &["off", "on"]),
    (S_VCOLORS, &["off", "on"]),
    (S_VLIGHT, &["off", "on"]),
    (S_LAYERS, &["none", "one", "four", "empty"]),
    (S_ALPHA, &["none", "mixed", "odd3"]),
    (S_SOUND, &["none", "three"]),
    (S_LIQUID, &["none", "water", "slime"]),
    (S_REFS, &["none", "doodad_only", "doodad_and_wmo", "wmo_only"]),
    (S_SPLITREFS, &["none", "mcrd", "mcrw", "both"]),
    (S_EXTRAS, &["none", "mcmt", "mcdd", "mcbb", "mcmt_mcdd", "mcmt_mcbb", "mcdd_mcbb", "all_three"]),
    (S_CFLAGS, &["none", "impassable_nofix", "high_res_holes"]),
];

pub fn chunk_product_len() -> u64 {
    CHUNK_PRODUCT.iter().map(|(_, v)| v.len() as u64).product()
}

/// Terrain chunks of tile `block` of the `chunks` space: combination `block*256 + i` on chunk `i`.
pub fn product_chunks(tile: &Spec, block: u64, ntex: usize) -> Vec<McnkChunk> {
    let total = chunk_product_len();
    let first = block * 256;
    let n = (total - first).min(256) as usize;
    let radices: Vec<u64> = CHUNK_PRODUCT.iter().map(|(_, v)| v.len() as u64).collect();
    (0..n)
        .map(|i| {
            let mut s = tile.clone();
            s.v[S_STAGGER] = 0;
            let mut c = first + i as u64;
            for ((site, vals), r) in CHUNK_PRODUCT.iter().zip(radices.iter()) {
                s.v[*site] = vidx(*site, vals[(c % r) as usize]);
                c /= r;
            }
            make_chunk(&s, i, n.max(3), ntex)
        })
        .collect()
}

/// Data bytes per MCNK sub-chunk kind that the documented record sizes imply for these chunks
/// (kinds with a fixed, documented record size only).
pub fn expected_sub_data(chunks: &[McnkChunk]) -> BTreeMap<&'static str, usize> {
    let mut m: BTreeMap<&'static str, usize> = BTreeMap::new();
    let mut add = |k: &'static str, n: usize| *m.entry(k).or_insert(0) += n;
    for c in chunks {
        add("MCVT", c.heights.as_ref().map(|x| 4 * x.heights.len()).unwrap_or(0));
        add("MCNR", c.normals.as_ref().map(|x| 3 * x.normals.len() + 13).unwrap_or(0));
        add("MCLY", c.layers.as_ref().map(|x| 16 * x.layers.len()).unwrap_or(0));
        add("MCRF", c.refs.as_ref().map(|x| 4 * x.references.len()).unwrap_or(0));
        add("MCRD", c.doodad_refs.as_ref().map(|x| 4 * x.doodad_refs.len()).unwrap_or(0));
        add("MCRW", c.wmo_refs.as_ref().map(|x| 4 * x.wmo_refs.len()).unwrap_or(0));
        add("MCAL", c.alpha.as_ref().map(|x| x.data.len()).unwrap_or(0));
        add("MCSH", c.shadow.as_ref().map(|x| x.shadow_map.len()).unwrap_or(0));
        add("MCCV", c.vertex_colors.as_ref().map(|x| 4 * x.colors.len()).unwrap_or(0));
        add("MCLV", c.vertex_lighting.as_ref().map(|x| 4 * x.colors.len()).unwrap_or(0));
        add("MCSE", c.sound_emitters.as_ref().map(|x| 28 * x.emitters.len()).unwrap_or(0));
    }
    m
}

// ------------------------------------------------------------------ normalised content

/// section key -> canonical bytes.  Absent and empty sections are both "not in the map".
pub type Content = BTreeMap<String, Vec<u8>>;

struct Enc(Vec<u8>);
impl Enc {
    fn u8(&mut self, x: u8) {
        self.0.push(x)
    }
    fn u16(&mut self, x: u16) {
        self.0.extend(x.to_le_bytes())
    }
    fn u32(&mut self, x: u32) {
        self.0.extend(x.to_le_bytes())
    }
    fn u64(&mut self, x: u64) {
        self.0.extend(x.to_le_bytes())
    }
    fn f32(&mut self, x: f32) {
        self.0.extend(x.to_bits().to_le_bytes())
    }
    fn f3(&mut self, x: &[f32; 3]) {
        for v in x {
            self.f32(*v)
        }
    }
}

fn put(c: &mut Content, key: String, e: Enc) {
    if !e.0.is_empty() {
        c.insert(key, e.0);
    }
}

fn strings(c: &mut Content, key: &str, v: &[String]) {
    let mut e = Enc(vec![]);
    for s in v {
        e.0.extend(s.as_bytes());
        e.u8(0);
    }
    put(c, key.into(), e);
}

pub fn mcnk_content(c: &mut Content, i: usize, m: &McnkChunk) {
    let k = |s: &str| format!("mcnk[{i:03}].{s}");
    let h = &m.header;
    let mut e = Enc(vec![]);
    e.u32(h.flags.value);
    e.u32(h.index_x);
    e.u32(h.index_y);
    e.u32(h.n_doodad_refs);
    e.u32(h.area_id);
    e.u32(h.n_map_obj_refs);
    e.u16(h.holes_low_res);
    e.u16(h.unknown_but_used);
    e.0.extend(h.pred_tex);
    e.0.extend(h.no_effect_doodad);
    e.0.extend(h.unknown_8bytes);
    e.f3(&h.position);
    e.u32(h.unused);
    put(c, k("header"), e);
    if h.flags.high_res_holes() {
        // with this flag the 8 bytes that otherwise hold the MCVT/MCNR offsets are content (hole bitmap)
        put(c, k("high_res_holes"), Enc(h.multipurpose_field.to_vec()));
    }
    if let Some(x) = &m.heights {
        let mut e = Enc(vec![]);
        for v in &x.heights {
            e.f32(*v)
        }
        put(c, k("heights"), e);
    }
    if let Some(x) = &m.normals {
        let mut e = Enc(vec![]);
        for v in &x.normals {
            e.u8(v.x as u8);
            e.u8(v.y as u8);
            e.u8(v.z as u8);
        }
        put(c, k("normals"), e);
    }
    if let Some(x) = &m.layers {
        let mut e = Enc(vec![]);
        for l in &x.layers {
            e.u32(l.texture_id);
            e.u32(l.flags.value);
            e.u32(l.offset_in_mcal);
            e.u32(l.effect_id);
        }
        put(c, k("layers"), e);
    }
    if let Some(x) = &m.materials {
        put(c, k("materials"), Enc(x.material_ids.to_vec()));
    }
    if let Some(x) = &m.refs {
        let mut e = Enc(vec![]);
        for v in &x.references {
            e.u32(*v)
        }
        put(c, k("refs"), e);
    }
    if let Some(x) = &m.doodad_refs {
        let mut e = Enc(vec![]);
        for v in &x.doodad_refs {
            e.u32(*v)
        }
        put(c, k("doodad_refs"), e);
    }
    if let Some(x) = &m.wmo_refs {
        let mut e = Enc(vec![]);
        for v in &x.wmo_refs {
            e.u32(*v)
        }
        put(c, k("wmo_refs"), e);
    }
    if let Some(x) = &m.alpha {
        put(c, k("alpha"), Enc(x.data.clone()));
    }
    if let Some(x) = &m.shadow {
        put(c, k("shadow"), Enc(x.shadow_map.clone()));
    }
    if let Some(x) = &m.vertex_colors {
        let mut e = Enc(vec![]);
        for v in &x.colors {
            e.0.extend([v.r, v.g, v.b, v.a]);
        }
        put(c, k("vertex_colors"), e);
    }
    if let Some(x) = &m.vertex_lighting {
        let mut e = Enc(vec![]);
        for v in &x.colors {
            e.u32(*v)
        }
        put(c, k("vertex_lighting"), e);
    }
    if let Some(x) = &m.sound_emitters {
        let mut e = Enc(vec![]);
        for s in &x.emitters {
            e.u32(s.sound_entry_id);
            e.f3(&s.position);
            e.f3(&s.size_min);
        }
        put(c, k("sound_emitters"), e);
    }
    if let Some(x) = &m.liquid {
        let mut e = Enc(vec![]);
        e.f32(x.min_height);
        e.f32(x.max_height);
        e.u32(x.vertices.len() as u32);
        for v in &x.vertices {
            e.0.extend(v.union_data);
            e.f32(v.height);
        }
        e.0.extend(x.tile_flags);
        e.u8(x.liquid_type as u8);
        put(c, k("liquid"), e);
    }
    if let Some(x) = &m.doodad_disable {
        put(c, k("doodad_disable"), Enc(x.disable.to_vec()));
    }
    if let Some(x) = &m.blend_batches {
        let mut e = Enc(vec![]);
        for b in &x.batches {
            for v in [b.mbmh_index, b.index_count, b.index_first, b.vertex_count, b.vertex_first] {
                e.u32(v)
            }
        }
        put(c, k("blend_batches"), e);
    }
}

fn water_content(c: &mut Content, w: &Mh2oChunk) {
    for (i, en) in w.entries.iter().enumerate() {
        if en.instances.is_empty() && en.attributes.is_none() {
            continue;
        }
        let mut e = Enc(vec![]);
        e.u32(en.instances.len() as u32);
        for (k, inst) in en.instances.iter().enumerate() {
            e.u16(inst.liquid_type);
            e.u16(inst.liquid_object_or_lvf);
            e.f32(inst.min_height_level);
            e.f32(inst.max_height_level);
            e.0.extend([inst.x_offset, inst.y_offset, inst.width, inst.height]);
            match en.exists_bitmaps.get(k).and_then(|b| *b) {
                Some(b) => {
                    e.u8(1);
                    e.u64(b)
                }
                None => e.u8(0),
            }
            match en.vertex_data.get(k).and_then(|v| v.as_ref()) {
                None => e.u8(0xFF),
                Some(VertexDataArray::HeightDepth(g)) => {
                    e.u8(0);
                    for v in g.iter() {
                        match v {
                            Some(v) => {
                                e.u8(1);
                                e.f32(v.height);
                                e.u8(v.depth)
                            }
                            None => e.u8(0),
                        }
                    }
                }
                Some(VertexDataArray::HeightUv(g)) => {
                    e.u8(1);
                    for v in g.iter() {
                        match v {
                            Some(v) => {
                                e.u8(1);
                                e.f32(v.height);
                                e.u16(v.uv.u);
                                e.u16(v.uv.v)
                            }
                            None => e.u8(0),
                        }
                    }
                }
                Some(VertexDataArray::DepthOnly(g)) => {
                    e.u8(2);
                    for v in g.iter() {
                        match v {
                            Some(v) => {
                                e.u8(1);
                                e.u8(v.depth)
                            }
                            None => e.u8(0),
                        }
                    }
                }
                Some(VertexDataArray::HeightUvDepth(g)) => {
                    e.u8(3);
                    for v in g.iter() {
                        match v {
                            Some(v) => {
                                e.u8(1);
                                e.f32(v.height);
                                e.u16(v.uv.u);
                                e.u16(v.uv.v);
                                e.u8(v.depth)
                            }
                            None => e.u8(0),
                        }
                    }
                }
            }
        }
        match &en.attributes {
            Some(a) => {
                e.u8(1);
                e.u64(a.fishable);
                e.u64(a.deep)
            }
            None => e.u8(0),
        }
        put(c, format!("water[{i:03}]"), e);
    }
}

#[allow(clippy::too_many_arguments)]
fn common_content(
    c: &mut Content,
    textures: &[String],
    models: &[String],
    wmos: &[String],
    doodads: &[DoodadPlacement],
    wmo_pl: &[WmoPlacement],
    mfbo: Option<&MfboChunk>,
    water: Option<&Mh2oChunk>,
    mtxf: Option<&MtxfChunk>,
    mamp: Option<&MampChunk>,
    mtxp: Option<&MtxpChunk>,
    blend: (Option<&MbmhChunk>, Option<&MbbbChunk>, Option<&MbnvChunk>, Option<&MbmiChunk>),
) {
    strings(c, "textures", textures);
    strings(c, "models", models);
    strings(c, "wmos", wmos);
    let mut e = Enc(vec![]);
    for p in doodads {
        e.u32(p.name_id);
        e.u32(p.unique_id);
        e.f3(&p.position);
        e.f3(&p.rotation);
        e.u16(p.scale);
        e.u16(p.flags);
    }
    put(c, "doodad_placements".into(), e);
    let mut e = Enc(vec![]);
    for p in wmo_pl {
        e.u32(p.name_id);
        e.u32(p.unique_id);
        e.f3(&p.position);
        e.f3(&p.rotation);
        e.f3(&p.extents_min);
        e.f3(&p.extents_max);
        e.u16(p.flags);
        e.u16(p.doodad_set);
        e.u16(p.name_set);
        e.u16(p.scale);
    }
    put(c, "wmo_placements".into(), e);
    if let Some(m) = mfbo {
        let mut e = Enc(vec![]);
        for v in m.max_plane.iter().chain(m.min_plane.iter()) {
            e.u16(*v as u16)
        }
        put(c, "flight_bounds".into(), e);
    }
    if let Some(w) = water {
        water_content(c, w);
    }
    if let Some(m) = mtxf {
        let mut e = Enc(vec![]);
        for v in &m.flags {
            e.u32(*v)
        }
        put(c, "texture_flags".into(), e);
    }
    if let Some(m) = mamp {
        let mut e = Enc(vec![]);
        e.u8(1);
        e.u32(m.amplifier);
        put(c, "texture_amplifier".into(), e);
    }
    if let Some(m) = mtxp {
        let mut e = Enc(vec![]);
        for p in &m.entries {
            e.u32(p.flags);
            e.f32(p.height_scale);
            e.f32(p.height_offset);
            e.u32(p.padding);
        }
        put(c, "texture_params".into(), e);
    }
    if let Some(m) = blend.0 {
        let mut e = Enc(vec![]);
        for x in &m.entries {
            for v in [x.map_object_id, x.texture_id, x.unknown, x.mbmi_count, x.mbnv_count, x.mbmi_start, x.mbnv_start] {
                e.u32(v)
            }
        }
        put(c, "blend_mesh_headers".into(), e);
    }
    if let Some(m) = blend.1 {
        let mut e = Enc(vec![]);
        for x in &m.entries {
            e.u32(x.map_object_id);
            e.f3(&x.min);
            e.f3(&x.max);
        }
        put(c, "blend_mesh_bounds".into(), e);
    }
    if let Some(m) = blend.2 {
        let mut e = Enc(vec![]);
        for x in &m.vertices {
            e.f3(&x.position);
            e.f3(&x.normal);
            e.f32(x.uv[0]);
            e.f32(x.uv[1]);
            for col in &x.color {
                e.0.extend(col)
            }
        }
        put(c, "blend_mesh_vertices".into(), e);
    }
    if let Some(m) = blend.3 {
        let mut e = Enc(vec![]);
        for x in &m.indices {
            e.u16(*x)
        }
        put(c, "blend_mesh_indices".into(), e);
    }
}

pub fn input_content(i: &Input) -> Content {
    let mut c = Content::new();
    common_content(
        &mut c,
        &i.textures,
        &i.models,
        &i.wmos,
        &i.doodads,
        &i.wmo_placements,
        i.flight_bounds.as_ref(),
        i.water.as_ref(),
        i.mtxf.as_ref(),
        i.mamp.as_ref(),
        i.mtxp.as_ref(),
        (i.blend.as_ref().map(|b| &b.0), i.blend.as_ref().map(|b| &b.1), i.blend.as_ref().map(|b| &b.2), i.blend.as_ref().map(|b| &b.3)),
    );
    if let Some(m) = &i.mcnk {
        c.insert("mcnk_count".into(), (m.len() as u32).to_le_bytes().to_vec());
        for (k, ch) in m.iter().enumerate() {
            mcnk_content(&mut c, k, ch);
        }
    }
    c
}

pub fn root_content(r: &RootAdt) -> Content {
    let mut c = Content::new();
    common_content(
        &mut c,
        &r.textures,
        &r.models,
        &r.wmos,
        &r.doodad_placements,
        &r.wmo_placements,
        r.flight_bounds.as_ref(),
        r.water_data.as_ref(),
        r.texture_flags.as_ref(),
        r.texture_amplifier.as_ref(),
        r.texture_params.as_ref(),
        (r.blend_mesh_headers.as_ref(), r.blend_mesh_bounds.as_ref(), r.blend_mesh_vertices.as_ref(), r.blend_mesh_indices.as_ref()),
    );
    c.insert("mcnk_count".into(), (r.mcnk_chunks.len() as u32).to_le_bytes().to_vec());
    for (k, ch) in r.mcnk_chunks.iter().enumerate() {
        mcnk_content(&mut c, k, ch);
    }
    c
}

/// Class of a section key: index stripped ("mcnk[003].heights" -> "MCNK heights").
pub fn key_class(k: &str) -> String {
    if let Some(rest) = k.strip_prefix("mcnk[") {
        let name = rest.split("].").nth(1).unwrap_or("");
        format!("MCNK {name}")
    } else if k.starts_with("water[") {
        "MH2O water entry".into()
    } else {
        k.to_string()
    }
}

/// Differences between two contents as (class, detail); at most one per class.
pub fn diff(a: &Content, b: &Content, what_a: &str, what_b: &str) -> Vec<(String, String)> {
    // class = "<verb> <section class>", verb in loses / invents / extends (a is a proper prefix of b) /
    // truncates / alters (seen from a to b)
    let mut out: Vec<(String, String)> = vec![];
    let mut keys: Vec<&String> = a.keys().chain(b.keys()).collect();
    keys.sort();
    keys.dedup();
    for k in keys {
        let (x, y) = (a.get(k), b.get(k));
        if x == y {
            continue;
        }
        let verb = match (x, y) {
            (Some(_), None) => "loses",
            (None, Some(_)) => "invents",
            (Some(x), Some(y)) if y.len() > x.len() && y[..x.len()] == x[..] => "extends",
            (Some(x), Some(y)) if x.len() > y.len() && x[..y.len()] == y[..] => "truncates",
            _ => "alters",
        };
        let cls = format!("{verb} {}", key_class(k));
        if out.iter().any(|o| o.0 == cls) {
            continue;
        }
        let d = match (x, y) {
            (Some(x), None) => format!("{k}: present in {what_a} ({} bytes), absent in {what_b}", x.len()),
            (None, Some(y)) => format!("{k}: absent in {what_a}, present in {what_b} ({} bytes)", y.len()),
            (Some(x), Some(y)) => {
                let p = x.iter().zip(y.iter()).position(|(p, q)| p != q).unwrap_or(x.len().min(y.len()));
                let show = |v: &Vec<u8>| format!("{:02x?}", &v[p.min(v.len())..(p + 8).min(v.len())]);
                format!("{k}: {what_a} has {} canonical bytes, {what_b} has {}; first difference at byte {p}: {} vs {}", x.len(), y.len(), show(x), show(y))
            }
            _ => unreachable!(),
        };
        out.push((cls, d));
    }
    out
}
