//! Independent ADT chunk walker (shares no code with wow-adt).
//!
//! Written from the format description in /repo/docs/src/formats/world-data/adt.md and the
//! public ADT/v18 layout it references: a file is a sequence of `[fourcc:4][size:u32le][data]`
//! records, the FourCC is stored byte-reversed on disk ("MVER" is `REVM`).  MHDR holds eleven
//! offsets (relative to the start of the MHDR *data*), MCIN holds 256 `(offset,size,flags,async)`
//! records with absolute offsets, every MCNK starts with a 128-byte header that holds
//! offsets of its sub-chunks.
//!
//! Where the documentation in /repo/docs and the public layout disagree (MCNK sub-offsets
//! relative to the chunk start vs. the data start; MCIN size with or without the 8 header bytes),
//! BOTH conventions are accepted, but one file must use one convention throughout.

use std::collections::BTreeMap;

#[derive(Clone, Debug)]
pub struct Chunk {
    /// FourCC in natural reading order, e.g. *b"MVER"
    pub id: [u8; 4],
    /// absolute offset of the chunk header
    pub off: usize,
    /// data size (without the 8 header bytes)
    pub size: usize,
}
impl Chunk {
    pub fn name(&self) -> String {
        fourcc_name(&self.id)
    }
    pub fn data<'a>(&self, b: &'a [u8]) -> &'a [u8] {
        &b[self.off + 8..self.off + 8 + self.size]
    }
}

pub fn fourcc_name(id: &[u8; 4]) -> String {
    id.iter().map(|&c| if c.is_ascii_graphic() { c as char } else { '?' }).collect()
}

fn u32_at(b: &[u8], p: usize) -> u32 {
    u32::from_le_bytes([b[p], b[p + 1], b[p + 2], b[p + 3]])
}

fn is_fourcc(id: &[u8; 4]) -> bool {
    id.iter().all(|c| c.is_ascii_uppercase() || c.is_ascii_digit())
}

pub type Problem = (String, String);

#[derive(Default, Debug)]
pub struct Report {
    pub top: Vec<Chunk>,
    pub problems: Vec<Problem>,
    /// total bytes (header + data) per top-level FourCC, MCNK excluded
    pub top_bytes: BTreeMap<String, usize>,
    /// total bytes per MCNK sub-chunk FourCC, summed over all MCNK
    pub sub_bytes: BTreeMap<String, usize>,
    /// data bytes (headers not counted) per MCNK sub-chunk FourCC, summed over all MCNK
    pub sub_data: BTreeMap<String, usize>,
    pub mcnk_count: usize,
    /// FourCC of the last sub-chunk of the last MCNK ("" when none)
    pub last_sub: String,
    pub offsets_checked: u64,
    /// "chunk" or "data": base of MCNK sub-offsets used by this file ("" = no sub-offset seen)
    pub sub_base: &'static str,
    /// "data" or "data+8": what MCIN sizes count
    pub mcin_size_conv: &'static str,
}

impl Report {
    fn p(&mut self, s: impl Into<String>, d: impl Into<String>) {
        let s = s.into();
        if self.problems.len() < 12 && !self.problems.iter().any(|x| x.0 == s) {
            self.problems.push((s, d.into()));
        }
    }
}

/// Walk `[fourcc][size][data]` records in `b[from..to]`. Ok(list) iff they tile the range exactly.
fn walk_range(b: &[u8], from: usize, to: usize) -> Result<Vec<Chunk>, (Vec<Chunk>, String)> {
    let mut out = vec![];
    let mut pos = from;
    while pos < to {
        if pos + 8 > to {
            return Err((out, format!("{} stray byte(s) at {:#x}, too short for a chunk header", to - pos, pos)));
        }
        let id = [b[pos + 3], b[pos + 2], b[pos + 1], b[pos]];
        let size = u32_at(b, pos + 4) as usize;
        if !is_fourcc(&id) {
            return Err((out, format!("bytes {:02x?} at {:#x} are not a FourCC", &b[pos..pos + 4], pos)));
        }
        if pos + 8 + size > to {
            return Err((out, format!("chunk {} at {:#x} with size {} ends at {:#x}, past {:#x}", fourcc_name(&id), pos, size, pos + 8 + size, to)));
        }
        out.push(Chunk { id, off: pos, size });
        pos += 8 + size;
    }
    Ok(out)
}

const MHDR_SLOTS: [&[u8; 4]; 11] =
    [b"MCIN", b"MTEX", b"MMDX", b"MMID", b"MWMO", b"MWID", b"MDDF", b"MODF", b"MFBO", b"MH2O", b"MTXF"];

/// (header field position inside the 128-byte MCNK header, expected FourCC(s))
const MCNK_SLOTS: [(usize, &[&[u8; 4]]); 10] = [
    (0x14, &[b"MCVT"]),
    (0x18, &[b"MCNR"]),
    (0x1C, &[b"MCLY"]),
    (0x20, &[b"MCRF", b"MCRD", b"MCRW"]),
    (0x24, &[b"MCAL"]),
    (0x2C, &[b"MCSH"]),
    (0x58, &[b"MCSE"]),
    (0x60, &[b"MCLQ"]),
    (0x74, &[b"MCCV"]),
    (0x78, &[b"MCLV"]),
];

pub fn inspect(b: &[u8]) -> Report {
    let mut r = Report::default();
    // ---- top-level framing
    match walk_range(b, 0, b.len()) {
        Ok(v) => r.top = v,
        Err((v, why)) => {
            r.top = v;
            r.p("chunk framing does not tile the file exactly", why);
        }
    }
    let top = r.top.clone();
    for c in &top {
        if &c.id != b"MCNK" {
            *r.top_bytes.entry(c.name()).or_insert(0) += 8 + c.size;
        }
    }
    if top.first().map(|c| &c.id != b"MVER").unwrap_or(true) {
        r.p("file does not start with an MVER chunk", format!("first chunk: {:?}", top.first().map(|c| c.name())));
    }
    let find = |id: &[u8; 4]| top.iter().filter(|c| &c.id == id).collect::<Vec<_>>();

    // ---- MHDR offset table
    let mh = find(b"MHDR");
    if mh.len() != 1 {
        r.p("file does not contain exactly one MHDR chunk", format!("{} found", mh.len()));
    } else if mh[0].size < 64 {
        r.p("MHDR chunk is shorter than 64 bytes", format!("size {}", mh[0].size));
    } else {
        let base = mh[0].off + 8;
        for (k, want) in MHDR_SLOTS.iter().enumerate() {
            let ofs = u32_at(b, base + 4 + 4 * k) as usize;
            let nm = fourcc_name(want);
            let present = find(want);
            if ofs == 0 {
                if !present.is_empty() {
                    r.p(
                        format!("MHDR offset for {nm} is zero although a {nm} chunk is present"),
                        format!("{nm} chunk at {:#x}", present[0].off),
                    );
                }
                continue;
            }
            r.offsets_checked += 1;
            let target = base + ofs;
            match top.iter().find(|c| c.off == target) {
                Some(c) if &c.id == *want => {}
                Some(c) => r.p(
                    format!("MHDR offset for {nm} does not point at a {nm} chunk"),
                    format!("slot {k} = {:#x} -> file {:#x} is the start of chunk {}", ofs, target, c.name()),
                ),
                None => r.p(
                    format!("MHDR offset for {nm} does not point at a {nm} chunk"),
                    format!("slot {k} = {:#x} -> file {:#x} is not the start of any chunk (file len {:#x})", ofs, target, b.len()),
                ),
            }
        }
    }

    // ---- MCIN
    let mcnk: Vec<&Chunk> = find(b"MCNK");
    r.mcnk_count = mcnk.len();
    let mc = find(b"MCIN");
    if mc.len() != 1 {
        r.p("file does not contain exactly one MCIN chunk", format!("{} found", mc.len()));
    } else if mc[0].size < 4096 {
        r.p("MCIN chunk is shorter than 256 entries", format!("size {}", mc[0].size));
    } else {
        let base = mc[0].off + 8;
        let mut hit = vec![false; mcnk.len()];
        let mut nonzero = 0usize;
        let (mut conv_data, mut conv_full) = (0usize, 0usize);
        for i in 0..256 {
            let ofs = u32_at(b, base + 16 * i) as usize;
            let size = u32_at(b, base + 16 * i + 4) as usize;
            if ofs == 0 && size == 0 {
                continue;
            }
            nonzero += 1;
            r.offsets_checked += 1;
            match mcnk.iter().position(|c| c.off == ofs) {
                Some(k) => {
                    if hit[k] {
                        r.p("two MCIN entries point at the same MCNK chunk", format!("entry {i} -> {:#x}", ofs));
                    }
                    hit[k] = true;
                    if size == mcnk[k].size {
                        conv_data += 1;
                    } else if size == mcnk[k].size + 8 {
                        conv_full += 1;
                    } else {
                        r.p(
                            "MCIN entry size matches neither the MCNK data size nor data size plus header",
                            format!("entry {i}: size {} but MCNK at {:#x} has data size {}", size, ofs, mcnk[k].size),
                        );
                    }
                }
                None => {
                    let what = top.iter().find(|c| c.off == ofs).map(|c| format!("start of chunk {}", c.name())).unwrap_or("not a chunk start".into());
                    r.p("MCIN entry does not point at an MCNK chunk", format!("entry {i}: offset {:#x} is {}", ofs, what));
                }
            }
        }
        if conv_data > 0 && conv_full > 0 {
            r.p("MCIN entry sizes mix two conventions (with and without chunk header)", format!("{conv_data} without, {conv_full} with"));
        }
        r.mcin_size_conv = if conv_full > 0 { "data+8" } else { "data" };
        if nonzero != mcnk.len().min(256) {
            r.p(
                "number of non-empty MCIN entries differs from the number of MCNK chunks",
                format!("{} entries, {} MCNK chunks", nonzero, mcnk.len()),
            );
        }
    }

    // ---- MCNK header sub-offsets and inner framing
    let (mut base_chunk, mut base_data) = (0u64, 0u64);
    for (ci, c) in mcnk.iter().enumerate() {
        if c.size < 128 {
            r.p("MCNK chunk is shorter than its 128-byte header", format!("MCNK #{ci} size {}", c.size));
            continue;
        }
        let h = c.off + 8;
        let end = c.off + 8 + c.size;
        let flags = u32_at(b, h);
        let holes_in_offsets = flags & 0x10000 != 0 || flags & 0x200 != 0;
        let mut first_sub = usize::MAX;
        for (pos, wants) in MCNK_SLOTS.iter() {
            if holes_in_offsets && (*pos == 0x14 || *pos == 0x18) {
                continue;
            }
            let ofs = u32_at(b, h + pos) as usize;
            if ofs == 0 {
                continue;
            }
            r.offsets_checked += 1;
            let nm = fourcc_name(wants[0]);
            let ok_at = |t: usize| -> bool {
                t >= h + 128 && t + 8 <= end && {
                    let id = [b[t + 3], b[t + 2], b[t + 1], b[t]];
                    wants.iter().any(|w| **w == id)
                }
            };
            let t_chunk = c.off + ofs;
            let t_data = h + ofs;
            if ok_at(t_chunk) {
                base_chunk += 1;
                first_sub = first_sub.min(t_chunk);
            } else if ok_at(t_data) {
                base_data += 1;
                first_sub = first_sub.min(t_data);
            } else {
                let seen = if t_chunk + 4 <= b.len() { format!("{:02x?}", &b[t_chunk..t_chunk + 4]) } else { "past end of file".into() };
                r.p(
                    format!("MCNK header offset for {nm} does not point at a {nm} sub-chunk"),
                    format!("MCNK #{ci} at {:#x} (size {}): field {:#x} = {:#x}; bytes there: {}", c.off, c.size, pos, ofs, seen),
                );
            }
        }
        // inner framing: from the first sub-chunk (or right after the header, tolerating up to 8
        // zero bytes of header padding) the sub-chunks must tile the rest of the MCNK.
        // With the high-res-holes flag the MCVT/MCNR offsets are not in the header, so the lowest
        // header offset need not be the first sub-chunk: scan from the header end in that case too.
        let mut start = h + 128;
        if first_sub != usize::MAX && !holes_in_offsets {
            start = first_sub;
        } else {
            let mut skipped = 0;
            while skipped < 8 && start + 4 <= end && b[start..start + 4] == [0, 0, 0, 0] {
                start += 4;
                skipped += 4;
            }
            start = start.min(first_sub);
        }
        let size_liquid = u32_at(b, h + 0x64) as usize;
        let mut pos = start;
        let mut last = String::new();
        let mut bad: Option<String> = None;
        while pos < end {
            if pos + 8 > end {
                bad = Some(format!("{} stray byte(s) at {:#x}", end - pos, pos));
                break;
            }
            let id = [b[pos + 3], b[pos + 2], b[pos + 1], b[pos]];
            let mut size = u32_at(b, pos + 4) as usize;
            if !is_fourcc(&id) {
                bad = Some(format!("bytes {:02x?} at {:#x} are not a FourCC", &b[pos..pos + 4], pos));
                break;
            }
            // documented quirks of original files: MCNR counts 435 bytes but is followed by 13 more;
            // MCLQ may carry size 0 with the real size in the MCNK header
            if &id == b"MCNR" && size == 435 {
                size = 448;
            }
            if &id == b"MCLQ" && size == 0 && size_liquid >= 8 {
                size = size_liquid - 8;
            }
            if pos + 8 + size > end {
                bad = Some(format!("sub-chunk {} at {:#x} size {} runs past the MCNK end {:#x}", fourcc_name(&id), pos, size, end));
                break;
            }
            last = fourcc_name(&id);
            *r.sub_bytes.entry(last.clone()).or_insert(0) += 8 + size;
            *r.sub_data.entry(last.clone()).or_insert(0) += size;
            pos += 8 + size;
        }
        if let Some(why) = bad {
            r.p("MCNK sub-chunk framing does not tile the MCNK chunk", format!("MCNK #{ci} at {:#x}: {}", c.off, why));
        }
        if ci + 1 == mcnk.len() {
            r.last_sub = last;
        }
    }
    if base_chunk > 0 && base_data > 0 {
        r.p(
            "MCNK header offsets mix two bases (chunk start and data start)",
            format!("{base_chunk} relative to chunk start, {base_data} relative to data start"),
        );
    }
    r.sub_base = if base_chunk > 0 { "chunk" } else if base_data > 0 { "data" } else { "" };

    // ---- MMID / MWID: offsets of name starts inside MMDX / MWMO
    for (idx, names) in [(b"MMID", b"MMDX"), (b"MWID", b"MWMO")] {
        let (i, n) = (find(idx), find(names));
        if i.len() == 1 && n.len() == 1 {
            let nd = n[0].data(b);
            let id = i[0].data(b);
            let inm = fourcc_name(idx);
            let nnm = fourcc_name(names);
            if id.len() % 4 != 0 {
                r.p(format!("{inm} size is not a multiple of 4"), format!("{}", id.len()));
            }
            for k in 0..id.len() / 4 {
                let v = u32_at(id, 4 * k) as usize;
                r.offsets_checked += 1;
                if v >= nd.len() || (v > 0 && nd[v - 1] != 0) || nd[v] == 0 {
                    r.p(
                        format!("{inm} entry does not point at the start of a name in {nnm}"),
                        format!("entry {k} = {v}, {nnm} has {} bytes", nd.len()),
                    );
                }
            }
        }
    }
    r
}

/// NUL-separated names of a top-level string chunk, read from the raw bytes.
pub fn raw_names(b: &[u8], rep: &Report, id: &[u8; 4]) -> Option<Vec<Vec<u8>>> {
    let c = rep.top.iter().find(|c| &c.id == id)?;
    let d = c.data(b);
    let mut out = vec![];
    let mut cur = vec![];
    for &x in d {
        if x == 0 {
            out.push(std::mem::take(&mut cur));
        } else {
            cur.push(x);
        }
    }
    if !cur.is_empty() {
        out.push(cur);
    }
    Some(out)
}

pub fn raw_size(rep: &Report, id: &[u8; 4]) -> Option<usize> {
    rep.top.iter().find(|c| &c.id == id).map(|c| c.size)
}
