//! Deterministic input generators: a WMO root / group is a pure function of a level vector.
use std::collections::{BTreeSet, HashMap};
use wow_wmo::wmo_group_types::{WmoGroup, WmoGroupHeader, WmoLiquid, WmoLiquidVertex, WmoPlane};
use wow_wmo::*;

pub const VERSIONS: [WmoVersion; 5] =
    [WmoVersion::Classic, WmoVersion::Tbc, WmoVersion::Wotlk, WmoVersion::Cataclysm, WmoVersion::Mop];
pub fn vname(v: WmoVersion) -> &'static str {
    match v {
        WmoVersion::Classic => "Classic",
        WmoVersion::Tbc => "Tbc",
        WmoVersion::Wotlk => "Wotlk",
        WmoVersion::Cataclysm => "Cataclysm",
        WmoVersion::Mop => "Mop",
        _ => "post-Mop",
    }
}

// ------------------------------------------------------------------ level-vector enumeration

pub struct Site {
    pub name: &'static str,
    pub levels: &'static [&'static str],
}

pub const ROOT_SITES: [Site; 11] = [
    Site { name: "textures", levels: &["none", "one", "non_ascii", "many"] },
    Site { name: "materials", levels: &["none", "one", "many"] },
    Site { name: "groups", levels: &["none", "one", "many", "dups"] },
    Site { name: "portals", levels: &["none", "one", "many"] },
    Site { name: "portal_refs", levels: &["none", "one", "many"] },
    Site { name: "visible_lists", levels: &["none", "one", "many"] },
    Site { name: "lights", levels: &["none", "one", "many"] },
    Site { name: "doodad_defs", levels: &["none", "one", "many"] },
    Site { name: "doodad_sets", levels: &["none", "one", "many"] },
    Site { name: "skybox", levels: &["none", "some"] },
    Site { name: "header", levels: &["plain", "rich", "custom_bounds"] },
];

pub const GROUP_SITES: [Site; 10] = [
    Site { name: "vertices", levels: &["none", "one", "many"] },
    Site { name: "normals", levels: &["none", "one", "many"] },
    Site { name: "tex_coords", levels: &["none", "one", "many"] },
    Site { name: "indices", levels: &["none", "one", "many"] },
    Site { name: "batches", levels: &["none", "one", "many"] },
    Site { name: "bsp_nodes", levels: &["none", "one", "many"] },
    Site { name: "vertex_colors", levels: &["none", "one", "many"] },
    Site { name: "liquid", levels: &["none", "one", "many"] },
    Site { name: "doodad_refs", levels: &["none", "one", "many"] },
    Site { name: "header", levels: &["plain", "rich"] },
];

/// Level vectors with at most `k` sites deviating from the all-lowest ("empty") baseline and from
/// the all-highest ("full") baseline; `k >= number of sites` gives the full product.
/// Ordered simplest first (fewest populated sites, then lowest levels).
pub fn configs(sites: &[Site], k: usize) -> Vec<Vec<u8>> {
    let n = sites.len();
    let mut out: BTreeSet<Vec<u8>> = BTreeSet::new();
    if k >= n {
        let total: u64 = sites.iter().map(|s| s.levels.len() as u64).product();
        for mut i in 0..total {
            let mut v = Vec::with_capacity(n);
            for s in sites {
                let r = s.levels.len() as u64;
                v.push((i % r) as u8);
                i /= r;
            }
            out.insert(v);
        }
    } else {
        let empty: Vec<u8> = vec![0; n];
        let full: Vec<u8> = sites.iter().map(|s| (s.levels.len() - 1) as u8).collect();
        for base in [&empty, &full] {
            fn rec(sites: &[Site], base: &[u8], cur: &mut Vec<u8>, from: usize, left: usize, out: &mut BTreeSet<Vec<u8>>) {
                out.insert(cur.clone());
                if left == 0 {
                    return;
                }
                for s in from..sites.len() {
                    for l in 0..sites[s].levels.len() as u8 {
                        if l == base[s] {
                            continue;
                        }
                        cur[s] = l;
                        rec(sites, base, cur, s + 1, left - 1, out);
                    }
                    cur[s] = base[s];
                }
            }
            let mut cur = base.clone();
            rec(sites, base, &mut cur, 0, k, &mut out);
        }
    }
    let mut v: Vec<Vec<u8>> = out.into_iter().collect();
    v.sort_by_key(|c| {
        (c.iter().filter(|&&l| l != 0).count(), c.iter().map(|&l| l as u32).sum::<u32>(), c.iter().rev().cloned().collect::<Vec<u8>>())
    });
    v
}

// ------------------------------------------------------------------ helpers

pub fn v3(x: f32, y: f32, z: f32) -> Vec3 {
    Vec3 { x, y, z }
}
fn col(r: u8, g: u8, b: u8, a: u8) -> Color {
    Color { r, g, b, a }
}
fn bbox(a: (f32, f32, f32), b: (f32, f32, f32)) -> BoundingBox {
    BoundingBox { min: v3(a.0, a.1, a.2), max: v3(b.0, b.1, b.2) }
}

/// byte offset of string `k` in a NUL-separated table built from `strings`
pub fn table_offset(strings: &[String], k: usize) -> u32 {
    strings[..k].iter().map(|s| s.len() as u32 + 1).sum()
}

// ------------------------------------------------------------------ root

pub fn root_textures(l: u8) -> Vec<String> {
    match l {
        0 => vec![],
        1 => vec!["a.blp".into()],
        2 => vec!["tex\\m\u{fc}hle.blp".into(), "b.blp".into()],
        _ => vec![
            "dungeons\\textures\\wall.blp".into(),
            "dungeons\\textures\\wall_s.blp".into(),
            "wall.blp".into(),
            "t.blp".into(),
        ],
    }
}

/// texture index referenced by (material i, slot) — also used by the oracle
pub fn material_texture_ref(i: usize, slot: usize, ntex: usize) -> Option<usize> {
    if ntex == 0 {
        None
    } else {
        Some((i * 2 + slot * 3 + 1) % ntex)
    }
}

fn root_materials(l: u8, textures: &[String]) -> Vec<WmoMaterial> {
    let n = [0usize, 1, 3][l as usize];
    let f = |i: usize| -> WmoMaterialFlags {
        match i {
            0 => WmoMaterialFlags::UNLIT | WmoMaterialFlags::UNUSED3,
            1 => WmoMaterialFlags::empty(),
            _ => WmoMaterialFlags::TWO_SIDED | WmoMaterialFlags::CLAMP_S | WmoMaterialFlags::SHADOW_BATCH_1 | WmoMaterialFlags::SHADOW_BATCH_2,
        }
    };
    (0..n)
        .map(|i| {
            let t = |slot| material_texture_ref(i, slot, textures.len()).map(|k| table_offset(textures, k)).unwrap_or(0);
            WmoMaterial {
                flags: f(i),
                shader: [0u32, 6, 0x0102_0304][i],
                blend_mode: [1u32, 0, 0xFFFF_FFFE][i],
                texture1: t(0),
                emissive_color: [col(255, 0, 128, 7), col(0, 0, 0, 0), col(1, 2, 3, 4)][i],
                sidn_color: [col(9, 8, 7, 6), col(255, 255, 255, 255), col(0, 1, 0, 1)][i],
                framebuffer_blend: Color::default(),
                texture2: t(1),
                diffuse_color: [col(10, 20, 30, 40), col(0, 0, 0, 255), col(200, 100, 50, 25)][i],
                ground_type: [0u32, 5, 0x7FFF_FFFF][i],
            }
        })
        .collect()
}

fn root_groups(l: u8) -> Vec<WmoGroupInfo> {
    let names: &[&str] = match l {
        0 => &[],
        1 => &["antechamber"],
        2 => &["hall", "hall_upper", "ha"],
        _ => &["room", "room", "attic"],
    };
    names
        .iter()
        .enumerate()
        .map(|(i, n)| WmoGroupInfo {
            flags: [
                WmoGroupFlags::INDOOR | WmoGroupFlags::HAS_NORMALS,
                WmoGroupFlags::empty(),
                WmoGroupFlags::HAS_WATER | WmoGroupFlags::EXTERIOR_BSP | WmoGroupFlags::HAS_BASE_VERTICES,
            ][i],
            bounding_box: [
                bbox((-1.0, -2.0, -3.0), (4.0, 5.0, 6.0)),
                bbox((-10.5, 0.25, -0.125), (-9.5, 100.0, 7.75)),
                bbox((0.0, 0.0, 0.0), (0.5, 1024.0, 3.0)),
            ][i],
            name: n.to_string(),
        })
        .collect()
}

fn root_portals(l: u8) -> Vec<WmoPortal> {
    let quad = WmoPortal {
        vertices: vec![v3(0.0, 0.0, 0.0), v3(1.0, 0.0, 0.0), v3(1.0, 0.0, 2.0), v3(0.0, 0.0, 2.0)],
        normal: v3(0.0, 1.0, 0.0),
    };
    match l {
        0 => vec![],
        1 => vec![quad],
        _ => vec![
            quad,
            WmoPortal { vertices: vec![], normal: v3(1.0, 0.0, 0.0) },
            WmoPortal { vertices: vec![v3(5.0, 6.0, 7.0), v3(-5.5, 6.0, 7.0), v3(5.0, -6.25, 7.0)], normal: v3(0.0, 0.0, -1.0) },
        ],
    }
}

fn root_portal_refs(l: u8) -> Vec<WmoPortalReference> {
    let all = [
        WmoPortalReference { portal_index: 0, group_index: 1, side: 1 },
        WmoPortalReference { portal_index: 2, group_index: 0, side: 0xFFFF },
        WmoPortalReference { portal_index: 0x1234, group_index: 0xFFFE, side: 0 },
    ];
    all[..[0usize, 1, 3][l as usize]].to_vec()
}

fn root_visible(l: u8) -> Vec<Vec<u16>> {
    match l {
        0 => vec![],
        1 => vec![vec![0]],
        _ => vec![vec![1, 2, 3], vec![], vec![7, 0xFFFE]],
    }
}

fn root_lights(l: u8) -> Vec<WmoLight> {
    let mk = |t: WmoLightType, i: usize| WmoLight {
        light_type: t,
        position: v3(1.5 + i as f32, -2.25, 3.0 * i as f32),
        color: [col(255, 128, 64, 32), col(1, 2, 3, 4), col(0, 0, 0, 0), col(250, 251, 252, 253)][i],
        intensity: [1.0f32, 0.5, 0.0, 12.75][i],
        rotation: [[0.0f32, 0.0, 0.0, 1.0], [0.5, 0.5, 0.5, 0.5], [1.0, 0.0, 0.0, 0.0], [-0.25, 0.75, 0.0, 0.5]][i],
        attenuation_start: [0.0f32, 1.25, 3.0, 100.0][i],
        attenuation_end: [10.0f32, 2.5, 3.5, 1000.0][i],
        use_attenuation: i % 2 == 0,
        properties: match t {
            WmoLightType::Omni => WmoLightProperties::Omni,
            WmoLightType::Ambient => WmoLightProperties::Ambient,
            WmoLightType::Spot => WmoLightProperties::Spot { direction: v3(0.0, 0.0, -1.0), hotspot: 0.0, falloff: 0.0 },
            WmoLightType::Directional => WmoLightProperties::Directional { direction: v3(0.0, 0.0, -1.0) },
        },
    };
    match l {
        0 => vec![],
        1 => vec![mk(WmoLightType::Spot, 1)],
        _ => vec![mk(WmoLightType::Omni, 0), mk(WmoLightType::Spot, 1), mk(WmoLightType::Directional, 2), mk(WmoLightType::Ambient, 3)],
    }
}

fn root_doodad_defs(l: u8) -> Vec<WmoDoodadDef> {
    // name offsets as they would come from a parsed file whose MODN holds
    // "world\\chair.m2\0" (15 bytes), "world\\generic\\barrel01.m2\0" (26 bytes), "w\\x.m2\0"
    let offs = [0u32, 15, 41];
    let n = [0usize, 1, 3][l as usize];
    (0..n)
        .map(|i| WmoDoodadDef {
            name_offset: if n == 1 { 15 } else { offs[i] },
            position: v3(10.0 * i as f32, -0.5, 2.0),
            orientation: [[0.0f32, 0.0, 0.0, 1.0], [0.0, 0.7071068, 0.0, 0.7071068], [0.5, -0.5, 0.5, -0.5]][i],
            scale: [1.0f32, 0.5, 2.25][i],
            color: [col(255, 255, 255, 255), col(1, 2, 3, 4), col(0, 128, 0, 200)][i],
            set_index: 0,
        })
        .collect()
}

fn root_doodad_sets(l: u8) -> Vec<WmoDoodadSet> {
    match l {
        0 => vec![],
        1 => vec![WmoDoodadSet { name: "Set_$DefaultGlobal".into(), start_doodad: 0, n_doodads: 3 }],
        _ => vec![
            WmoDoodadSet { name: "Set_$DefaultGlobal".into(), start_doodad: 0, n_doodads: 1 },
            WmoDoodadSet { name: "Set_nineteen_chars_".into(), start_doodad: 1, n_doodads: 2 },
            WmoDoodadSet { name: "a".into(), start_doodad: 0x0102_0304, n_doodads: 0 },
        ],
    }
}

pub fn union_box(groups: &[WmoGroupInfo]) -> BoundingBox {
    if groups.is_empty() {
        return bbox((0.0, 0.0, 0.0), (0.0, 0.0, 0.0));
    }
    let mut b = groups[0].bounding_box;
    for g in groups {
        let o = g.bounding_box;
        b.min = v3(b.min.x.min(o.min.x), b.min.y.min(o.min.y), b.min.z.min(o.min.z));
        b.max = v3(b.max.x.max(o.max.x), b.max.y.max(o.max.y), b.max.z.max(o.max.z));
    }
    b
}

/// cfg indices follow ROOT_SITES
pub fn build_root(cfg: &[u8], version: WmoVersion) -> WmoRoot {
    let textures = root_textures(cfg[0]);
    let materials = root_materials(cfg[1], &textures);
    let groups = root_groups(cfg[2]);
    let portals = root_portals(cfg[3]);
    let portal_references = root_portal_refs(cfg[4]);
    let visible_block_lists = root_visible(cfg[5]);
    let lights = root_lights(cfg[6]);
    let doodad_defs = root_doodad_defs(cfg[7]);
    let doodad_sets = root_doodad_sets(cfg[8]);
    let skybox = if cfg[9] == 1 { Some("environments\\stars\\deathskybox.mdx".to_string()) } else { None };
    let hdr = cfg[10];
    let bounding_box = if hdr == 2 { bbox((-100.5, -200.25, -300.125), (100.5, 200.25, 300.125)) } else { union_box(&groups) };
    let (flags, ambient_color) = if hdr == 0 {
        (WmoFlags::empty(), col(0, 0, 0, 0))
    } else {
        (WmoFlags::OUTDOOR | WmoFlags::HAS_LIQUIDS | WmoFlags::MOUNT_ALLOWED | WmoFlags::HAS_VERTEX_COLORS, col(11, 22, 33, 44))
    };
    // "rich": the counts stored in the in-memory header are stale; the writer must use the list lengths
    let stale = if hdr == 1 { 7 } else { 0 };
    let header = WmoHeader {
        n_materials: materials.len() as u32 + stale,
        n_groups: groups.len() as u32 + stale,
        n_portals: portals.len() as u32 + stale,
        n_lights: lights.len() as u32 + stale,
        n_doodad_names: doodad_defs.len() as u32 + stale,
        n_doodad_defs: doodad_defs.len() as u32 + stale,
        n_doodad_sets: doodad_sets.len() as u32 + stale,
        flags,
        ambient_color,
    };
    let mut texture_offset_index_map = HashMap::new();
    for k in 0..textures.len() {
        texture_offset_index_map.insert(table_offset(&textures, k), k as u32);
    }
    WmoRoot {
        version,
        materials,
        groups,
        portals,
        portal_references,
        visible_block_lists,
        lights,
        doodad_defs,
        doodad_sets,
        bounding_box,
        textures,
        texture_offset_index_map,
        header,
        skybox,
        convex_volume_planes: None,
    }
}

// ------------------------------------------------------------------ group

fn pts(n: usize, salt: f32) -> Vec<Vec3> {
    (0..n).map(|i| v3(salt + i as f32 * 1.5, -(i as f32) - 0.25 * salt, salt * 2.0 + (i * i) as f32)).collect()
}

/// cfg indices follow GROUP_SITES
pub fn build_group(cfg: &[u8]) -> WmoGroup {
    let cnt = |l: u8| [0usize, 1, 4][l as usize];
    let vertices = pts(cnt(cfg[0]), 1.0);
    let normals: Vec<Vec3> = (0..cnt(cfg[1]))
        .map(|i| [v3(0.0, 0.0, 1.0), v3(0.0, -1.0, 0.0), v3(0.6, 0.8, 0.0), v3(-1.0, 0.0, 0.0)][i])
        .collect();
    let tex_coords: Vec<TexCoord> = (0..cnt(cfg[2])).map(|i| TexCoord { u: 0.25 * i as f32, v: 1.0 - 0.125 * i as f32 }).collect();
    let indices: Vec<u16> = match cfg[3] {
        0 => vec![],
        1 => vec![0, 1, 2],
        _ => vec![0, 1, 2, 2, 1, 3, 3, 0, 0xFFFE],
    };
    let mkb = |i: usize| WmoBatch {
        flags: [[0u8; 10], [1, 2, 3, 4, 5, 6, 7, 8, 9, 10], [0xFF; 10]][i],
        material_id: [0u16, 7, 255][i],
        start_index: [0u32, 3, 0x0001_0002][i],
        count: [3u16, 6, 0xFFFF][i],
        start_vertex: [0u16, 1, 2][i],
        end_vertex: [2u16, 3, 0xFFFE][i],
        use_large_material_id: false,
    };
    let batches: Vec<WmoBatch> = match cfg[4] {
        0 => vec![],
        1 => vec![mkb(1)],
        _ => vec![mkb(0), mkb(1), mkb(2)],
    };
    let mkn = |i: usize| WmoBspNode {
        plane: WmoPlane { normal: [v3(1.0, 0.0, 0.0), v3(0.0, 1.0, 0.0), v3(0.0, 0.0, 1.0)][i], distance: [0.5f32, -12.25, 300.0][i] },
        children: [[1i16, 2], [-1, -1], [-1, 0x7FFF]][i],
        first_face: [0u16, 4, 0xFFFE][i],
        num_faces: [0u16, 4, 9][i],
    };
    let bsp_nodes = match cfg[5] {
        0 => None,
        1 => Some(vec![mkn(1)]),
        _ => Some(vec![mkn(0), mkn(1), mkn(2)]),
    };
    let vertex_colors = match cfg[6] {
        0 => None,
        l => Some((0..cnt(l)).map(|i| col(10 + i as u8, 20 + i as u8, 30 + i as u8, 255 - i as u8)).collect()),
    };
    let liq = |w: u32, h: u32, tiles: bool| WmoLiquid {
        liquid_type: 2 + w,
        flags: 0,
        width: w,
        height: h,
        vertices: (0..(w * h) as usize)
            .map(|i| WmoLiquidVertex { position: v3(i as f32, 2.0 * i as f32, 0.5), height: 0.25 + i as f32 })
            .collect(),
        tile_flags: if tiles { Some((0..((w - 1) * (h - 1)) as usize).map(|i| 0x40 + i as u8).collect()) } else { None },
    };
    let liquid = match cfg[7] {
        0 => None,
        1 => Some(liq(1, 1, false)),
        _ => Some(liq(3, 2, true)),
    };
    let doodad_refs = match cfg[8] {
        0 => None,
        1 => Some(vec![5u16]),
        _ => Some(vec![0u16, 0xFFFE, 3]),
    };
    let header = if cfg[9] == 0 {
        WmoGroupHeader { flags: WmoGroupFlags::empty(), bounding_box: bbox((0.0, 0.0, 0.0), (0.0, 0.0, 0.0)), name_offset: 0, group_index: 0 }
    } else {
        WmoGroupHeader {
            flags: WmoGroupFlags::HAS_NORMALS
                | WmoGroupFlags::INDOOR
                | WmoGroupFlags::HAS_VERTEX_COLORS
                | WmoGroupFlags::USE_SCENE_GRAPH
                | WmoGroupFlags::HAS_MORE_MOTION_TYPES
                | WmoGroupFlags::MOUNT_ALLOWED
                | WmoGroupFlags::EXTERIOR_BSP,
            bounding_box: bbox((-1.5, -2.5, -3.5), (4.25, 5.125, 6.0625)),
            name_offset: 17,
            group_index: 3,
        }
    };
    WmoGroup { header, materials: vec![], vertices, normals, tex_coords, batches, indices, vertex_colors, bsp_nodes, liquid, doodad_refs }
}
