//! Deterministic input generators: a WMO root / group is a pure function of a level vector.
use std::collections::{BTreeSet, HashMap};
use wow_wmo::wmo_group_types::{WmoGroup, WmoGroupHeader, WmoLiquid, WmoLiquidVertex, WmoPlane};
use wow_wmo::*;

pub const VERSIONS: [WmoVersion; 5] =
    [WmoVersion::Classic, WmoVersion::Tbc, WmoVersion::Wotlk, WmoVersion::Cataclysm, WmoVersion::Mop];
pub fn vname(v: WmoVersion) -> &'static str {
    match v {
        WmoVersion::Classic => "Classic",
        WmoVersion::Tbc => "Tbc",
        WmoVersion::Wotlk => "Wotlk",
        WmoVersion::Cataclysm => "Cataclysm",
        WmoVersion::Mop => "Mop",
        _ => "post-Mop",
    }
}

// ------------------------------------------------------------------ level-vector enumeration

pub struct Site {
    pub name: &'static str,
    pub levels: &'static [&'static str],
}

pub const ROOT_SITES: [Site; 11] = [
    Site { name: "textures", levels: &["none", "one", "non_ascii", "many"] },
    Site { name: "materials", levels: &["none", "one", "many"] },
    Site { name: "groups", levels: &["none", "one", "many", "dups"] },
    Site { name: "portals", levels: &["none", "one", "many"] },
    Site { name: "portal_refs", levels: &["none", "one", "many"] },
    Site { name: "visible_lists", levels: &["none", "one", "many"] },
    Site { name: "lights", levels: &["none", "one", "many"] },
    Site { name: "doodad_defs", levels: &["none", "one", "many"] },
    Site { name: "doodad_sets", levels: &["none", "one", "many"] },
    Site { name: "skybox", levels: &["none", "some"] },
    Site { name: "header", levels: &["plain", "rich", "custom_bounds"] },
];

pub const GROUP_SITES: [Site; 10] = [
    Site { name: "vertices", levels: &["none", "one", "many"] },
    Site { name: "normals", levels: &["none", "one", "many"] },
    Site { name: "tex_coords", levels: &["none", "one", "many"] },
    Site { name: "indices", levels: &["none", "one", "many"] },
    Site { name: "batches", levels: &["none", "one", "many"] },
    Site { name: "bsp_nodes", levels: &["none", "one", "many"] },
    Site { name: "vertex_colors", levels: &["none", "one", "many"] },
    Site { name: "liquid", levels: &["none", "one", "many"] },
    Site { name: "doodad_refs", levels: &["none", "one", "many"] },
    Site { name: "header", levels: &["plain", "rich"] },
];

// ---- thorough tier: the quick levels first (same indices), then the extended levels
pub const ROOT_SITES_X: [Site; 11] = [
    Site { name: "textures", levels: &["none", "one", "non_ascii", "many", "dups", "long", "n300"] },
    Site { name: "materials", levels: &["none", "one", "many", "each_flag", "n300"] },
    Site { name: "groups", levels: &["none", "one", "many", "dups", "empty_name", "non_ascii", "long", "each_flag", "n300"] },
    Site { name: "portals", levels: &["none", "one", "many", "big", "n300", "v65535", "v65536", "start65536"] },
    Site { name: "portal_refs", levels: &["none", "one", "many", "n300"] },
    Site { name: "visible_lists", levels: &["none", "one", "many", "long", "n300"] },
    Site { name: "lights", levels: &["none", "one", "many", "n300", "extreme"] },
    Site { name: "doodad_defs", levels: &["none", "one", "many", "synth", "many_shared", "synth300"] },
    Site { name: "doodad_sets", levels: &["none", "one", "many", "len20", "len25", "non_ascii", "n300"] },
    Site { name: "skybox", levels: &["none", "some", "non_ascii", "long"] },
    Site { name: "header", levels: &["plain", "rich", "custom_bounds", "all_flags", "extreme_bounds", "stale_low"] },
];
/// levels of each root site that take part in the full product of the thorough tier
pub const ROOT_PROD: [&[u8]; 11] = [&[0, 1, 2, 3], &[0, 1, 2], &[0, 1, 2, 3], &[0, 1, 2], &[0, 1, 2], &[0, 1, 2], &[0, 1, 2], &[0, 1, 2, 3], &[0, 1, 2], &[0, 1], &[0, 1, 2]];

pub const GROUP_SITES_X: [Site; 10] = [
    Site { name: "vertices", levels: &["none", "one", "many", "n300", "n65537"] },
    Site { name: "normals", levels: &["none", "one", "many", "n300", "n65537"] },
    Site { name: "tex_coords", levels: &["none", "one", "many", "n300", "n65537"] },
    Site { name: "indices", levels: &["none", "one", "many", "n300", "n65538"] },
    Site { name: "batches", levels: &["none", "one", "many", "large_id", "n300"] },
    Site { name: "bsp_nodes", levels: &["none", "one", "many", "leaves", "n300"] },
    Site { name: "vertex_colors", levels: &["none", "one", "many", "n300", "n65537"] },
    Site { name: "liquid", levels: &["none", "one", "many", "zero", "one_tiles", "row", "grid9", "big"] },
    Site { name: "doodad_refs", levels: &["none", "one", "many", "n300", "n65537"] },
    Site { name: "header", levels: &["plain", "rich", "all_flags", "extreme_bounds", "hi_offsets"] },
];
pub const GROUP_PROD: [&[u8]; 10] = [&[0, 1, 2], &[0, 1, 2], &[0, 1, 2], &[0, 1, 2], &[0, 1, 2], &[0, 1, 2], &[0, 1, 2], &[0, 1, 2], &[0, 1, 2], &[0, 1]];

fn sort_cfgs(out: BTreeSet<Vec<u8>>) -> Vec<Vec<u8>> {
    let mut v: Vec<Vec<u8>> = out.into_iter().collect();
    v.sort_by_key(|c| {
        (c.iter().filter(|&&l| l != 0).count(), c.iter().map(|&l| l as u32).sum::<u32>(), c.iter().rev().cloned().collect::<Vec<u8>>())
    });
    v
}

/// levels that write and parse around a megabyte (tens to hundreds of milliseconds per case)
pub fn is_heavy(level: &str) -> bool {
    level.starts_with("v655") || level.starts_with("start655") || level.starts_with("n655")
}

/// Thorough tier: the full product over the `prod` levels of every site, plus every vector over
/// the extended alphabets `sites_x` with at most `k.0` sites deviating from the all-empty baseline
/// or at most `k.1` sites deviating from the full baseline `full`; vectors that hold a heavy level
/// (see `is_heavy`) are limited to `k_heavy` deviating sites.
pub fn configs_deep(sites_x: &[Site], prod: &[&[u8]], full: &[u8], k: (usize, usize), k_heavy: usize) -> Vec<Vec<u8>> {
    let n = sites_x.len();
    let mut out: BTreeSet<Vec<u8>> = BTreeSet::new();
    let total: u64 = prod.iter().map(|p| p.len() as u64).product();
    for mut i in 0..total {
        let mut v = Vec::with_capacity(n);
        for p in prod {
            let r = p.len() as u64;
            v.push(p[(i % r) as usize]);
            i /= r;
        }
        out.insert(v);
    }
    let empty: Vec<u8> = vec![0; n];
    for (base, k) in [(&empty[..], k.0), (full, k.1)] {
        fn rec(sites: &[Site], base: &[u8], heavy_ok: bool, cur: &mut Vec<u8>, from: usize, left: usize, out: &mut BTreeSet<Vec<u8>>) {
            out.insert(cur.clone());
            if left == 0 {
                return;
            }
            for s in from..sites.len() {
                for l in 0..sites[s].levels.len() as u8 {
                    if l == base[s] || (!heavy_ok && is_heavy(sites[s].levels[l as usize])) {
                        continue;
                    }
                    cur[s] = l;
                    rec(sites, base, heavy_ok, cur, s + 1, left - 1, out);
                }
                cur[s] = base[s];
            }
        }
        let mut cur = base.to_vec();
        rec(sites_x, base, false, &mut cur, 0, k, &mut out);
        rec(sites_x, base, true, &mut cur, 0, k_heavy, &mut out);
    }
    sort_cfgs(out)
}

/// the full baseline of the quick tier: the highest quick level of every site
pub fn full_baseline(base_sites: &[Site]) -> Vec<u8> {
    base_sites.iter().map(|s| (s.levels.len() - 1) as u8).collect()
}

/// Level vectors with at most `k` sites deviating from the all-lowest ("empty") baseline and from
/// the all-highest ("full") baseline; `k >= number of sites` gives the full product.
/// Ordered simplest first (fewest populated sites, then lowest levels).
pub fn configs(sites: &[Site], k: usize) -> Vec<Vec<u8>> {
    let n = sites.len();
    let mut out: BTreeSet<Vec<u8>> = BTreeSet::new();
    if k >= n {
        let total: u64 = sites.iter().map(|s| s.levels.len() as u64).product();
        for mut i in 0..total {
            let mut v = Vec::with_capacity(n);
            for s in sites {
                let r = s.levels.len() as u64;
                v.push((i % r) as u8);
                i /= r;
            }
            out.insert(v);
        }
    } else {
        let empty: Vec<u8> = vec![0; n];
        let full: Vec<u8> = sites.iter().map(|s| (s.levels.len() - 1) as u8).collect();
        for base in [&empty, &full] {
            fn rec(sites: &[Site], base: &[u8], cur: &mut Vec<u8>, from: usize, left: usize, out: &mut BTreeSet<Vec<u8>>) {
                out.insert(cur.clone());
                if left == 0 {
                    return;
                }
                for s in from..sites.len() {
                    for l in 0..sites[s].levels.len() as u8 {
                        if l == base[s] {
                            continue;
                        }
                        cur[s] = l;
                        rec(sites, base, cur, s + 1, left - 1, out);
                    }
                    cur[s] = base[s];
                }
            }
            let mut cur = base.clone();
            rec(sites, base, &mut cur, 0, k, &mut out);
        }
    }
    let mut v: Vec<Vec<u8>> = out.into_iter().collect();
    v.sort_by_key(|c| {
        (c.iter().filter(|&&l| l != 0).count(), c.iter().map(|&l| l as u32).sum::<u32>(), c.iter().rev().cloned().collect::<Vec<u8>>())
    });
    v
}

// ------------------------------------------------------------------ helpers

pub fn v3(x: f32, y: f32, z: f32) -> Vec3 {
    Vec3 { x, y, z }
}
fn col(r: u8, g: u8, b: u8, a: u8) -> Color {
    Color { r, g, b, a }
}
fn bbox(a: (f32, f32, f32), b: (f32, f32, f32)) -> BoundingBox {
    BoundingBox { min: v3(a.0, a.1, a.2), max: v3(b.0, b.1, b.2) }
}

/// byte offset of string `k` in a NUL-separated table built from `strings`
pub fn table_offset(strings: &[String], k: usize) -> u32 {
    strings[..k].iter().map(|s| s.len() as u32 + 1).sum()
}

// ------------------------------------------------------------------ root

fn rep(c: char, n: usize) -> String {
    std::iter::repeat(c).take(n).collect()
}

pub fn root_textures(l: u8) -> Vec<String> {
    match l {
        0 => vec![],
        1 => vec!["a.blp".into()],
        2 => vec!["tex\\m\u{fc}hle.blp".into(), "b.blp".into()],
        3 => vec![
            "dungeons\\textures\\wall.blp".into(),
            "dungeons\\textures\\wall_s.blp".into(),
            "wall.blp".into(),
            "t.blp".into(),
        ],
        // duplicate names: two table entries with the same string
        4 => vec!["a.blp".into(), "a.blp".into(), "b.blp".into()],
        // one name longer than 255 bytes
        5 => vec![format!("t\\{}.blp", rep('x', 254)), "z.blp".into()],
        // 300 names, table larger than 65536 bytes (offsets need more than 16 bits)
        _ => (0..300).map(|i| format!("world\\{:03}\\{}.blp", i, rep('p', 216))).collect(),
    }
}

/// texture index referenced by (material i, slot) — also used by the oracle
pub fn material_texture_ref(i: usize, slot: usize, ntex: usize) -> Option<usize> {
    if ntex == 0 {
        None
    } else if i < 3 {
        Some((i * 2 + slot * 3 + 1) % ntex)
    } else {
        // later materials reference the table from its end (large offsets in a large table)
        Some(ntex - 1 - ((i * 2 + slot * 3) % ntex))
    }
}

fn root_materials(l: u8, textures: &[String]) -> Vec<WmoMaterial> {
    let n = [0usize, 1, 3, 12, 300][l as usize];
    let f = |i: usize| -> WmoMaterialFlags {
        if l == 3 {
            // every defined flag on its own
            return WmoMaterialFlags::from_bits_truncate(1 << i);
        }
        match i {
            0 => WmoMaterialFlags::UNLIT | WmoMaterialFlags::UNUSED3,
            1 => WmoMaterialFlags::empty(),
            2 => WmoMaterialFlags::TWO_SIDED | WmoMaterialFlags::CLAMP_S | WmoMaterialFlags::SHADOW_BATCH_1 | WmoMaterialFlags::SHADOW_BATCH_2,
            _ => WmoMaterialFlags::from_bits_truncate((i as u32).wrapping_mul(37) & 0xFFF),
        }
    };
    let b = |i: usize, k: usize| (i.wrapping_mul(31).wrapping_add(k * 17) & 0xFF) as u8;
    (0..n)
        .map(|i| {
            let t = |slot| material_texture_ref(i, slot, textures.len()).map(|k| table_offset(textures, k)).unwrap_or(0);
            let j = i.min(2);
            let big = i >= 3;
            WmoMaterial {
                flags: f(i),
                shader: if big { i as u32 * 3 } else { [0u32, 6, 0x0102_0304][j] },
                blend_mode: if big { (i % 8) as u32 } else { [1u32, 0, 0xFFFF_FFFE][j] },
                texture1: t(0),
                emissive_color: if big { col(b(i, 0), b(i, 1), b(i, 2), b(i, 3)) } else { [col(255, 0, 128, 7), col(0, 0, 0, 0), col(1, 2, 3, 4)][j] },
                sidn_color: if big { col(b(i, 4), b(i, 5), b(i, 6), b(i, 7)) } else { [col(9, 8, 7, 6), col(255, 255, 255, 255), col(0, 1, 0, 1)][j] },
                framebuffer_blend: Color::default(),
                texture2: t(1),
                diffuse_color: if big { col(b(i, 8), b(i, 9), b(i, 10), b(i, 11)) } else { [col(10, 20, 30, 40), col(0, 0, 0, 255), col(200, 100, 50, 25)][j] },
                ground_type: if big { 0x1000 + i as u32 } else { [0u32, 5, 0x7FFF_FFFF][j] },
            }
        })
        .collect()
}

fn root_groups(l: u8) -> Vec<WmoGroupInfo> {
    let names: Vec<String> = match l {
        0 => vec![],
        1 => vec!["antechamber".into()],
        2 => vec!["hall".into(), "hall_upper".into(), "ha".into()],
        3 => vec!["room".into(), "room".into(), "attic".into()],
        // unnamed groups (empty names)
        4 => vec!["".into(), "x".into(), "".into()],
        5 => vec!["H\u{f6}hle".into(), "\u{6d1e}\u{7a9f}_01".into()],
        // one name longer than 255 bytes
        6 => vec![format!("g{}", rep('r', 299)), "b".into()],
        // 18 groups, each with one defined flag
        7 => (0..18).map(|i| format!("grp{:02}", i)).collect(),
        // 300 groups, name table larger than 65536 bytes
        _ => (0..300).map(|i| format!("{}_{:03}", rep('n', 225), i)).collect(),
    };
    names
        .into_iter()
        .enumerate()
        .map(|(i, name)| {
            let j = i.min(2);
            let big = i >= 3;
            WmoGroupInfo {
                flags: if l == 7 {
                    WmoGroupFlags::from_bits_truncate(1 << i)
                } else if big {
                    WmoGroupFlags::from_bits_truncate((i as u32).wrapping_mul(2654435761) & 0x3FFFF)
                } else {
                    [
                        WmoGroupFlags::INDOOR | WmoGroupFlags::HAS_NORMALS,
                        WmoGroupFlags::empty(),
                        WmoGroupFlags::HAS_WATER | WmoGroupFlags::EXTERIOR_BSP | WmoGroupFlags::HAS_BASE_VERTICES,
                    ][j]
                },
                bounding_box: if big {
                    let f = i as f32;
                    bbox((-f, -2.0 * f, -0.5 * f), (f + 1.0, 2.0 * f + 0.25, f * f))
                } else {
                    [
                        bbox((-1.0, -2.0, -3.0), (4.0, 5.0, 6.0)),
                        bbox((-10.5, 0.25, -0.125), (-9.5, 100.0, 7.75)),
                        bbox((0.0, 0.0, 0.0), (0.5, 1024.0, 3.0)),
                    ][j]
                },
                name,
            }
        })
        .collect()
}

fn root_portals(l: u8) -> Vec<WmoPortal> {
    let quad = WmoPortal {
        vertices: vec![v3(0.0, 0.0, 0.0), v3(1.0, 0.0, 0.0), v3(1.0, 0.0, 2.0), v3(0.0, 0.0, 2.0)],
        normal: v3(0.0, 1.0, 0.0),
    };
    let poly = |n: usize, salt: usize| WmoPortal {
        vertices: (0..n).map(|i| v3((i + salt) as f32 * 0.5, salt as f32, -((i % 97) as f32))).collect(),
        normal: v3(0.0, 1.0, 0.0),
    };
    match l {
        0 => vec![],
        1 => vec![quad],
        2 => vec![
            quad,
            WmoPortal { vertices: vec![], normal: v3(1.0, 0.0, 0.0) },
            WmoPortal { vertices: vec![v3(5.0, 6.0, 7.0), v3(-5.5, 6.0, 7.0), v3(5.0, -6.25, 7.0)], normal: v3(0.0, 0.0, -1.0) },
        ],
        // one portal with more than 255 vertices
        3 => vec![poly(300, 1)],
        4 => (0..300).map(|i| poly(3, i)).collect(),
        // the largest portal and the largest start index a 16-bit MOPT entry can hold
        5 => vec![poly(65535, 1), poly(3, 2)],
        // one more vertex than a 16-bit count can hold
        6 => vec![poly(65536, 1)],
        // the fifth portal starts at vertex 65536
        _ => (0..5).map(|i| poly(16384, i)).collect(),
    }
}

fn root_portal_refs(l: u8) -> Vec<WmoPortalReference> {
    if l == 3 {
        return (0..300u32).map(|i| WmoPortalReference { portal_index: i as u16, group_index: (i * 7 % 300) as u16, side: (i % 2) as u16 }).collect();
    }
    let all = [
        WmoPortalReference { portal_index: 0, group_index: 1, side: 1 },
        WmoPortalReference { portal_index: 2, group_index: 0, side: 0xFFFF },
        WmoPortalReference { portal_index: 0x1234, group_index: 0xFFFE, side: 0 },
    ];
    all[..[0usize, 1, 3][l as usize]].to_vec()
}

fn root_visible(l: u8) -> Vec<Vec<u16>> {
    match l {
        0 => vec![],
        1 => vec![vec![0]],
        2 => vec![vec![1, 2, 3], vec![], vec![7, 0xFFFE]],
        3 => vec![(0..300u16).map(|i| i * 3).collect(), vec![]],
        _ => (0..300u16).map(|i| (0..(i % 4)).map(|k| i + k).collect()).collect(),
    }
}

fn root_lights(l: u8) -> Vec<WmoLight> {
    let props = |t: WmoLightType| match t {
        WmoLightType::Omni => WmoLightProperties::Omni,
        WmoLightType::Ambient => WmoLightProperties::Ambient,
        WmoLightType::Spot => WmoLightProperties::Spot { direction: v3(0.0, 0.0, -1.0), hotspot: 0.0, falloff: 0.0 },
        WmoLightType::Directional => WmoLightProperties::Directional { direction: v3(0.0, 0.0, -1.0) },
    };
    let mk = |t: WmoLightType, i: usize| WmoLight {
        light_type: t,
        position: v3(1.5 + i as f32, -2.25, 3.0 * i as f32),
        color: [col(255, 128, 64, 32), col(1, 2, 3, 4), col(0, 0, 0, 0), col(250, 251, 252, 253)][i],
        intensity: [1.0f32, 0.5, 0.0, 12.75][i],
        rotation: [[0.0f32, 0.0, 0.0, 1.0], [0.5, 0.5, 0.5, 0.5], [1.0, 0.0, 0.0, 0.0], [-0.25, 0.75, 0.0, 0.5]][i],
        attenuation_start: [0.0f32, 1.25, 3.0, 100.0][i],
        attenuation_end: [10.0f32, 2.5, 3.5, 1000.0][i],
        use_attenuation: i % 2 == 0,
        properties: props(t),
    };
    let types = [WmoLightType::Omni, WmoLightType::Spot, WmoLightType::Directional, WmoLightType::Ambient];
    match l {
        0 => vec![],
        1 => vec![mk(WmoLightType::Spot, 1)],
        2 => vec![mk(WmoLightType::Omni, 0), mk(WmoLightType::Spot, 1), mk(WmoLightType::Directional, 2), mk(WmoLightType::Ambient, 3)],
        3 => (0..300usize)
            .map(|i| {
                let mut x = mk(types[i % 4], i % 4);
                x.position = v3(i as f32, -(i as f32) * 0.5, 0.25 * i as f32);
                x.intensity = i as f32 / 8.0;
                x.color = col((i & 0xFF) as u8, (i >> 1 & 0xFF) as u8, (i * 3 & 0xFF) as u8, (i * 7 & 0xFF) as u8);
                x
            })
            .collect(),
        // extreme but well-defined float values (no NaN: it has no equality)
        _ => {
            let ex = [f32::INFINITY, -0.0f32, f32::MAX, f32::MIN_POSITIVE / 4.0];
            (0..4usize)
                .map(|i| {
                    let mut x = mk(types[i], i);
                    x.intensity = ex[i];
                    x.position = v3(ex[(i + 1) % 4], -ex[(i + 2) % 4], f32::MIN);
                    x.rotation = [ex[i], ex[(i + 1) % 4], ex[(i + 2) % 4], ex[(i + 3) % 4]];
                    x.attenuation_start = f32::NEG_INFINITY;
                    x.attenuation_end = ex[(i + 3) % 4];
                    x
                })
                .collect()
        }
    }
}

/// name offsets that the writer's synthesised MODN table ("doodad_<offset>" per definition)
/// reproduces: 0, 9, 18, 28, ...
pub fn synth_offsets(n: usize) -> Vec<u32> {
    let mut out = Vec::with_capacity(n);
    let mut o = 0u32;
    for _ in 0..n {
        out.push(o);
        o += format!("doodad_{o}").len() as u32 + 1;
    }
    out
}

fn root_doodad_defs(l: u8) -> Vec<WmoDoodadDef> {
    // name offsets as they would come from a parsed file whose MODN holds
    // "world\\chair.m2\0" (15 bytes), "world\\generic\\barrel01.m2\0" (26 bytes), "w\\x.m2\0"
    let offs: Vec<u32> = match l {
        0 => vec![],
        1 => vec![15],
        2 => vec![0, 15, 41],
        3 => synth_offsets(3),
        // several definitions of the same model (they share one name)
        4 => vec![0, 0, 15, 15],
        _ => synth_offsets(300),
    };
    let n = offs.len();
    (0..n)
        .map(|i| {
            let j = i.min(2);
            let big = i >= 3;
            WmoDoodadDef {
                name_offset: offs[i],
                position: v3(10.0 * i as f32, -0.5, 2.0),
                orientation: if big {
                    [0.5, -0.5, (i % 5) as f32 * 0.25, 1.0]
                } else {
                    [[0.0f32, 0.0, 0.0, 1.0], [0.0, 0.7071068, 0.0, 0.7071068], [0.5, -0.5, 0.5, -0.5]][j]
                },
                scale: if big { 0.125 * i as f32 } else { [1.0f32, 0.5, 2.25][j] },
                color: if big { col((i & 0xFF) as u8, (i * 5 & 0xFF) as u8, 3, 4) } else { [col(255, 255, 255, 255), col(1, 2, 3, 4), col(0, 128, 0, 200)][j] },
                set_index: 0,
            }
        })
        .collect()
}

fn root_doodad_sets(l: u8) -> Vec<WmoDoodadSet> {
    match l {
        0 => vec![],
        1 => vec![WmoDoodadSet { name: "Set_$DefaultGlobal".into(), start_doodad: 0, n_doodads: 3 }],
        2 => vec![
            WmoDoodadSet { name: "Set_$DefaultGlobal".into(), start_doodad: 0, n_doodads: 1 },
            WmoDoodadSet { name: "Set_nineteen_chars_".into(), start_doodad: 1, n_doodads: 2 },
            WmoDoodadSet { name: "a".into(), start_doodad: 0x0102_0304, n_doodads: 0 },
        ],
        // names that fill the 20-byte field completely
        3 => vec![
            WmoDoodadSet { name: "Set_exactly_20_bytes".into(), start_doodad: 0, n_doodads: 1 },
            WmoDoodadSet { name: format!("{}\u{fc}", rep('a', 18)), start_doodad: 1, n_doodads: 1 },
        ],
        // a name longer than the field
        4 => vec![
            WmoDoodadSet { name: "Set_twentyfive_bytes_long".into(), start_doodad: 0, n_doodads: 1 },
            WmoDoodadSet { name: "ok".into(), start_doodad: 1, n_doodads: 1 },
        ],
        5 => vec![WmoDoodadSet { name: "Satz_gr\u{fc}n".into(), start_doodad: 2, n_doodads: 5 }],
        _ => (0..300u32).map(|i| WmoDoodadSet { name: format!("Set_{:03}", i), start_doodad: i * 3, n_doodads: i % 7 }).collect(),
    }
}

pub fn union_box(groups: &[WmoGroupInfo]) -> BoundingBox {
    if groups.is_empty() {
        return bbox((0.0, 0.0, 0.0), (0.0, 0.0, 0.0));
    }
    let mut b = groups[0].bounding_box;
    for g in groups {
        let o = g.bounding_box;
        b.min = v3(b.min.x.min(o.min.x), b.min.y.min(o.min.y), b.min.z.min(o.min.z));
        b.max = v3(b.max.x.max(o.max.x), b.max.y.max(o.max.y), b.max.z.max(o.max.z));
    }
    b
}

/// Ladder axes of the thorough tier: one section of a root is replaced by exactly `n` records
/// (the first n of the 300-record level), or by one record whose string has exactly `n` bytes.
pub const ROOT_LADDERS: [&str; 18] = [
    "textures",
    "materials",
    "groups",
    "portals",
    "portal_vertices",
    "portal_refs",
    "visible_lists",
    "visible_list_len",
    "lights",
    "doodad_defs",
    "doodad_sets",
    "texture_name_len",
    "group_name_len",
    "set_name_len",
    "skybox_len",
    // two-dimensional ladders, n = a + 41 * b with a, b in 0..=40
    "textures*materials",
    "portals*vertices",
    "visible_lists*len",
];
pub fn ladder_is_2d(axis: &str) -> bool {
    axis.contains('*')
}
/// smallest n of a ladder axis (no empty texture / skybox string, see the assumptions)
pub fn root_ladder_min(axis: &str) -> usize {
    match axis {
        "texture_name_len" | "skybox_len" => 1,
        _ => 0,
    }
}

/// cfg indices follow ROOT_SITES / ROOT_SITES_X
pub fn build_root(cfg: &[u8], version: WmoVersion) -> WmoRoot {
    build_root_with(cfg, version, None)
}

pub fn build_root_with(cfg: &[u8], version: WmoVersion, ladder: Option<(&str, usize)>) -> WmoRoot {
    let (axis, n) = ladder.unwrap_or(("", 0));
    let (n2a, n2b) = (n % 41, n / 41);
    let first = |mut v: Vec<String>, n: usize| {
        v.truncate(n);
        v
    };
    let textures = match axis {
        "textures" => first(root_textures(6), n),
        "textures*materials" => first(root_textures(6), n2a),
        "texture_name_len" => vec![rep('x', n)],
        _ => root_textures(cfg[0]),
    };
    let mut materials = root_materials(if axis == "materials" || axis == "textures*materials" { 4 } else { cfg[1] }, &textures);
    if axis == "materials" {
        materials.truncate(n);
    }
    if axis == "textures*materials" {
        materials.truncate(n2b);
    }
    let mut groups = root_groups(if axis == "groups" { 8 } else { cfg[2] });
    match axis {
        "groups" => groups.truncate(n),
        "group_name_len" => {
            groups = root_groups(1);
            groups[0].name = rep('g', n);
        }
        _ => {}
    }
    let mut portals = root_portals(if axis == "portals" { 4 } else { cfg[3] });
    match axis {
        "portals" => portals.truncate(n),
        "portal_vertices" => {
            portals = root_portals(3);
            portals[0].vertices.truncate(n);
        }
        "portals*vertices" => {
            portals = root_portals(4);
            portals.truncate(n2a);
            for (i, p) in portals.iter_mut().enumerate() {
                p.vertices = (0..n2b).map(|k| v3((i + k) as f32 * 0.5, i as f32, -(k as f32))).collect();
            }
        }
        _ => {}
    }
    let mut portal_references = root_portal_refs(if axis == "portal_refs" { 3 } else { cfg[4] });
    if axis == "portal_refs" {
        portal_references.truncate(n);
    }
    let mut visible_block_lists = root_visible(if axis == "visible_lists" { 4 } else { cfg[5] });
    match axis {
        "visible_lists" => visible_block_lists.truncate(n),
        "visible_list_len" => {
            visible_block_lists = root_visible(3);
            visible_block_lists[0].truncate(n);
        }
        "visible_lists*len" => {
            visible_block_lists = (0..n2a as u16).map(|i| (0..n2b as u16).map(|k| i * 41 + k).collect()).collect();
        }
        _ => {}
    }
    let mut lights = root_lights(if axis == "lights" { 3 } else { cfg[6] });
    if axis == "lights" {
        lights.truncate(n);
    }
    let mut doodad_defs = root_doodad_defs(if axis == "doodad_defs" { 5 } else { cfg[7] });
    if axis == "doodad_defs" {
        doodad_defs.truncate(n);
    }
    let mut doodad_sets = root_doodad_sets(if axis == "doodad_sets" { 6 } else { cfg[8] });
    match axis {
        "doodad_sets" => doodad_sets.truncate(n),
        "set_name_len" => {
            doodad_sets = root_doodad_sets(1);
            doodad_sets[0].name = rep('S', n);
        }
        _ => {}
    }
    let skybox = if axis == "skybox_len" {
        Some(rep('k', n))
    } else {
        match cfg[9] {
            0 => None,
            1 => Some("environments\\stars\\deathskybox.mdx".to_string()),
            2 => Some("environments\\Himmel\u{df}\\nacht.mdx".to_string()),
            _ => Some(format!("environments\\{}.mdx", rep('s', 283))),
        }
    };
    let hdr = cfg[10];
    let bounding_box = match hdr {
        2 => bbox((-100.5, -200.25, -300.125), (100.5, 200.25, 300.125)),
        4 => bbox((f32::NEG_INFINITY, -0.0, f32::MIN), (f32::MAX, f32::MIN_POSITIVE / 4.0, f32::INFINITY)),
        _ => union_box(&groups),
    };
    let (flags, ambient_color) = match hdr {
        0 => (WmoFlags::empty(), col(0, 0, 0, 0)),
        3 => (WmoFlags::all() & !WmoFlags::HAS_SKYBOX, col(1, 2, 3, 4)),
        _ => (WmoFlags::OUTDOOR | WmoFlags::HAS_LIQUIDS | WmoFlags::MOUNT_ALLOWED | WmoFlags::HAS_VERTEX_COLORS, col(11, 22, 33, 44)),
    };
    // "rich": the counts stored in the in-memory header are stale (too high); "stale_low": they are
    // all zero; the writer must use the list lengths
    let cnt = |len: usize| -> u32 {
        match hdr {
            1 => len as u32 + 7,
            5 => 0,
            _ => len as u32,
        }
    };
    let header = WmoHeader {
        n_materials: cnt(materials.len()),
        n_groups: cnt(groups.len()),
        n_portals: cnt(portals.len()),
        n_lights: cnt(lights.len()),
        n_doodad_names: cnt(doodad_defs.len()),
        n_doodad_defs: cnt(doodad_defs.len()),
        n_doodad_sets: cnt(doodad_sets.len()),
        flags,
        ambient_color,
    };
    let mut texture_offset_index_map = HashMap::new();
    for k in 0..textures.len() {
        texture_offset_index_map.insert(table_offset(&textures, k), k as u32);
    }
    WmoRoot {
        version,
        materials,
        groups,
        portals,
        portal_references,
        visible_block_lists,
        lights,
        doodad_defs,
        doodad_sets,
        bounding_box,
        textures,
        texture_offset_index_map,
        header,
        skybox,
        convex_volume_planes: None,
    }
}

// ------------------------------------------------------------------ group

fn pts(n: usize, salt: f32) -> Vec<Vec3> {
    (0..n).map(|i| v3(salt + i as f32 * 1.5, -(i as f32) - 0.25 * salt, salt * 2.0 + (i * i) as f32)).collect()
}

/// Ladder axes of a group: a list with exactly n records; "liquid": n encodes (width, height,
/// tile list present) as width + 17 * height + 289 * tiles.
pub const GROUP_LADDERS: [&str; 9] = ["vertices", "normals", "tex_coords", "indices", "batches", "bsp_nodes", "vertex_colors", "doodad_refs", "liquid"];
pub fn liquid_ladder(n: usize) -> (u32, u32, bool) {
    ((n % 17) as u32, (n / 17 % 17) as u32, n / 289 == 1)
}

/// cfg indices follow GROUP_SITES / GROUP_SITES_X
pub fn build_group(cfg: &[u8]) -> WmoGroup {
    build_group_with(cfg, None)
}

pub fn build_group_with(cfg: &[u8], ladder: Option<(&str, usize)>) -> WmoGroup {
    let (axis, n) = ladder.unwrap_or(("", 0));
    let site = |name: &str| GROUP_SITES_X.iter().position(|s| s.name == name).unwrap();
    // a ladder axis takes the first n records of the largest level of its site
    let mut cfg: Vec<u8> = cfg.to_vec();
    if !axis.is_empty() && axis != "liquid" {
        cfg[site(axis)] = 4;
    }
    let lad = |name: &str, full: usize| if axis == name { n } else { full };
    let cfg = &cfg[..];
    let cnt = |l: u8| [0usize, 1, 4, 300, 65537][l as usize];
    let vertices = pts(lad("vertices", cnt(cfg[0])), 1.0);
    let normals: Vec<Vec3> = (0..lad("normals", cnt(cfg[1])))
        .map(|i| {
            if i < 4 {
                [v3(0.0, 0.0, 1.0), v3(0.0, -1.0, 0.0), v3(0.6, 0.8, 0.0), v3(-1.0, 0.0, 0.0)][i]
            } else {
                let a = (i % 360) as f32;
                v3(a / 360.0, 1.0 - a / 360.0, -((i % 7) as f32) / 8.0)
            }
        })
        .collect();
    let tex_coords: Vec<TexCoord> = (0..lad("tex_coords", cnt(cfg[2]))).map(|i| TexCoord { u: 0.25 * i as f32, v: 1.0 - 0.125 * i as f32 }).collect();
    let mut indices: Vec<u16> = match cfg[3] {
        0 => vec![],
        1 => vec![0, 1, 2],
        2 => vec![0, 1, 2, 2, 1, 3, 3, 0, 0xFFFE],
        3 => (0..300u32).map(|i| (i * 7 % 300) as u16).collect(),
        _ => (0..65538u32).map(|i| (i.wrapping_mul(40503) & 0xFFFF) as u16).collect(),
    };
    if axis == "indices" {
        indices.truncate(n);
    }
    let mkb = |i: usize| WmoBatch {
        flags: [[0u8; 10], [1, 2, 3, 4, 5, 6, 7, 8, 9, 10], [0xFF; 10]][i],
        material_id: [0u16, 7, 255][i],
        start_index: [0u32, 3, 0x0001_0002][i],
        count: [3u16, 6, 0xFFFF][i],
        start_vertex: [0u16, 1, 2][i],
        end_vertex: [2u16, 3, 0xFFFE][i],
        use_large_material_id: false,
    };
    let mut batches: Vec<WmoBatch> = match cfg[4] {
        0 => vec![],
        1 => vec![mkb(1)],
        2 => vec![mkb(0), mkb(1), mkb(2)],
        // material ids that need the 16-bit slot
        3 => vec![
            WmoBatch { flags: [0; 10], material_id: 0x1234, start_index: 0, count: 3, start_vertex: 0, end_vertex: 2, use_large_material_id: true },
            WmoBatch { flags: [9; 10], material_id: 256, start_index: 3, count: 3, start_vertex: 0, end_vertex: 3, use_large_material_id: false },
        ],
        _ => (0..300u32)
            .map(|i| WmoBatch {
                flags: [(i & 0xFF) as u8; 10],
                material_id: (i % 256) as u16,
                start_index: i * 3,
                count: (i % 50 * 3) as u16,
                start_vertex: i as u16,
                end_vertex: (i + 2) as u16,
                use_large_material_id: false,
            })
            .collect(),
    };
    if axis == "batches" {
        batches.truncate(n);
    }
    let mkn = |i: usize| WmoBspNode {
        plane: WmoPlane { normal: [v3(1.0, 0.0, 0.0), v3(0.0, 1.0, 0.0), v3(0.0, 0.0, 1.0)][i], distance: [0.5f32, -12.25, 300.0][i] },
        children: [[1i16, 2], [-1, -1], [-1, 0x7FFF]][i],
        first_face: [0u16, 4, 0xFFFE][i],
        num_faces: [0u16, 4, 9][i],
    };
    let axn = |i: usize| [v3(1.0, 0.0, 0.0), v3(0.0, 1.0, 0.0), v3(0.0, 0.0, 1.0), v3(-1.0, 0.0, 0.0), v3(0.0, -1.0, 0.0), v3(0.0, 0.0, -1.0)][i % 6];
    let mut bsp_nodes = match cfg[5] {
        0 => None,
        1 => Some(vec![mkn(1)]),
        2 => Some(vec![mkn(0), mkn(1), mkn(2)]),
        // inner nodes and leaves on every axis and orientation
        3 => Some(
            (0..12usize)
                .map(|i| WmoBspNode {
                    plane: WmoPlane { normal: axn(i), distance: i as f32 - 5.5 },
                    children: if i % 2 == 0 { [(i + 1) as i16, (i + 2) as i16] } else { [-1, -1] },
                    first_face: (i * 3) as u16,
                    num_faces: if i % 2 == 0 { 0 } else { i as u16 },
                })
                .collect(),
        ),
        _ => Some(
            (0..300usize)
                .map(|i| WmoBspNode {
                    plane: WmoPlane { normal: axn(i), distance: (i as f32) * 0.75 - 100.0 },
                    children: if i < 149 { [(2 * i + 1) as i16, (2 * i + 2) as i16] } else { [-1, -1] },
                    first_face: (i * 5) as u16,
                    num_faces: if i < 149 { 0 } else { 5 },
                })
                .collect(),
        ),
    };
    if axis == "bsp_nodes" {
        if let Some(b) = bsp_nodes.as_mut() {
            b.truncate(n);
        }
    }
    let vertex_colors = match cfg[6] {
        0 => None,
        l => Some(
            (0..lad("vertex_colors", cnt(l)))
                .map(|i| {
                    let b = (i & 0xFF) as u8;
                    col(10u8.wrapping_add(b), 20u8.wrapping_add(b), 30u8.wrapping_add(b), 255u8.wrapping_sub(b))
                })
                .collect(),
        ),
    };
    let liq = |w: u32, h: u32, tiles: bool| WmoLiquid {
        liquid_type: 2 + w,
        flags: 0,
        width: w,
        height: h,
        vertices: (0..(w * h) as usize)
            .map(|i| WmoLiquidVertex { position: v3(i as f32, 2.0 * i as f32, 0.5), height: 0.25 + i as f32 })
            .collect(),
        tile_flags: if tiles { Some((0..(w.saturating_sub(1) * h.saturating_sub(1)) as usize).map(|i| 0x40u8.wrapping_add(i as u8)).collect()) } else { None },
    };
    let liquid = match cfg[7] {
        _ if axis == "liquid" => {
            let (w, h, t) = liquid_ladder(n);
            Some(liq(w, h, t))
        }
        0 => None,
        1 => Some(liq(1, 1, false)),
        2 => Some(liq(3, 2, true)),
        // a liquid without any vertex
        3 => Some(liq(0, 0, false)),
        // grids without tiles that nevertheless carry an (empty) tile list
        4 => Some(liq(1, 1, true)),
        5 => Some(liq(5, 1, true)),
        // the usual 9x9 vertex / 8x8 tile grid with non-default type and flags
        6 => {
            let mut l = liq(9, 9, true);
            l.liquid_type = 0x0102_0304;
            l.flags = 0xFFFF_FFFD;
            Some(l)
        }
        _ => Some(liq(257, 3, true)),
    };
    let mut doodad_refs = match cfg[8] {
        0 => None,
        1 => Some(vec![5u16]),
        2 => Some(vec![0u16, 0xFFFE, 3]),
        3 => Some((0..300u32).map(|i| (i * 11 % 300) as u16).collect()),
        _ => Some((0..65537u32).map(|i| (i & 0xFFFF) as u16).collect()),
    };
    if axis == "doodad_refs" {
        if let Some(d) = doodad_refs.as_mut() {
            d.truncate(n);
        }
    }
    let header = match cfg[9] {
        0 => WmoGroupHeader { flags: WmoGroupFlags::empty(), bounding_box: bbox((0.0, 0.0, 0.0), (0.0, 0.0, 0.0)), name_offset: 0, group_index: 0 },
        1 => WmoGroupHeader {
            flags: WmoGroupFlags::HAS_NORMALS
                | WmoGroupFlags::INDOOR
                | WmoGroupFlags::HAS_VERTEX_COLORS
                | WmoGroupFlags::USE_SCENE_GRAPH
                | WmoGroupFlags::HAS_MORE_MOTION_TYPES
                | WmoGroupFlags::MOUNT_ALLOWED
                | WmoGroupFlags::EXTERIOR_BSP,
            bounding_box: bbox((-1.5, -2.5, -3.5), (4.25, 5.125, 6.0625)),
            name_offset: 17,
            group_index: 3,
        },
        2 => WmoGroupHeader { flags: WmoGroupFlags::all(), bounding_box: bbox((-1.0, -1.0, -1.0), (1.0, 1.0, 1.0)), name_offset: 1, group_index: 1 },
        3 => WmoGroupHeader {
            flags: WmoGroupFlags::INDOOR,
            bounding_box: bbox((f32::NEG_INFINITY, -0.0, f32::MIN), (f32::MAX, f32::MIN_POSITIVE / 4.0, f32::INFINITY)),
            name_offset: 0,
            group_index: 0,
        },
        _ => WmoGroupHeader { flags: WmoGroupFlags::HAS_DOODADS, bounding_box: bbox((0.0, 0.0, 0.0), (1.0, 1.0, 1.0)), name_offset: 0xFFFF_FFFF, group_index: 0xFFFF_FFFE },
    };
    WmoGroup { header, materials: vec![], vertices, normals, tex_coords, batches, indices, vertex_colors, bsp_nodes, liquid, doodad_refs }
}
