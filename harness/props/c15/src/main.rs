//! C15 — WMO root and group files survive write→parse unchanged.
//!
//! Bounded exhaustive exploration: a root / group is a pure function of a vector of per-section
//! levels (none / one / many ...). Every vector with at most k sections deviating from the empty
//! and from the full baseline is enumerated for every version Classic..MoP, written with the real
//! `WmoWriter`, and judged by
//!   * an independent chunk walker (`walk.rs`, written from /repo/docs): chunks tile the file,
//!     MOHD counts equal list lengths, string-offset tables resolve, MOGP covers its sub-chunks;
//!   * the library's own parsers (`WmoParser::parse_root`, `parse_wmo`): content equality per
//!     section and field, second write byte-identical;
//!   * `WmoConverter` over all 25 version pairs: content representable in both versions is kept;
//!   * writer position independence (space `position`): the same call on a stream that already
//!     holds 1..4096 bytes leaves them alone and writes behind them what it writes at position 0.
mod inputs;
mod model;
mod walk;

use inputs::*;
use model::*;
use serde_json::{json, Value};
use std::io::Cursor;
use vcore::*;
use walk::*;
use wow_wmo::wmo_group_types::WmoGroup;
use wow_wmo::*;

// ------------------------------------------------------------------ small helpers

type Guarded<T> = std::result::Result<T, (String, u32, String)>;

fn clean(s: &str) -> String {
    // binrw errors carry ANSI escapes, box drawing and a multi-line backtrace: keep the words
    let mut out = String::new();
    let mut esc = false;
    for c in s.chars() {
        if esc {
            if c.is_ascii_alphabetic() {
                esc = false;
            }
            continue;
        }
        if c == '\u{1b}' {
            esc = true;
            continue;
        }
        let boxy = ('\u{2500}'..='\u{257f}').contains(&c);
        if !c.is_control() && !boxy {
            out.push(c);
        } else if !out.ends_with(' ') {
            out.push(' ');
        }
    }
    let out = out.split_whitespace().collect::<Vec<_>>().join(" ");
    out.chars().take(300).collect()
}

fn add(r: &mut CaseResult, symptom: String, detail: String) {
    if !r.viols.iter().any(|v| v.symptom == symptom) {
        r.viol(symptom, clean(&detail));
    }
}

fn write_root_bytes(x: &WmoRoot, v: WmoVersion) -> Guarded<std::result::Result<Vec<u8>, String>> {
    guarded(|| {
        let mut c = Cursor::new(Vec::new());
        match WmoWriter::new().write_root(&mut c, x, v) {
            Ok(()) => Ok(c.into_inner()),
            Err(e) => Err(e.to_string()),
        }
    })
}

fn write_group_bytes(g: &WmoGroup, v: WmoVersion) -> Guarded<std::result::Result<Vec<u8>, String>> {
    guarded(|| {
        let mut c = Cursor::new(Vec::new());
        match WmoWriter::new().write_group(&mut c, g, v) {
            Ok(()) => Ok(c.into_inner()),
            Err(e) => Err(e.to_string()),
        }
    })
}

/// One symptom per differing section (the set of differing fields is part of the class); the
/// header section holds independent scalar fields and gets one symptom per field.
fn report(r: &mut CaseResult, prefix: &str, suffix: &str, d: &Diff) {
    if d.section == "header" {
        for f in &d.fields {
            add(r, format!("{prefix}: header.{f} {suffix}"), d.detail.clone());
        }
    } else {
        add(r, format!("{prefix}: {}.{{{}}} {suffix}", d.section, d.fields.join(",")), d.detail.clone());
    }
}

fn first_diff(a: &[u8], b: &[u8]) -> String {
    let n = a.len().min(b.len());
    let at = (0..n).find(|&i| a[i] != b[i]).unwrap_or(n);
    format!("lengths {} / {}, first difference at byte {}", a.len(), b.len(), at)
}

fn section_of_root_chunk(id: &str) -> Option<&'static str> {
    Some(match id {
        "MOTX" => "textures",
        "MOMT" => "materials",
        "MOGN" | "MOGI" => "groups",
        "MOSB" => "skybox",
        "MOPV" | "MOPT" => "portals",
        "MOPR" => "portal_references",
        "MOVV" | "MOVB" => "visible_block_lists",
        "MOLT" => "lights",
        "MODN" | "MODD" => "doodad_defs",
        "MODS" => "doodad_sets",
        _ => return None,
    })
}

fn section_of_group_chunk(id: &str) -> Option<&'static str> {
    Some(match id {
        "MOVT" => "vertices",
        "MOVI" => "indices",
        "MONR" => "normals",
        "MOTV" => "tex_coords",
        "MOCV" => "vertex_colors",
        "MOBA" => "batches",
        "MOBN" => "bsp_nodes",
        "MLIQ" => "liquid",
        "MODR" => "doodad_refs",
        _ => return None,
    })
}

const SYM_MOHD: &str = "root: MOHD chunk is not the 64 bytes parse_wmo reads (trailing header fields are taken from the following bytes or hit end of file)";
const SYM_GHDR: &str = "group: MOGP header is not the 68 bytes parse_wmo reads (sub-chunks are misparsed or the size subtraction overflows)";
const REFRAMED: &str = " [sub-chunks re-framed behind a 68-byte MOGP header]";

// ------------------------------------------------------------------ thorough-tier oracles

/// `discover_wmo_chunks` (stage 1 of `parse_wmo`) must see exactly the top-level chunk sequence
/// the independent walker sees in a file whose chunks tile.
fn discovery_oracle(r: &mut CaseResult, kind: &str, w: &[u8], wk: &Walk) {
    if !wk.gaps.is_empty() {
        return;
    }
    let mut cur = Cursor::new(w);
    match guarded(|| discover_wmo_chunks(&mut cur)) {
        Ok(Ok(d)) => {
            r.count("discoveries_compared", 1);
            let got: Vec<(String, u64, u32)> = d.chunks.iter().map(|c| (c.id.as_str().to_string(), c.offset, c.size)).collect();
            let want: Vec<(String, u64, u32)> = wk.chunks.iter().map(|c| (c.id.clone(), c.hdr as u64, (c.end - c.start) as u32)).collect();
            if got != want || d.is_truncated() || d.has_malformed_chunks() || d.file_size != w.len() as u64 {
                let at = got.iter().zip(&want).position(|(a, b)| a != b).unwrap_or(got.len().min(want.len()));
                add(
                    r,
                    format!("{kind}: discover_wmo_chunks does not report the chunk sequence that was written"),
                    format!("{} vs {} chunks, first difference at chunk {}, truncated={} malformed={}", got.len(), want.len(), at, d.is_truncated(), d.has_malformed_chunks()),
                );
            }
        }
        Ok(Err(e)) => add(r, format!("{kind}: discover_wmo_chunks fails on a written file"), e.to_string()),
        Err((file, line, msg)) => add(r, panic_class(&file, &msg), format!("discover_wmo_chunks: panic at {file}:{line}: {msg}")),
    }
}

/// A parsed file carries version Classic (all of Classic..MoP are stored as 17). Bringing it to
/// the version it was written for, through `WmoConverter::convert_root` and through
/// `WmoEditor::convert_to_version` + `save_root`, must reproduce the file byte for byte.
fn chain_through_converter_and_editor(r: &mut CaseResult, w1: &[u8], v: WmoVersion) {
    let reparse = |w: &[u8]| guarded(|| WmoParser::new().parse_root(&mut Cursor::new(w))).ok().and_then(|x| x.ok());
    if let Some(mut q) = reparse(w1) {
        match guarded(|| WmoConverter::new().convert_root(&mut q, v)) {
            Ok(Ok(())) => match write_root_bytes(&q, v) {
                Ok(Ok(w3)) => {
                    if w3 != w1 {
                        add(r, "root: parse_root -> convert_root(written version) -> write_root is not byte-identical to the first write".into(), first_diff(w1, &w3));
                    } else {
                        r.count("converter_chain_writes_identical", 1);
                    }
                }
                Ok(Err(e)) => add(r, "root: writer refuses the root it wrote, parsed and converted back to the written version".into(), e),
                Err((file, line, msg)) => add(r, panic_class(&file, &msg), format!("write after parse+convert: panic at {file}:{line}: {msg}")),
            },
            Ok(Err(_)) => r.count("converter_chain_refused", 1),
            Err((file, line, msg)) => add(r, panic_class(&file, &msg), format!("convert_root on a parsed root: panic at {file}:{line}: {msg}")),
        }
    }
    if let Some(q) = reparse(w1) {
        let res = guarded(|| {
            let mut ed = WmoEditor::new(q);
            if ed.convert_to_version(v).is_err() {
                return None;
            }
            let mut c = Cursor::new(Vec::new());
            match ed.save_root(&mut c) {
                Ok(()) => Some(Ok(c.into_inner())),
                Err(e) => Some(Err(e.to_string())),
            }
        });
        match res {
            Ok(Some(Ok(w4))) => {
                if w4 != w1 {
                    add(r, "root: parse_root -> WmoEditor::convert_to_version(written version) -> save_root is not byte-identical to the first write".into(), first_diff(w1, &w4));
                } else {
                    r.count("editor_chain_writes_identical", 1);
                }
            }
            Ok(Some(Err(e))) => add(r, "root: WmoEditor::save_root refuses the root it loaded from a written file".into(), e),
            Ok(None) => r.count("editor_chain_refused", 1),
            Err((file, line, msg)) => add(r, panic_class(&file, &msg), format!("editor chain: panic at {file}:{line}: {msg}")),
        }
    }
}

// ------------------------------------------------------------------ root oracle

struct RootOutcome {
    tiling: &'static str,
    parse_root: &'static str,
    parse_wmo: &'static str,
    second: &'static str,
}

/// `deep` (thorough tier only): additional oracles — chunk discovery against the walker, the
/// parse -> convert -> write and parse -> editor -> save chains, a second write->parse generation
/// when the first one differs.
fn check_root(x: &WmoRoot, v: WmoVersion, r: &mut CaseResult, deep: bool) -> RootOutcome {
    let mut oc = RootOutcome { tiling: "-", parse_root: "-", parse_wmo: "-", second: "skipped" };
    let w1 = match write_root_bytes(x, v) {
        Ok(Ok(b)) => b,
        Ok(Err(_)) => {
            r.err_return = true;
            oc.tiling = "writer_err";
            return oc;
        }
        Err((file, line, msg)) => {
            add(r, panic_class(&file, &msg), format!("write_root: panic at {file}:{line}: {msg}"));
            oc.tiling = "writer_panic";
            return oc;
        }
    };
    r.count("bytes_written", w1.len() as u64);

    // ---- independent walker
    let wk = walk(&w1, 0, w1.len(), &ROOT_IDS);
    // sections not judged through the parsers: their chunk has a wrong size field, or lies behind
    // such a chunk (what a parser finds there is a consequence of the size defect reported here)
    let mut broken: Vec<String> = vec![];
    let first_gap = wk.gaps.iter().map(|g| g.at).min().unwrap_or(usize::MAX);
    for c in &wk.chunks {
        if c.hdr >= first_gap {
            if let Some(s) = section_of_root_chunk(&c.id) {
                broken.push(s.to_string());
            }
        }
    }
    oc.tiling = if wk.gaps.is_empty() { "tiles" } else { "gaps" };
    for g in &wk.gaps {
        add(
            r,
            format!("root: chunk {} size field does not cover the bytes written (next chunk header not where the size says)", g.after),
            format!("{} uncovered bytes at offset {} after chunk {}; chunks found: {:?}", g.len, g.at, g.after, wk.ids()),
        );
        if let Some(s) = section_of_root_chunk(&g.after) {
            broken.push(s.to_string());
        }
    }
    if broken.iter().any(|b| b == "groups") {
        // parse_root may derive the bounds from the group list, which is out of its reach here
        broken.push("header.bounding_box".to_string());
    }
    for id in ROOT_IDS {
        if wk.count(id) > 1 {
            add(r, format!("root: chunk {id} written more than once"), format!("{:?}", wk.ids()));
        }
    }
    let mver_ok = wk.chunks.first().map(|c| c.id == "MVER" && c.end - c.start == 4 && u32_at(&w1, c.start) == Some(17)).unwrap_or(false);
    if !mver_ok {
        add(r, "root: MVER is not the first chunk with version 17".into(), format!("{:?}", wk.ids()));
    }
    if deep {
        discovery_oracle(r, "root", &w1, &wk);
    }
    let mohd = wk.chunks.get(1).filter(|c| c.id == "MOHD" && c.end - c.start >= 36).cloned();
    if mohd.is_none() {
        add(r, "root: MOHD is not the second chunk (or is shorter than its count fields)".into(), format!("{:?}", wk.ids()));
    }
    let data = |id: &str| wk.get(id).map(|c| &w1[c.start..c.end]);
    if let Some(h) = &mohd {
        let modn_strings = data("MODN").map(count_strings).unwrap_or(0);
        let counts: [(&str, usize, usize); 7] = [
            ("n_materials", 0, x.materials.len()),
            ("n_groups", 4, x.groups.len()),
            ("n_portals", 8, x.portals.len()),
            ("n_lights", 12, x.lights.len()),
            ("n_doodad_names", 16, modn_strings),
            ("n_doodad_defs", 20, x.doodad_defs.len()),
            ("n_doodad_sets", 24, x.doodad_sets.len()),
        ];
        for (name, off, want) in counts {
            let got = u32_at(&w1, h.start + off).unwrap_or(u32::MAX) as usize;
            if got != want {
                add(
                    r,
                    format!("root: MOHD {name} does not equal the length of the list written"),
                    format!("MOHD.{name} = {got}, list length = {want}"),
                );
            }
        }
    }
    let portal_vertices: usize = x.portals.iter().map(|p| p.vertices.len()).sum();
    let sized: [(&str, usize, usize); 8] = [
        ("MOMT", 64, x.materials.len()),
        ("MOGI", 32, x.groups.len()),
        ("MOPV", 12, portal_vertices),
        ("MOPT", 20, x.portals.len()),
        ("MOPR", 8, x.portal_references.len()),
        ("MOLT", 48, x.lights.len()),
        ("MODD", 40, x.doodad_defs.len()),
        ("MODS", 32, x.doodad_sets.len()),
    ];
    for (id, rec, n) in sized {
        match wk.get(id) {
            None => {
                if n != 0 {
                    add(r, format!("root: chunk {id} missing although the list is not empty"), format!("{n} records; chunks {:?}", wk.ids()));
                }
            }
            Some(c) => {
                let gap_after = wk.gaps.iter().any(|g| g.after == id);
                if !gap_after && c.end - c.start != rec * n {
                    add(
                        r,
                        format!("root: chunk {id} size is not list length x documented record size"),
                        format!("size {} for {} records of {} bytes", c.end - c.start, n, rec),
                    );
                }
            }
        }
    }
    // string-offset tables
    if let (Some(gi), Some(gn)) = (wk.get("MOGI"), data("MOGN")) {
        for (i, g) in x.groups.iter().enumerate() {
            let off = u32_at(&w1, gi.start + 32 * i + 28).unwrap_or(u32::MAX) as usize;
            let got = cstr_at(gn, off);
            if got != Some(g.name.as_bytes()) {
                add(
                    r,
                    "root: MOGI name offset does not resolve to the group's name in MOGN".into(),
                    format!("group {i} {:?}: offset {off} resolves to {:?}", g.name, got.map(String::from_utf8_lossy)),
                );
                break;
            }
        }
    }
    if let (Some(mt), Some(tx)) = (wk.get("MOMT"), data("MOTX")) {
        // a material offset that addresses the start of string k of the input's texture table
        // must resolve to that string in the written MOTX
        let starts: std::collections::HashMap<u32, usize> = (0..x.textures.len()).map(|k| (table_offset(&x.textures, k), k)).collect();
        'm: for i in 0..x.materials.len() {
            for (slot, at) in [(0usize, 12usize), (1, 24)] {
                let input_offset = if slot == 0 { x.materials[i].texture1 } else { x.materials[i].texture2 };
                let Some(&k) = starts.get(&input_offset) else { continue };
                let off = u32_at(&w1, mt.start + 64 * i + at).unwrap_or(u32::MAX) as usize;
                let got = cstr_at(tx, off);
                if got != Some(x.textures[k].as_bytes()) {
                    add(
                        r,
                        "root: MOMT texture offset does not resolve to the material's texture in MOTX".into(),
                        format!("material {i} texture{}: offset {off} resolves to {:?}, want {:?}", slot + 1, got.map(String::from_utf8_lossy), x.textures[k]),
                    );
                    break 'm;
                }
            }
        }
    }
    if let (Some(dd), Some(dn)) = (wk.get("MODD"), data("MODN")) {
        for i in 0..x.doodad_defs.len() {
            let off = (u32_at(&w1, dd.start + 40 * i).unwrap_or(u32::MAX) & 0x00FF_FFFF) as usize;
            if !is_string_start(dn, off) {
                add(r, "root: MODD name offset does not address a string start in MODN".into(), format!("doodad {i}: offset {off}, MODN {} bytes", dn.len()));
                break;
            }
        }
    }

    // ---- WmoParser::parse_root: content equality, header counts, second write
    let expected = root_model(x, Some(v), false);
    let expected_bytes_view = root_model(x, Some(v), true);
    let mut by_parse_root: Vec<String> = vec![]; // "section.field" already reported through parse_root
    let mut cur = Cursor::new(&w1[..]);
    match guarded(|| WmoParser::new().parse_root(&mut cur)) {
        Err((file, line, msg)) => {
            oc.parse_root = "panic";
            add(r, panic_class(&file, &msg), format!("parse_root: panic at {file}:{line}: {msg}"));
        }
        Ok(Err(e)) => {
            oc.parse_root = "err";
            add(r, "root: parse_root fails on a written file".into(), e.to_string());
        }
        Ok(Ok(p)) => {
            oc.parse_root = "ok";
            let (ds, nf) = diff(&expected, &root_model(&p, None, false), &broken);
            r.count("fields_compared_parse_root", nf);
            for d in &ds {
                report(r, "root", "differs after write->parse_root", d);
                for f in &d.fields {
                    by_parse_root.push(format!("{}.{}", d.section, f));
                }
            }
            let lens: [(&str, &str, u32, usize); 6] = [
                ("n_materials", "materials", p.header.n_materials, p.materials.len()),
                ("n_groups", "groups", p.header.n_groups, p.groups.len()),
                ("n_portals", "portals", p.header.n_portals, p.portals.len()),
                ("n_lights", "lights", p.header.n_lights, p.lights.len()),
                ("n_doodad_defs", "doodad_defs", p.header.n_doodad_defs, p.doodad_defs.len()),
                ("n_doodad_sets", "doodad_sets", p.header.n_doodad_sets, p.doodad_sets.len()),
            ];
            for (name, section, stored, len) in lens {
                if broken.iter().any(|b| b == section) {
                    continue;
                }
                if stored as usize != len {
                    add(r, format!("root: parsed header {name} differs from the parsed list length"), format!("{stored} vs {len}"));
                }
            }
            if p.textures == x.textures {
                let ok = p.texture_offset_index_map.len() == x.textures.len()
                    && (0..x.textures.len()).all(|k| p.texture_offset_index_map.get(&table_offset(&x.textures, k)) == Some(&(k as u32)));
                if !ok {
                    let mut m: Vec<_> = p.texture_offset_index_map.iter().collect();
                    m.sort();
                    add(r, "root: texture_offset_index_map does not map each MOTX offset to its texture index".into(), format!("{:?}", m));
                }
            }
            if ds.is_empty() && wk.gaps.is_empty() {
                match write_root_bytes(&p, v) {
                    Ok(Ok(w2)) => {
                        if w2 != w1 {
                            oc.second = "differs";
                            add(r, "root: second write is not byte-identical".into(), first_diff(&w1, &w2));
                        } else {
                            oc.second = "identical";
                            r.count("second_writes_identical", 1);
                        }
                    }
                    Ok(Err(e)) => add(r, "root: writer refuses the root it wrote and parsed".into(), e),
                    Err((file, line, msg)) => add(r, panic_class(&file, &msg), format!("second write_root: panic at {file}:{line}: {msg}")),
                }
                if deep {
                    chain_through_converter_and_editor(r, &w1, v);
                }
            }
            if deep && !ds.is_empty() && wk.gaps.is_empty() {
                // second generation: the parsed root is a root too; what was not already reported
                // for the first generation must survive another write->parse
                let mut sk = broken.clone();
                sk.extend(by_parse_root.iter().cloned());
                if let Ok(Ok(w2)) = write_root_bytes(&p, v) {
                    let mut cur = Cursor::new(&w2[..]);
                    match guarded(|| WmoParser::new().parse_root(&mut cur)) {
                        Ok(Ok(p2)) => {
                            let (ds2, nf2) = diff(&root_model(&p, None, false), &root_model(&p2, None, false), &sk);
                            r.count("fields_compared_second_generation", nf2);
                            for d in &ds2 {
                                report(r, "root", "differs after the second write->parse_root generation", d);
                            }
                        }
                        Ok(Err(e)) => add(r, "root: parse_root fails on the second-generation file".into(), e.to_string()),
                        Err((file, line, msg)) => add(r, panic_class(&file, &msg), format!("second-generation parse_root: panic at {file}:{line}: {msg}")),
                    }
                }
            }
        }
    }

    // ---- parse_wmo (binrw parser): same content seen through the other public parser
    let mohd_ok = mohd.as_ref().map(|c| c.end - c.start == 64).unwrap_or(false);
    let mut cur = Cursor::new(&w1[..]);
    match guarded(|| parse_wmo(&mut cur)) {
        Err((file, line, msg)) => {
            oc.parse_wmo = "panic";
            if mohd_ok {
                add(r, panic_class(&file, &msg), format!("parse_wmo: panic at {file}:{line}: {msg}"));
            } else {
                add(r, SYM_MOHD.into(), format!("parse_wmo panicked: {msg}"));
            }
        }
        Ok(Err(e)) => {
            oc.parse_wmo = "err";
            // a short MOHD explains an error only when it is the last chunk (the 64-byte read hits end of file)
            let mohd_last = mohd.as_ref().map(|c| c.end == w1.len()).unwrap_or(false);
            if !mohd_ok && mohd_last {
                add(r, SYM_MOHD.into(), format!("MOHD size {:?} and last chunk; parse_wmo: {e}", mohd.as_ref().map(|c| c.end - c.start)));
            } else {
                add(r, "root: parse_wmo fails on a written file".into(), e.to_string());
            }
        }
        Ok(Ok(ParsedWmo::Group(_))) => {
            oc.parse_wmo = "as_group";
            add(r, "root: parse_wmo classifies a written root file as a group file".into(), String::new());
        }
        Ok(Ok(ParsedWmo::Root(n))) => {
            oc.parse_wmo = "ok";
            if n.version != 17 {
                add(r, "root: version differs after write->parse_wmo".into(), format!("{}", n.version));
            }
            if !mohd_ok {
                let want = (x.header.flags.bits() & 0xFFFF) & !WmoFlags::HAS_SKYBOX.bits();
                let got = (n.flags as u32) & !WmoFlags::HAS_SKYBOX.bits();
                if got != want || n.num_lod != 0 {
                    add(
                        r,
                        SYM_MOHD.into(),
                        format!("MOHD size {:?}; flags read {:#x} (want {:#x}), num_lod read {}", mohd.as_ref().map(|c| c.end - c.start), got, want, n.num_lod),
                    );
                }
            }
            // differences already reported through parse_root are writer-side and not repeated
            let mut skip2 = broken.clone();
            skip2.extend(by_parse_root.iter().cloned());
            let (ds, nf) = diff(&expected_bytes_view, &new_root_model(&n, mohd_ok), &skip2);
            r.count("fields_compared_parse_wmo_root", nf);
            for d in &ds {
                report(r, "root", "differs after write->parse_wmo", d);
            }
            if !broken.iter().any(|b| b == "groups") {
                // as sets: a writer may store a duplicated name once
                // (and an unnamed group has no string of its own in a NUL-separated table)
                let want: std::collections::BTreeSet<&String> = x.groups.iter().map(|g| &g.name).filter(|n| !n.is_empty()).collect();
                let got: std::collections::BTreeSet<&String> = n.group_names.iter().collect();
                if want != got {
                    add(r, "root: group_names differs after write->parse_wmo".into(), format!("want {:?} got {:?}", want, got));
                }
            }
            if !broken.iter().any(|b| b == "doodad_defs") && n.doodad_names.len() != n.n_doodad_names as usize {
                add(
                    r,
                    "root: parse_wmo doodad name count differs from MOHD n_doodad_names".into(),
                    format!("{} names, header says {}", n.doodad_names.len(), n.n_doodad_names),
                );
            }
        }
    }
    oc
}

// ------------------------------------------------------------------ group oracle

struct GroupOutcome {
    tiling: String,
    native: &'static str,
    reframed: &'static str,
}

fn mogp68(g: &WmoGroup, sub: &[u8]) -> Vec<u8> {
    let mut out = vec![];
    out.extend_from_slice(b"REVM");
    out.extend_from_slice(&4u32.to_le_bytes());
    out.extend_from_slice(&17u32.to_le_bytes());
    out.extend_from_slice(b"PGOM");
    out.extend_from_slice(&((68 + sub.len()) as u32).to_le_bytes());
    let mut h = vec![];
    h.extend_from_slice(&g.header.name_offset.to_le_bytes());
    h.extend_from_slice(&0u32.to_le_bytes());
    h.extend_from_slice(&g.header.flags.bits().to_le_bytes());
    let b = &g.header.bounding_box;
    for f in [b.min.x, b.min.y, b.min.z, b.max.x, b.max.y, b.max.z] {
        h.extend_from_slice(&f.to_le_bytes());
    }
    h.resize(68, 0);
    out.extend_from_slice(&h);
    out.extend_from_slice(sub);
    out
}

fn check_group(g: &WmoGroup, v: WmoVersion, r: &mut CaseResult, deep: bool) -> GroupOutcome {
    let mut oc = GroupOutcome { tiling: "-".into(), native: "-", reframed: "-" };
    let w1 = match write_group_bytes(g, v) {
        Ok(Ok(b)) => b,
        Ok(Err(_)) => {
            r.err_return = true;
            oc.tiling = "writer_err".into();
            return oc;
        }
        Err((file, line, msg)) => {
            add(r, panic_class(&file, &msg), format!("write_group: panic at {file}:{line}: {msg}"));
            oc.tiling = "writer_panic".into();
            return oc;
        }
    };
    r.count("bytes_written", w1.len() as u64);

    // ---- independent walker: MVER + one MOGP spanning the rest; sub-chunks tile the MOGP payload
    let top = walk(&w1, 0, w1.len(), &GROUP_TOP_IDS);
    let top_ok = top.gaps.is_empty()
        && top.chunks.len() == 2
        && top.chunks[0].id == "MVER"
        && top.chunks[0].end - top.chunks[0].start == 4
        && u32_at(&w1, top.chunks[0].start) == Some(17)
        && top.chunks[1].id == "MOGP"
        && top.chunks[1].end == w1.len();
    if !top_ok {
        add(
            r,
            "group: file is not MVER(17) followed by one MOGP chunk whose size covers the rest of the file".into(),
            format!("chunks {:?}, gaps {:?}, file length {}", top.chunks, top.gaps, w1.len()),
        );
        oc.tiling = "top_broken".into();
        return oc;
    }
    if deep {
        discovery_oracle(r, "group", &w1, &top);
    }
    let mogp = top.chunks[1].clone();
    let lay = group_layout(&w1, &mogp);
    let tiles = lay.sub.gaps.is_empty();
    oc.tiling = match (tiles, lay.header_len) {
        (false, _) => "sub_gaps".into(),
        (true, 68) => "hdr68".into(),
        (true, _) => "hdr_other".into(),
    };
    // sections not judged through the parser: their sub-chunk has a wrong size field or lies behind one
    let mut skip: Vec<String> = vec![];
    if !tiles {
        let first_gap = lay.sub.gaps.iter().map(|g| g.at).min().unwrap_or(usize::MAX);
        for gp in &lay.sub.gaps {
            add(
                r,
                format!("group: sub-chunk {} size field does not cover the bytes written (next sub-chunk header not where the size says)", gp.after),
                format!(
                    "{} uncovered bytes at offset {} after {} (MOGP header {} bytes); sub-chunks {:?}",
                    gp.len,
                    gp.at,
                    gp.after,
                    lay.header_len,
                    lay.sub.ids()
                ),
            );
            if let Some(s) = section_of_group_chunk(&gp.after) {
                skip.push(s.to_string());
            }
        }
        // everything the writer emits behind the first bad size is out of reach of a chunk reader
        let order = ["MOVT", "MOVI", "MONR", "MOTV", "MOCV", "MOBA", "MOBN", "MLIQ", "MODR"];
        let bad: Vec<&str> = lay.sub.gaps.iter().map(|g| g.after.as_str()).collect();
        let mut behind = false;
        for id in order {
            if behind || lay.sub.get(id).map(|c| c.hdr >= first_gap).unwrap_or(false) {
                skip.push(section_of_group_chunk(id).unwrap().to_string());
            }
            if bad.contains(&id) {
                behind = true;
            }
        }
    }
    let sized: [(&str, usize, usize); 8] = [
        ("MOVT", 12, g.vertices.len()),
        ("MOVI", 2, g.indices.len()),
        ("MONR", 12, g.normals.len()),
        ("MOTV", 8, g.tex_coords.len()),
        ("MOCV", 4, g.vertex_colors.as_ref().map(|c| c.len()).unwrap_or(0)),
        ("MOBA", 24, g.batches.len()),
        ("MOBN", 16, g.bsp_nodes.as_ref().map(|c| c.len()).unwrap_or(0)),
        ("MODR", 2, g.doodad_refs.as_ref().map(|c| c.len()).unwrap_or(0)),
    ];
    for (id, rec, n) in sized {
        if lay.sub.count(id) > 1 {
            add(r, format!("group: sub-chunk {id} written more than once"), format!("{:?}", lay.sub.ids()));
        }
        match lay.sub.get(id) {
            None => {
                if n != 0 && !skip.iter().any(|s| s == section_of_group_chunk(id).unwrap()) {
                    add(r, format!("group: sub-chunk {id} missing although the list is not empty"), format!("{n} records; sub-chunks {:?}", lay.sub.ids()));
                }
            }
            Some(c) => {
                let gap_after = lay.sub.gaps.iter().any(|x| x.after == id);
                if !gap_after && c.end - c.start != rec * n {
                    add(
                        r,
                        format!("group: sub-chunk {id} size is not list length x documented record size"),
                        format!("size {} for {} records of {} bytes", c.end - c.start, n, rec),
                    );
                }
            }
        }
    }
    if g.liquid.is_some() != lay.sub.get("MLIQ").is_some() && !skip.iter().any(|s| s == "liquid") {
        add(r, "group: MLIQ sub-chunk presence differs from the liquid in the input".into(), format!("{:?}", lay.sub.ids()));
    }

    // ---- parse_wmo on the bytes as written
    let expected = group_model(g);
    let hdr_ok = lay.header_len == 68;
    let mut cur = Cursor::new(&w1[..]);
    let native = guarded(|| parse_wmo(&mut cur));
    let mut native_bad: Option<String> = None;
    match native {
        Err((file, line, msg)) => {
            oc.native = "panic";
            if hdr_ok {
                add(r, panic_class(&file, &msg), format!("parse_wmo(group): panic at {file}:{line}: {msg}"));
            } else {
                native_bad = Some(format!("parse_wmo panicked at {file}:{line}: {msg}"));
            }
        }
        Ok(Err(e)) => {
            oc.native = "err";
            if hdr_ok {
                add(r, "group: parse_wmo fails on a written file".into(), e.to_string());
            } else {
                native_bad = Some(format!("parse_wmo: {e}"));
            }
        }
        Ok(Ok(ParsedWmo::Root(_))) => {
            oc.native = "as_root";
            add(r, "group: parse_wmo classifies a written group file as a root file".into(), String::new());
        }
        Ok(Ok(ParsedWmo::Group(n))) => {
            oc.native = "ok";
            let (ds, nf) = diff(&expected, &new_group_model(&n, deep), &skip);
            if hdr_ok {
                r.count("fields_compared_parse_wmo_group", nf);
            }
            if n.version != 17 {
                add(r, "group: version differs after write->parse_wmo".into(), format!("{}", n.version));
            }
            if hdr_ok {
                for d in &ds {
                    report(r, "group", "differs after write->parse_wmo", d);
                }
            } else if let Some(d) = ds.first() {
                native_bad = Some(format!("{} sections differ, first: {} {}", ds.len(), d.section, d.detail));
            }
        }
    }
    if let Some(why) = native_bad {
        add(r, SYM_GHDR.into(), format!("header length found by the walker: {}; {}", lay.header_len, why));
    }

    // ---- the writer's sub-chunk bytes behind a well-formed 68-byte header, judged by parse_wmo
    if !hdr_ok {
        let sub = &w1[mogp.start + lay.header_len..mogp.end];
        let w = mogp68(g, sub);
        let mut cur = Cursor::new(&w[..]);
        let mut sk = skip.clone();
        sk.push("header".to_string());
        match guarded(|| parse_wmo(&mut cur)) {
            Err((file, line, msg)) => {
                oc.reframed = "panic";
                add(r, format!("{}{}", panic_class(&file, &msg), REFRAMED), format!("panic at {file}:{line}: {msg}"));
            }
            Ok(Err(e)) => {
                oc.reframed = "err";
                add(r, format!("group: parse_wmo fails on a written file{REFRAMED}"), e.to_string());
            }
            Ok(Ok(ParsedWmo::Root(_))) => {
                oc.reframed = "as_root";
            }
            Ok(Ok(ParsedWmo::Group(n))) => {
                oc.reframed = "ok";
                let (ds, nf) = diff(&expected, &new_group_model(&n, deep), &sk);
                r.count("fields_compared_parse_wmo_group_reframed", nf);
                for d in &ds {
                    report(r, "group", &format!("differs after write->parse_wmo{REFRAMED}"), d);
                }
            }
        }
    }
    oc
}

// ------------------------------------------------------------------ spaces

fn k_for(space: &str, tier: Tier) -> usize {
    match space {
        "root" | "group" => tier.pick(3, 4),
        _ => tier.pick(2, 3),
    }
}

/// thorough tier: deviations over the extended alphabets (on top of the full product of the quick levels)
/// ((from the empty baseline, from the full baseline) without heavy levels, vectors with a heavy level)
fn k_deep(space: &str) -> ((usize, usize), usize) {
    match space {
        "root" => ((4, 3), 2),
        "group" => ((4, 4), 2),
        _ => ((2, 2), 1),
    }
}

fn cfgs_for(space: &str, root: bool, tier: Tier) -> Vec<Vec<u8>> {
    match tier {
        Tier::Quick => {
            if root {
                configs(&ROOT_SITES, k_for(space, tier))
            } else {
                configs(&GROUP_SITES, k_for(space, tier))
            }
        }
        Tier::Thorough => {
            let (k, kh) = k_deep(space);
            if root {
                configs_deep(&ROOT_SITES_X, &ROOT_PROD, &editor_full_cfg(), k, kh)
            } else {
                configs_deep(&GROUP_SITES_X, &GROUP_PROD, &full_baseline(&GROUP_SITES), k, kh)
            }
        }
    }
}

fn sites_of(root: bool, deep: bool) -> &'static [Site] {
    match (root, deep) {
        (true, false) => &ROOT_SITES,
        (true, true) => &ROOT_SITES_X,
        (false, false) => &GROUP_SITES,
        (false, true) => &GROUP_SITES_X,
    }
}

struct RoundTrip {
    root: bool,
    deep: bool,
    cfgs: Vec<Vec<u8>>,
}
impl RoundTrip {
    fn sites(&self) -> &'static [Site] {
        sites_of(self.root, self.deep)
    }
    fn split(&self, i: u64) -> (&Vec<u8>, WmoVersion) {
        (&self.cfgs[(i / 5) as usize], VERSIONS[(i % 5) as usize])
    }
}
fn cfg_string(sites: &[Site], cfg: &[u8]) -> String {
    let parts: Vec<String> = sites.iter().zip(cfg).map(|(s, &l)| format!("{}={}", s.name, s.levels[l as usize])).collect();
    parts.join(" ")
}
impl Space for RoundTrip {
    fn len(&self) -> u64 {
        self.cfgs.len() as u64 * 5
    }
    fn describe(&self, i: u64) -> Value {
        let (cfg, v) = self.split(i);
        json!({"kind": if self.root { "root" } else { "group" }, "version": vname(v), "cfg": cfg_string(self.sites(), cfg)})
    }
    fn run(&self, i: u64) -> CaseResult {
        let (cfg, v) = self.split(i);
        let mut r = CaseResult::new();
        r.key = format!("{}:{:?}:{}", self.root, cfg, vname(v));
        r.nontrivial = cfg.iter().any(|&l| l != 0);
        if self.root {
            let x = build_root(cfg, v);
            let oc = check_root(&x, v, &mut r, self.deep);
            r.outcome = format!("root tiling={} parse_root={} parse_wmo={} second={}", oc.tiling, oc.parse_root, oc.parse_wmo, oc.second);
            r.count("root_roundtrips", 1);
        } else {
            let g = build_group(cfg);
            let oc = check_group(&g, v, &mut r, self.deep);
            r.outcome = format!("group tiling={} native={} reframed={}", oc.tiling, oc.native, oc.reframed);
            r.count("group_roundtrips", 1);
        }
        r
    }
    fn case_timeout(&self) -> u64 {
        if self.deep {
            120
        } else {
            30
        }
    }
}

struct Convert {
    root: bool,
    deep: bool,
    cfgs: Vec<Vec<u8>>,
}
impl Convert {
    fn split(&self, i: u64) -> (&Vec<u8>, WmoVersion, WmoVersion) {
        let p = i % 25;
        (&self.cfgs[(i / 25) as usize], VERSIONS[(p / 5) as usize], VERSIONS[(p % 5) as usize])
    }
}

/// Content that the library itself treats as not representable on one side of the pair is
/// blanked on both sides before comparing (skybox below WotLK, shadow-batch material flags below
/// MoP, HAS_SKYBOX header flag which the writer derives).
fn normalise_root(x: &mut WmoRoot, a: WmoVersion, b: WmoVersion) {
    if a < WmoVersion::Wotlk || b < WmoVersion::Wotlk {
        x.skybox = None;
    }
    if a < WmoVersion::Mop || b < WmoVersion::Mop {
        for m in x.materials.iter_mut() {
            m.flags &= !(WmoMaterialFlags::SHADOW_BATCH_1 | WmoMaterialFlags::SHADOW_BATCH_2);
        }
    }
    x.header.flags &= !WmoFlags::HAS_SKYBOX;
}
fn normalise_group(g: &mut WmoGroup, a: WmoVersion, b: WmoVersion) {
    if a < WmoVersion::Cataclysm || b < WmoVersion::Cataclysm {
        g.header.flags &= !(WmoGroupFlags::HAS_MORE_MOTION_TYPES | WmoGroupFlags::USE_SCENE_GRAPH | WmoGroupFlags::EXTERIOR_BSP);
    }
    // every version in Classic..MoP is below Legion
    g.header.flags &= !WmoGroupFlags::MOUNT_ALLOWED;
}

impl Space for Convert {
    fn len(&self) -> u64 {
        self.cfgs.len() as u64 * 25
    }
    fn describe(&self, i: u64) -> Value {
        let (cfg, a, b) = self.split(i);
        let sites: &[Site] = sites_of(self.root, self.deep);
        json!({"kind": if self.root { "convert_root" } else { "convert_group" }, "from": vname(a), "to": vname(b), "cfg": cfg_string(sites, cfg)})
    }
    fn run(&self, i: u64) -> CaseResult {
        let (cfg, a, b) = self.split(i);
        let mut r = CaseResult::new();
        r.key = format!("conv{}:{:?}:{}>{}", self.root, cfg, vname(a), vname(b));
        r.nontrivial = cfg.iter().any(|&l| l != 0);
        r.count("conversions", 1);
        let conv = WmoConverter::new();
        if self.root {
            let mut x = build_root(cfg, a);
            match guarded(|| conv.convert_root(&mut x, b)) {
                Err((file, line, msg)) => {
                    add(&mut r, panic_class(&file, &msg), format!("convert_root: panic at {file}:{line}: {msg}"));
                    r.outcome = "convert_root panic".into();
                    return r;
                }
                Ok(Err(_)) => {
                    r.err_return = true;
                    r.outcome = "convert_root refused".into();
                    return r;
                }
                Ok(Ok(())) => {}
            }
            if x.version != b {
                add(&mut r, "convert_root: version field is not the target version afterwards".into(), format!("{:?} -> {:?}: {:?}", a, b, x.version));
            }
            let mut want = build_root(cfg, a);
            normalise_root(&mut want, a, b);
            normalise_root(&mut x, a, b);
            let (ds, nf) = diff(&root_model(&want, None, false), &root_model(&x, None, false), &[]);
            r.count("fields_compared_conversion", nf);
            for d in &ds {
                report(&mut r, "convert_root", "is not preserved", d);
            }
            if x.textures != want.textures || x.convex_volume_planes.is_some() {
                add(&mut r, "convert_root: textures / convex volume planes changed".into(), String::new());
            }
            if ds.is_empty() {
                let mut direct = build_root(cfg, b);
                normalise_root(&mut direct, a, b);
                match (write_root_bytes(&x, b), write_root_bytes(&direct, b)) {
                    (Ok(Ok(w1)), Ok(Ok(w2))) => {
                        if w1 != w2 {
                            add(&mut r, "convert_root: written bytes differ from the same content built directly at the target version".into(), first_diff(&w1, &w2));
                        }
                    }
                    (Ok(Err(_)), _) => r.err_return = true,
                    (Err((file, line, msg)), _) => add(&mut r, panic_class(&file, &msg), format!("write after convert_root: panic at {file}:{line}: {msg}")),
                    _ => {}
                }
            }
            r.outcome = format!("convert_root {}", if a == b { "same" } else if a < b { "up" } else { "down" });
        } else {
            let mut g = build_group(cfg);
            match guarded(|| conv.convert_group(&mut g, b, a)) {
                Err((file, line, msg)) => {
                    add(&mut r, panic_class(&file, &msg), format!("convert_group: panic at {file}:{line}: {msg}"));
                    r.outcome = "convert_group panic".into();
                    return r;
                }
                Ok(Err(_)) => {
                    r.err_return = true;
                    r.outcome = "convert_group refused".into();
                    return r;
                }
                Ok(Ok(())) => {}
            }
            let mut want = build_group(cfg);
            if a == b {
                // identity conversion: nothing at all may change
            } else {
                normalise_group(&mut want, a, b);
                normalise_group(&mut g, a, b);
            }
            let (ds, nf) = diff(&group_model(&want), &group_model(&g), &[]);
            r.count("fields_compared_conversion", nf);
            for d in &ds {
                report(&mut r, "convert_group", "is not preserved", d);
            }
            if ds.is_empty() {
                match (write_group_bytes(&g, b), write_group_bytes(&want, b)) {
                    (Ok(Ok(w1)), Ok(Ok(w2))) => {
                        if w1 != w2 {
                            add(&mut r, "convert_group: written bytes differ from the same content built directly".into(), first_diff(&w1, &w2));
                        }
                    }
                    (Ok(Err(_)), _) => r.err_return = true,
                    (Err((file, line, msg)), _) => add(&mut r, panic_class(&file, &msg), format!("write after convert_group: panic at {file}:{line}: {msg}")),
                    _ => {}
                }
            }
            r.outcome = format!("convert_group {}", if a == b { "same" } else if a < b { "up" } else { "down" });
        }
        r
    }
    fn case_timeout(&self) -> u64 {
        if self.deep {
            120
        } else {
            60
        }
    }
}

/// Thorough tier: conversion chains A -> B -> C against the direct conversion A -> C and against
/// the original, followed by the full write->parse oracle on the state the chain reached.
struct ConvertChain {
    root: bool,
    cfgs: Vec<Vec<u8>>,
}
impl ConvertChain {
    fn split(&self, i: u64) -> (&Vec<u8>, [WmoVersion; 3]) {
        let p = i % 125;
        (&self.cfgs[(i / 125) as usize], [VERSIONS[(p / 25) as usize], VERSIONS[(p / 5 % 5) as usize], VERSIONS[(p % 5) as usize]])
    }
}
fn lowest(path: &[WmoVersion]) -> WmoVersion {
    *path.iter().min().unwrap()
}
impl Space for ConvertChain {
    fn len(&self) -> u64 {
        self.cfgs.len() as u64 * 125
    }
    fn describe(&self, i: u64) -> Value {
        let (cfg, p) = self.split(i);
        json!({"kind": if self.root { "convert_chain_root" } else { "convert_chain_group" }, "path": format!("{}>{}>{}", vname(p[0]), vname(p[1]), vname(p[2])), "cfg": cfg_string(sites_of(self.root, true), cfg)})
    }
    fn run(&self, i: u64) -> CaseResult {
        let (cfg, p) = self.split(i);
        let [a, b, c] = p;
        let mut r = CaseResult::new();
        r.key = format!("chain{}:{:?}:{}>{}>{}", self.root, cfg, vname(a), vname(b), vname(c));
        r.nontrivial = cfg.iter().any(|&l| l != 0);
        r.count("conversion_chains", 1);
        let conv = WmoConverter::new();
        let low = lowest(&p);
        if self.root {
            let mut x = build_root(cfg, a);
            let mut direct = build_root(cfg, a);
            let res = guarded(|| -> std::result::Result<(), WmoError> {
                conv.convert_root(&mut x, b)?;
                conv.convert_root(&mut x, c)?;
                conv.convert_root(&mut direct, c)
            });
            match res {
                Err((file, line, msg)) => {
                    add(&mut r, panic_class(&file, &msg), format!("convert_root chain: panic at {file}:{line}: {msg}"));
                    r.outcome = "chain_root panic".into();
                    return r;
                }
                Ok(Err(_)) => {
                    r.err_return = true;
                    r.outcome = "chain_root refused".into();
                    return r;
                }
                Ok(Ok(())) => {}
            }
            if x.version != c {
                add(&mut r, "convert_root: version field is not the target version afterwards".into(), format!("{:?}: {:?}", p, x.version));
            }
            // the state the chain reached through the writer and both parsers
            let oc = check_root(&x, c, &mut r, false);
            // what every version on the path can carry must be what the direct conversion and the original have
            let mut want = build_root(cfg, a);
            normalise_root(&mut want, low, low);
            normalise_root(&mut x, low, low);
            normalise_root(&mut direct, low, low);
            let (ds, nf) = diff(&root_model(&want, None, false), &root_model(&x, None, false), &[]);
            r.count("fields_compared_conversion", nf);
            for d in &ds {
                report(&mut r, "convert_root chain", "is not preserved", d);
            }
            let (ds2, nf2) = diff(&root_model(&direct, None, false), &root_model(&x, None, false), &[]);
            r.count("fields_compared_conversion", nf2);
            for d in &ds2 {
                report(&mut r, "convert_root chain", "differs from the direct conversion", d);
            }
            r.outcome = format!("chain_root {} parse_root={} second={}", oc.tiling, oc.parse_root, oc.second);
        } else {
            let mut g = build_group(cfg);
            let mut direct = build_group(cfg);
            let res = guarded(|| -> std::result::Result<(), WmoError> {
                conv.convert_group(&mut g, b, a)?;
                conv.convert_group(&mut g, c, b)?;
                conv.convert_group(&mut direct, c, a)
            });
            match res {
                Err((file, line, msg)) => {
                    add(&mut r, panic_class(&file, &msg), format!("convert_group chain: panic at {file}:{line}: {msg}"));
                    r.outcome = "chain_group panic".into();
                    return r;
                }
                Ok(Err(_)) => {
                    r.err_return = true;
                    r.outcome = "chain_group refused".into();
                    return r;
                }
                Ok(Ok(())) => {}
            }
            let oc = check_group(&g, c, &mut r, false);
            let mut want = build_group(cfg);
            if !(a == b && b == c) {
                normalise_group(&mut want, low, low);
                normalise_group(&mut g, low, low);
                normalise_group(&mut direct, low, low);
            }
            let (ds, nf) = diff(&group_model(&want), &group_model(&g), &[]);
            r.count("fields_compared_conversion", nf);
            for d in &ds {
                report(&mut r, "convert_group chain", "is not preserved", d);
            }
            let (ds2, nf2) = diff(&group_model(&direct), &group_model(&g), &[]);
            r.count("fields_compared_conversion", nf2);
            for d in &ds2 {
                report(&mut r, "convert_group chain", "differs from the direct conversion", d);
            }
            r.outcome = format!("chain_group {} native={}", oc.tiling, oc.native);
        }
        r
    }
    fn case_timeout(&self) -> u64 {
        120
    }
}

/// Thorough tier: length ladders. One section holds exactly n records (n = 0..=300), or one string
/// of exactly n bytes, the other sections are all empty or all full.
struct Ladder {
    root: bool,
    /// (axis, n)
    steps: Vec<(&'static str, usize)>,
}
impl Ladder {
    fn new(root: bool) -> Self {
        let mut steps = vec![];
        if root {
            for a in ROOT_LADDERS {
                if ladder_is_2d(a) {
                    for n in 0..41 * 41 {
                        steps.push((a, n));
                    }
                } else {
                    for n in root_ladder_min(a)..=300 {
                        steps.push((a, n));
                    }
                }
            }
        } else {
            for a in GROUP_LADDERS {
                if a == "liquid" {
                    for n in 0..578 {
                        steps.push((a, n));
                    }
                } else {
                    for n in 0..=300 {
                        steps.push((a, n));
                    }
                    if GROUP_SITES_X.iter().any(|s| s.name == a && is_heavy(s.levels[4])) {
                        for n in [65534, 65535, 65536] {
                            steps.push((a, n));
                        }
                    }
                }
            }
        }
        Ladder { root, steps }
    }
    fn split(&self, i: u64) -> ((&'static str, usize), bool, WmoVersion) {
        (self.steps[(i / 10) as usize], i / 5 % 2 == 1, VERSIONS[(i % 5) as usize])
    }
    fn base(&self, full: bool) -> Vec<u8> {
        match (self.root, full) {
            (true, false) => vec![0; ROOT_SITES.len()],
            (true, true) => editor_full_cfg(),
            (false, false) => vec![0; GROUP_SITES.len()],
            (false, true) => full_baseline(&GROUP_SITES),
        }
    }
    fn step_string(&self, st: (&'static str, usize)) -> String {
        if st.0 == "liquid" {
            let (w, h, t) = liquid_ladder(st.1);
            format!("liquid={}x{}{}", w, h, if t { "+tiles" } else { "" })
        } else if let Some((a, b)) = st.0.split_once('*') {
            format!("{}={},{}={}", a, st.1 % 41, b, st.1 / 41)
        } else {
            format!("{}={}", st.0, st.1)
        }
    }
}
impl Space for Ladder {
    fn len(&self) -> u64 {
        self.steps.len() as u64 * 10
    }
    fn describe(&self, i: u64) -> Value {
        let (st, full, v) = self.split(i);
        json!({"kind": if self.root { "root" } else { "group" }, "version": vname(v), "cfg": cfg_string(sites_of(self.root, true), &self.base(full)), "ladder": self.step_string(st)})
    }
    fn run(&self, i: u64) -> CaseResult {
        let (st, full, v) = self.split(i);
        let mut r = CaseResult::new();
        r.key = format!("ladder{}:{}:{}:{}:{}", self.root, st.0, st.1, full, vname(v));
        r.nontrivial = full || st.1 > 0;
        r.count("ladder_steps", 1);
        let cfg = self.base(full);
        if self.root {
            let x = build_root_with(&cfg, v, Some(st));
            let oc = check_root(&x, v, &mut r, true);
            r.outcome = format!("root tiling={} parse_root={} parse_wmo={} second={}", oc.tiling, oc.parse_root, oc.parse_wmo, oc.second);
        } else {
            let g = build_group_with(&cfg, Some(st));
            let oc = check_group(&g, v, &mut r, true);
            r.outcome = format!("group tiling={} native={} reframed={}", oc.tiling, oc.native, oc.reframed);
        }
        r
    }
    fn case_timeout(&self) -> u64 {
        120
    }
}

/// Thorough tier: roots and groups reached through `WmoEditor` operation sequences (including a
/// reload through written bytes), saved with `save_root` / `save_group` and judged by the same
/// write->parse oracles as freshly built ones.
const EDIT_OPS: [&str; 18] = [
    "add_material",
    "remove_material_first",
    "remove_material_last",
    "add_texture",
    "remove_texture_first",
    "create_group",
    "remove_group_first",
    "remove_group_last",
    "add_doodad",
    "remove_doodad_first",
    "add_doodad_set",
    "remove_doodad_set_first",
    "convert_next",
    "convert_mop",
    "recalc_bounds",
    "add_vertex",
    "remove_vertex",
    "reload",
];
const EDIT_STARTS: [&str; 3] = ["empty", "full", "parsed_full"];

struct EditorSpace {
    max_len: u32,
}
impl EditorSpace {
    fn nseq(&self) -> u64 {
        (0..=self.max_len).map(|l| (EDIT_OPS.len() as u64).pow(l)).sum()
    }
    fn split(&self, i: u64) -> (Vec<usize>, usize, WmoVersion) {
        let v = VERSIONS[(i % 5) as usize];
        let s = (i / 5 % EDIT_STARTS.len() as u64) as usize;
        let mut q = i / 5 / EDIT_STARTS.len() as u64;
        let n = EDIT_OPS.len() as u64;
        let mut len = 0u32;
        while q >= n.pow(len) {
            q -= n.pow(len);
            len += 1;
        }
        let mut seq = vec![0usize; len as usize];
        for k in (0..len as usize).rev() {
            seq[k] = (q % n) as usize;
            q /= n;
        }
        (seq, s, v)
    }
}

fn editor_full_cfg() -> Vec<u8> {
    // the full baseline of the quick tier with doodad name offsets the writer reproduces
    let mut cfg = full_baseline(&ROOT_SITES);
    cfg[7] = 3;
    cfg
}

fn next_version(v: WmoVersion) -> WmoVersion {
    let k = VERSIONS.iter().position(|x| *x == v).unwrap_or(0);
    VERSIONS[(k + 1) % 5]
}

/// applies one operation; "ok" / "refused" / "panic"
fn apply_edit(ed: &mut WmoEditor, op: &str, step: usize) -> &'static str {
    let res = guarded(|| -> std::result::Result<Option<WmoEditor>, String> {
        let e = |x: WmoError| x.to_string();
        match op {
            "add_material" => {
                ed.add_material(WmoMaterial {
                    flags: WmoMaterialFlags::UNFOGGED | WmoMaterialFlags::WINDOW_LIGHT,
                    shader: 4 + step as u32,
                    blend_mode: 2,
                    texture1: 0,
                    emissive_color: Color { r: 1, g: 2, b: 3, a: 4 },
                    sidn_color: Color { r: 5, g: 6, b: 7, a: 8 },
                    framebuffer_blend: Color::default(),
                    texture2: 0,
                    diffuse_color: Color { r: 9, g: 10, b: 11, a: 12 },
                    ground_type: 77,
                });
            }
            "remove_material_first" => {
                ed.remove_material(0).map_err(e)?;
            }
            "remove_material_last" => {
                let n = ed.root().materials.len();
                ed.remove_material(n.wrapping_sub(1)).map_err(e)?;
            }
            "add_texture" => {
                ed.add_texture(format!("added\\tex{step}.blp"));
            }
            "remove_texture_first" => {
                ed.remove_texture(0).map_err(e)?;
            }
            "create_group" => {
                ed.create_group(format!("fresh_{step}"));
            }
            "remove_group_first" => {
                ed.remove_group(0).map_err(e)?;
            }
            "remove_group_last" => {
                let n = ed.root().groups.len();
                ed.remove_group(n.wrapping_sub(1)).map_err(e)?;
            }
            "add_doodad" => {
                ed.add_doodad(WmoDoodadDef {
                    name_offset: 0,
                    position: v3(1.0, 2.0, 3.0 + step as f32),
                    orientation: [0.0, 0.0, 0.0, 1.0],
                    scale: 1.5,
                    color: Color { r: 4, g: 3, b: 2, a: 1 },
                    set_index: 0,
                });
            }
            "remove_doodad_first" => {
                ed.remove_doodad(0).map_err(e)?;
            }
            "add_doodad_set" => {
                ed.add_doodad_set(WmoDoodadSet { name: format!("Set_added{step}"), start_doodad: 0, n_doodads: 1 });
            }
            "remove_doodad_set_first" => {
                ed.remove_doodad_set(0).map_err(e)?;
            }
            "convert_next" => {
                let t = next_version(ed.current_version());
                ed.convert_to_version(t).map_err(e)?;
            }
            "convert_mop" => {
                ed.convert_to_version(WmoVersion::Mop).map_err(e)?;
            }
            "recalc_bounds" => {
                ed.recalculate_global_bounding_box().map_err(e)?;
            }
            "add_vertex" => {
                ed.add_vertex(0, v3(100.0 + step as f32, -100.0, 50.5)).map_err(e)?;
            }
            "remove_vertex" => {
                ed.remove_vertex(0, 0).map_err(e)?;
            }
            "reload" => {
                // through bytes: save, parse, open in a new editor at the version it was saved for
                let cur = ed.current_version();
                let mut c = Cursor::new(Vec::new());
                ed.save_root(&mut c).map_err(e)?;
                let bytes = c.into_inner();
                let p = WmoParser::new().parse_root(&mut Cursor::new(&bytes[..])).map_err(e)?;
                let mut ne = WmoEditor::new(p);
                ne.convert_to_version(cur).map_err(e)?;
                return Ok(Some(ne));
            }
            _ => unreachable!(),
        }
        Ok(None)
    });
    match res {
        Ok(Ok(None)) => "ok",
        Ok(Ok(Some(ne))) => {
            *ed = ne;
            "ok"
        }
        Ok(Err(_)) => "refused",
        Err(_) => "panic",
    }
}

impl Space for EditorSpace {
    fn len(&self) -> u64 {
        self.nseq() * EDIT_STARTS.len() as u64 * 5
    }
    fn describe(&self, i: u64) -> Value {
        let (seq, s, v) = self.split(i);
        let ops: Vec<&str> = seq.iter().map(|&k| EDIT_OPS[k]).collect();
        json!({"kind": "editor", "start": EDIT_STARTS[s], "version": vname(v), "ops": ops.join(",")})
    }
    fn run(&self, i: u64) -> CaseResult {
        let (seq, s, v) = self.split(i);
        let mut r = CaseResult::new();
        r.key = format!("ed:{:?}:{}:{}", seq, s, vname(v));
        r.nontrivial = !seq.is_empty() || s != 0;
        r.count("editor_sequences", 1);
        let cfg = if s == 0 { vec![0u8; ROOT_SITES.len()] } else { editor_full_cfg() };
        let mut root = build_root(&cfg, v);
        if s == 2 {
            // start from a file: written, parsed (version Classic), brought back to v by the editor below
            let w = match write_root_bytes(&root, v) {
                Ok(Ok(w)) => w,
                _ => {
                    r.err_return = true;
                    return r;
                }
            };
            root = match guarded(|| WmoParser::new().parse_root(&mut Cursor::new(&w[..]))) {
                Ok(Ok(p)) => p,
                _ => {
                    r.err_return = true;
                    r.outcome = "editor start unreadable".into();
                    return r;
                }
            };
        }
        let mut ed = WmoEditor::new(root);
        if s == 2 && ed.convert_to_version(v).is_err() {
            r.err_return = true;
            return r;
        }
        if s != 0 {
            let mut g = build_group(&full_baseline(&GROUP_SITES));
            g.header.group_index = 0;
            let _ = ed.add_group(g);
        }
        let mut trace: Vec<&'static str> = vec![];
        for (step, &k) in seq.iter().enumerate() {
            let o = apply_edit(&mut ed, EDIT_OPS[k], step);
            match o {
                "ok" => r.count("editor_ops_applied", 1),
                "refused" => r.count("editor_ops_refused", 1),
                _ => r.count("editor_ops_panicked", 1),
            }
            trace.push(o);
        }
        // doodad name offsets: bring them to the values the writer's synthesised name table
        // reproduces (finding F3 is judged in the root space, not here)
        let n = ed.root().doodad_defs.len();
        let offs = synth_offsets(n);
        for (d, o) in ed.root_mut().doodad_defs.iter_mut().zip(offs) {
            d.name_offset = o;
        }
        let cur = ed.current_version();
        // save_root must be the writer on the editor's root
        let saved = guarded(|| {
            let mut c = Cursor::new(Vec::new());
            ed.save_root(&mut c).map(|_| c.into_inner()).map_err(|e| e.to_string())
        });
        match (&saved, write_root_bytes(ed.root(), cur)) {
            (Ok(Ok(a)), Ok(Ok(b))) => {
                if *a != b {
                    add(&mut r, "editor: save_root differs from write_root of the editor's root at its current version".into(), first_diff(a, &b));
                }
            }
            (Err((file, line, msg)), _) => add(&mut r, panic_class(file, msg), format!("save_root: panic at {file}:{line}: {msg}")),
            _ => {}
        }
        let oc = check_root(ed.root(), cur, &mut r, false);
        let mut gout = String::new();
        for gi in 0..ed.group_count() {
            let Some(g) = ed.group(gi) else { continue };
            let saved = guarded(|| {
                let mut c = Cursor::new(Vec::new());
                ed.save_group(&mut c, gi).map(|_| c.into_inner()).map_err(|e| e.to_string())
            });
            if let (Ok(Ok(a)), Ok(Ok(b))) = (&saved, write_group_bytes(g, cur)) {
                if *a != b {
                    add(&mut r, "editor: save_group differs from write_group of the loaded group".into(), first_diff(a, &b));
                }
            }
            let og = check_group(g, cur, &mut r, false);
            r.count("editor_groups_checked", 1);
            if gi == 0 {
                gout = format!(" group0={}/{}", og.tiling, og.native);
            }
        }
        r.outcome = format!("editor [{}] root={}/{}/{}{}", trace.join(","), oc.tiling, oc.parse_root, oc.second, gout);
        r
    }
    fn case_timeout(&self) -> u64 {
        60
    }
}

/// The legacy group parser named by the property's observation points.
struct LegacyGroupParser;
impl Space for LegacyGroupParser {
    fn len(&self) -> u64 {
        10
    }
    fn describe(&self, i: u64) -> Value {
        json!({"kind": "legacy_group_parser", "version": vname(VERSIONS[(i % 5) as usize]), "cfg": if i < 5 { "empty baseline" } else { "full baseline" }})
    }
    fn run(&self, i: u64) -> CaseResult {
        let mut r = CaseResult::new();
        r.key = format!("legacy{i}");
        r.nontrivial = i >= 5;
        let cfg: Vec<u8> = GROUP_SITES.iter().map(|s| if i < 5 { 0 } else { (s.levels.len() - 1) as u8 }).collect();
        let g = build_group(&cfg);
        let v = VERSIONS[(i % 5) as usize];
        if let Ok(Ok(w)) = write_group_bytes(&g, v) {
            let mut cur = Cursor::new(&w[..]);
            match guarded(|| WmoGroupParser::new().parse_group(&mut cur, g.header.group_index)) {
                Ok(Ok(_)) => r.outcome = "legacy parse_group ok".into(),
                Ok(Err(e)) => {
                    r.outcome = "legacy parse_group err".into();
                    add(&mut r, "group: WmoGroupParser::parse_group refuses a written group file".into(), e.to_string());
                }
                Err((file, line, msg)) => add(&mut r, panic_class(&file, &msg), format!("parse_group: panic at {file}:{line}: {msg}")),
            }
        }
        r
    }
}

// ------------------------------------------------------------------ writer position independence

/// Bytes already in the stream in front of the object (another file of a pack, a container header).
const PREFIX_LENS: [usize; 5] = [1, 12, 20, 64, 4096];
/// Every public entry point of wow-wmo that takes a `Write + Seek`.
const POS_ENTRIES: [(&str, bool); 4] = [("WmoWriter::write_root", true), ("WmoEditor::save_root", true), ("WmoWriter::write_group", false), ("WmoEditor::save_group", false)];

/// Known filler: every byte has its high bit set, so no four of them read as a small little-endian
/// size or as a chunk id, and a stray back-patch inside the prefix always changes a byte.
fn prefix_pattern(n: usize) -> Vec<u8> {
    (0..n).map(|i| 0x80 | ((i * 7 + 3) % 0x7f) as u8).collect()
}

/// What one positioned call left behind: Ok((whole buffer, stream position afterwards)) or Err.
type Positioned = Guarded<std::result::Result<(Vec<u8>, u64), String>>;

/// Calls `f` on a `Cursor<Vec<u8>>` that holds `prefix_pattern(prefix)` and stands at its end.
fn write_behind_prefix(prefix: usize, f: &dyn Fn(&mut Cursor<Vec<u8>>) -> wow_wmo::Result<()>) -> Positioned {
    guarded(|| {
        let mut c = Cursor::new(prefix_pattern(prefix));
        c.set_position(prefix as u64);
        match f(&mut c) {
            Ok(()) => {
                let end = c.position();
                Ok((c.into_inner(), end))
            }
            Err(e) => Err(e.to_string()),
        }
    })
}

/// Level vectors of the position space: the empty and the full baseline and every vector with one
/// section deviating from either (quick levels; thorough: the extended alphabets, megabyte levels
/// included). All of them are members of the round-trip spaces, which judge the bytes written at
/// position 0 against the walker and the parsers.
fn position_cfgs(root: bool, tier: Tier) -> Vec<Vec<u8>> {
    match (tier, root) {
        (Tier::Quick, true) => configs(&ROOT_SITES, 1),
        (Tier::Quick, false) => configs(&GROUP_SITES, 1),
        (Tier::Thorough, true) => {
            let one: Vec<&[u8]> = ROOT_SITES_X.iter().map(|_| &[0u8][..]).collect();
            configs_deep(&ROOT_SITES_X, &one, &editor_full_cfg(), (1, 1), 1)
        }
        (Tier::Thorough, false) => {
            let one: Vec<&[u8]> = GROUP_SITES_X.iter().map(|_| &[0u8][..]).collect();
            configs_deep(&GROUP_SITES_X, &one, &full_baseline(&GROUP_SITES), (1, 1), 1)
        }
    }
}

/// Writer position independence: an entry point handed a stream that already holds `prefix` bytes
/// and stands behind them must leave those bytes alone and write behind them exactly the bytes it
/// writes into an empty stream.
struct Position {
    deep: bool,
    /// (entry index into POS_ENTRIES, level vector), simplest vector first, roots before groups
    items: Vec<(usize, Vec<u8>)>,
}
impl Position {
    fn new(tier: Tier) -> Self {
        let mut items = vec![];
        for root in [true, false] {
            for cfg in position_cfgs(root, tier) {
                for (e, (_, is_root)) in POS_ENTRIES.iter().enumerate() {
                    if *is_root == root {
                        items.push((e, cfg.clone()));
                    }
                }
            }
        }
        Position { deep: tier == Tier::Thorough, items }
    }
    fn split(&self, i: u64) -> (usize, &Vec<u8>, WmoVersion, usize) {
        let n = (5 * PREFIX_LENS.len()) as u64;
        let (e, cfg) = &self.items[(i / n) as usize];
        (*e, cfg, VERSIONS[(i % n / PREFIX_LENS.len() as u64) as usize], PREFIX_LENS[(i % PREFIX_LENS.len() as u64) as usize])
    }
}
impl Space for Position {
    fn len(&self) -> u64 {
        (self.items.len() * 5 * PREFIX_LENS.len()) as u64
    }
    fn describe(&self, i: u64) -> Value {
        let (e, cfg, v, prefix) = self.split(i);
        let (entry, root) = POS_ENTRIES[e];
        json!({"kind": "position", "entry": entry, "version": vname(v), "prefix_bytes": prefix, "cfg": cfg_string(sites_of(root, self.deep), cfg)})
    }
    fn run(&self, i: u64) -> CaseResult {
        let (e, cfg, v, prefix) = self.split(i);
        let (entry, _) = POS_ENTRIES[e];
        let mut r = CaseResult::new();
        r.key = format!("pos:{entry}:{:?}:{}:{}", cfg, vname(v), prefix);
        r.nontrivial = cfg.iter().any(|&l| l != 0);

        // the object, behind the entry point under test
        let call: Box<dyn Fn(&mut Cursor<Vec<u8>>) -> wow_wmo::Result<()>> = match entry {
            "WmoWriter::write_root" => {
                let x = build_root(cfg, v);
                Box::new(move |c| WmoWriter::new().write_root(c, &x, v))
            }
            "WmoEditor::save_root" => {
                // a fresh editor saves its root at the root's own version, which build_root sets to v
                let ed = WmoEditor::new(build_root(cfg, v));
                Box::new(move |c| ed.save_root(c))
            }
            "WmoWriter::write_group" => {
                let g = build_group(cfg);
                Box::new(move |c| WmoWriter::new().write_group(c, &g, v))
            }
            _ => {
                // an editor over a root (version v) with one group entry, holding the group as group 0
                let mut rc = vec![0u8; ROOT_SITES.len()];
                rc[2] = 1;
                let mut ed = WmoEditor::new(build_root(&rc, v));
                let mut g = build_group(cfg);
                g.header.group_index = 0;
                if !matches!(guarded(|| ed.add_group(g)), Ok(Ok(()))) {
                    r.err_return = true;
                    r.outcome = format!("position {entry}: editor does not take the group");
                    return r;
                }
                Box::new(move |c| ed.save_group(c, 0))
            }
        };
        // reference: the same call on an empty stream (these bytes are what the round-trip spaces judge)
        let base = match write_behind_prefix(0, call.as_ref()) {
            Ok(Ok((b, _))) => b,
            Ok(Err(_)) => {
                r.err_return = true;
                r.outcome = format!("position {entry}: refused at position 0");
                return r;
            }
            Err(_) => {
                // a panic at position 0 is reported by the round-trip spaces, not here
                r.outcome = format!("position {entry}: panic at position 0");
                return r;
            }
        };
        r.count("positioned_writes", 1);
        match write_behind_prefix(prefix, call.as_ref()) {
            Err((file, line, msg)) => {
                r.outcome = format!("position {entry}: panic behind a prefix");
                add(&mut r, format!("{} [{entry} on a stream positioned behind existing bytes; no panic at position 0]", panic_class(&file, &msg)), format!("prefix {prefix}: panic at {file}:{line}: {msg}"));
            }
            Ok(Err(_)) => {
                // a writer may refuse; nothing is demanded of the stream contents then
                r.err_return = true;
                r.outcome = format!("position {entry}: refused behind a prefix");
            }
            Ok(Ok((buf, end))) => {
                let pat = prefix_pattern(prefix);
                let kept = buf.len() >= prefix && buf[..prefix] == pat[..];
                let same = buf.len() >= prefix && buf[prefix..] == base[..];
                r.count("positioned_bytes_compared", (prefix + base.len()) as u64);
                if end == buf.len() as u64 && end == (prefix + base.len()) as u64 {
                    r.count("positioned_streams_left_at_end", 1);
                }
                if !kept {
                    let at = (0..prefix.min(buf.len())).find(|&k| buf[k] != pat[k]).unwrap_or(buf.len());
                    add(
                        &mut r,
                        format!("position: {entry} changes bytes that were in the stream in front of its start position"),
                        format!("prefix {prefix} bytes, first changed byte at offset {at} ({:#04x} -> {:#04x}), buffer {} bytes afterwards", pat.get(at).copied().unwrap_or(0), buf.get(at).copied().unwrap_or(0), buf.len()),
                    );
                }
                if !same {
                    let tail = if buf.len() >= prefix { &buf[prefix..] } else { &buf[0..0] };
                    add(
                        &mut r,
                        format!("position: {entry} writes other bytes behind a non-zero start position than at position 0"),
                        format!("prefix {prefix} bytes; at position 0 / behind the prefix: {}", first_diff(&base, tail)),
                    );
                }
                r.outcome = format!("position {entry}: prefix {} bytes {}", if kept { "kept" } else { "touched" }, if same { "identical" } else { "differ" });
            }
        }
        r
    }
    fn case_timeout(&self) -> u64 {
        if self.deep {
            120
        } else {
            30
        }
    }
}

/// level vectors of the chain spaces: <= 2 deviations over the extended alphabets, without the
/// doodad levels whose name offsets the writer renumbers (finding F3 is judged in the root space)
fn chain_cfgs(root: bool) -> Vec<Vec<u8>> {
    if root {
        let one: Vec<&[u8]> = ROOT_SITES_X.iter().map(|_| &[0u8][..]).collect();
        configs_deep(&ROOT_SITES_X, &one, &editor_full_cfg(), (2, 2), 1)
            .into_iter()
            .filter(|c| {
                let l = ROOT_SITES_X[7].levels[c[7] as usize];
                !(l.starts_with("one") || l.starts_with("many"))
            })
            .collect()
    } else {
        let one: Vec<&[u8]> = GROUP_SITES_X.iter().map(|_| &[0u8][..]).collect();
        configs_deep(&GROUP_SITES_X, &one, &full_baseline(&GROUP_SITES), (2, 2), 1)
    }
}

fn build(name: &str, _arg: &str, tier: Tier) -> Box<dyn Space> {
    let deep = tier == Tier::Thorough;
    match name {
        "root" => Box::new(RoundTrip { root: true, deep, cfgs: cfgs_for(name, true, tier) }),
        "group" => Box::new(RoundTrip { root: false, deep, cfgs: cfgs_for(name, false, tier) }),
        "convert_root" => Box::new(Convert { root: true, deep, cfgs: cfgs_for(name, true, tier) }),
        "convert_group" => Box::new(Convert { root: false, deep, cfgs: cfgs_for(name, false, tier) }),
        "convert_chain_root" => Box::new(ConvertChain { root: true, cfgs: chain_cfgs(true) }),
        "convert_chain_group" => Box::new(ConvertChain { root: false, cfgs: chain_cfgs(false) }),
        "editor" => Box::new(EditorSpace { max_len: 4 }),
        "ladder_root" => Box::new(Ladder::new(true)),
        "ladder_group" => Box::new(Ladder::new(false)),
        "legacy_group_parser" => Box::new(LegacyGroupParser),
        "position" => Box::new(Position::new(tier)),
        _ => panic!("space {name}"),
    }
}

fn cpu_ms() -> u64 {
    // utime + stime of this process in clock ticks (10 ms)
    let t = std::fs::read_to_string("/proc/self/stat").unwrap_or_default();
    let rest = t.rsplit(')').next().unwrap_or("");
    let f: Vec<&str> = rest.split_whitespace().collect();
    let u: u64 = f.get(11).and_then(|x| x.parse().ok()).unwrap_or(0);
    let s: u64 = f.get(12).and_then(|x| x.parse().ok()).unwrap_or(0);
    (u + s) * 10
}

/// `--profile <space> <stride>`: CPU cost of a thorough space estimated from every stride-th case
fn profile(space: &str, stride: u64) {
    let sp = build(space, "", Tier::Thorough);
    let n = sp.len();
    let t0 = cpu_ms();
    let mut slow: Vec<(u64, u64)> = vec![];
    let mut seen: std::collections::BTreeMap<String, (u64, u64, String)> = Default::default();
    let mut i = 0;
    let mut k = 0u64;
    while i < n {
        let a = cpu_ms();
        let r = sp.run(i);
        let d = cpu_ms() - a;
        if d >= 20 {
            slow.push((d, i));
        }
        for v in &r.viols {
            let e = seen.entry(v.symptom.clone()).or_insert((0u64, i, v.detail.clone()));
            e.0 += 1;
        }
        i += stride;
        k += 1;
    }
    let total = cpu_ms() - t0;
    println!("space {space}: {n} cases, sampled {k}, cpu {total} ms, estimated total cpu {:.0} s", total as f64 / k as f64 * n as f64 / 1000.0);
    for (sym, (n, i, d)) in &seen {
        println!("  VIOL x{n} first #{i} {} :: {sym} :: {}", sp.describe(*i), d.chars().take(200).collect::<String>());
    }
    slow.sort();
    slow.reverse();
    let heavy: u64 = slow.iter().map(|x| x.0).sum();
    println!("  {} sampled cases >= 20 ms, together {} ms", slow.len(), heavy);
    for (d, i) in slow.iter().take(8) {
        println!("  {d} ms  #{i} {}", sp.describe(*i));
    }
}

fn main() {
    if std::env::args().any(|a| a == "--repro") {
        repro();
        return;
    }
    let args: Vec<String> = std::env::args().collect();
    if let Some(k) = args.iter().position(|a| a == "--profile") {
        install_panic_hook();
        profile(&args[k + 1], args[k + 2].parse().unwrap());
        return;
    }
    let Mode::Supervisor(mut c) = start("C15", "exploration", build) else { return };
    let tier = c.tier;
    let (kr, kc) = (k_for("root", tier), k_for("convert_root", tier));
    let base_rule = "A root is a function of 11 section levels (textures none/one/non_ascii/many[shared prefixes]; materials, portals, portal refs, visible lists, lights, doodad defs, doodad sets: none/one/many; groups none/one/many[shared-prefix names]/dups[duplicate names]; skybox none/some; header plain/rich[stale in-memory counts]/custom bounds); a group of 10 (vertices, normals, tex coords, indices, batches, BSP nodes, vertex colours, liquid, doodad refs: none/one/many; header plain/rich).";
    let pos_rule = format!(
        "Writer position independence space: every public entry point taking a Write + Seek (WmoWriter::write_root, WmoWriter::write_group, WmoEditor::save_root, WmoEditor::save_group of a fresh editor holding the object) x the empty baseline, the full baseline and every level vector with one section deviating from either ({}) x 5 versions x prefix lengths {:?}: the call is made on a Cursor<Vec<u8>> that already holds that many bytes of a known filler (all with the high bit set) and stands at their end, as when several files are packed into one buffer or a file is appended to; the filler must be unchanged afterwards and the bytes behind it must equal the bytes the same call writes into an empty stream at position 0 (which the round-trip spaces judge against the walker and the parsers; every vector of this space is a member of them). An Err at either position counts as a refusal, a panic only behind a prefix is a violation.",
        match tier {
            Tier::Quick => "quick levels",
            Tier::Thorough => "extended alphabets, megabyte levels included",
        },
        PREFIX_LENS
    );
    c.rule = match tier {
        Tier::Quick => format!(
            "{base_rule} Round-trip spaces: every level vector with <= {kr} sections deviating from the all-empty and from the all-full baseline x 5 versions Classic..MoP. Conversion spaces: every vector with <= {kc} deviations x all 25 (from,to) pairs. {pos_rule} A case is non-trivial when at least one section is populated; distinct by (level vector, version[s]) and, in the position space, (entry point, prefix length)."
        ),
        Tier::Thorough => format!(
            "{base_rule} Thorough tier: (1) the FULL PRODUCT of these levels (plus doodad defs 'synth': name offsets the writer's synthesised name table reproduces, so that the second-write clause is judged with doodads present) x 5 versions for the round-trip spaces and x all 25 (from,to) pairs for the conversion spaces; (2) extended levels per section: 300 records (counts above 255/256) in every list; strings longer than 255 bytes and string tables larger than 65536 bytes (textures, group names); duplicate texture names; unnamed / non-ASCII / 18 one-flag groups; 12 one-flag materials; portals with 300 / 65535 / 65536 vertices and a portal starting at vertex 65536 (16-bit MOPT fields); doodad-set names of 20 and 25 bytes and non-ASCII; non-ASCII and 300-byte skybox; all header flags, extreme floats (infinities, -0.0, MAX, subnormal) in bounds and lights, stale-low header counts; shared and 300 doodad definitions; groups with 300 and 65537/65538 vertices, normals, tex coords, colours, indices, doodad refs; 16-bit material ids, 300 batches, 12 leaf/inner BSP nodes on all axes, 300 BSP nodes; liquids 0x0, 1x1 and 5x1 with empty tile lists, 9x9 with all flag/type bits, 257x3; all 18 group flags, extreme bounds, 0xFFFFFFFF name offset: every vector over the extended alphabets with <= {kx} sections (round trip, empty/full baseline) / <= {kcx} sections (conversion) deviating from the all-empty and the all-full baseline (levels that write about a megabyte: <= 2 / <= 1 sections); (3) conversion chains A->B->C over all 125 version triples (<= 2 deviations, extended alphabets) against the direct conversion A->C and the original, followed by the whole write->parse oracle on the reached state; (4) WmoEditor operation sequences: every sequence of <= 4 of 18 operations (add/remove material, texture, group, doodad, doodad set, vertex; convert_to_version; recalculate bounds; reload = save_root -> parse_root -> new editor) from 3 start states (empty, full, full parsed from written bytes) x 5 versions, saved with save_root/save_group and judged by the same oracles. Additional thorough-tier oracles: discover_wmo_chunks agrees with the independent walker; parse_root -> convert_root(written version) -> write_root and parse_root -> WmoEditor::convert_to_version -> save_root reproduce the first write byte for byte; when the first write->parse differs, the second generation is judged on the remaining fields; liquid type of a group seen through parse_wmo. (5) {pos_rule} A case is non-trivial when at least one section is populated / one operation applied; distinct by (level vector, version[s]) or (start, version, operation sequence) or (entry point, level vector, version, prefix length).",
            kx = format!("{}/{} (root), {}/{} (group)", k_deep("root").0 .0, k_deep("root").0 .1, k_deep("group").0 .0, k_deep("group").0 .1),
            kcx = k_deep("convert_root").0 .0,
        ),
    };
    c.assume("content equality is judged on a canonical per-section/per-field rendering (the library types have no PartialEq); derived fields are excluded: WmoRoot.version (all of Classic..MoP are stored as 17), HAS_SKYBOX header flag (derived from the skybox), WmoLight.properties (derived from light_type), texture_offset_index_map (checked separately), plane distance of portals, framebuffer_blend / set_index / convex volume planes / group materials (not stated by the property, no slot in the written format; kept at their defaults in the inputs)");
    c.assume("group files: the only working group parser is parse_wmo, which returns a different type than the writer takes; only fields with an unambiguous counterpart are compared (batch flag bytes and liquid contents are not), and a byte-identical second write of a parsed group cannot be formed through the public API");
    c.assume("the chunk walker (props/c15/src/walk.rs) is written from /repo/docs/src/formats/graphics/wmo.md and shares no code with /repo; it judges only layout-independent facts (chunks tile the file, counts, record-size multiples documented and used by both parsers, string-table resolution). The documented 64-byte MOHD / 68-byte MOGP header lengths are used only to attribute a failing parse_wmo round trip, never as a violation by themselves");
    c.assume("conversion: skybox below WotLK, SHADOW_BATCH material flags below MoP and the scene-graph/motion/exterior-BSP/mount group flags below Cataclysm/Legion are treated as not representable (the converter's own model) and are blanked on both sides");
    if tier == Tier::Thorough {
        c.assume("thorough tier: inputs are internally consistent (liquid vertex / tile lists match the grid dimensions, no 0xFFFF inside a visible-block list, no NUL or empty texture / skybox strings, only defined flag bits, no NaN); a value that the format cannot hold (more than 65535 portal vertices, a doodad-set name over the 20-byte field) must be refused with Err or survive, never be written silently altered; MliqHeader::liquid_type of parse_wmo is compared with WmoLiquid::liquid_type (same name, same meaning); a panic inside a WmoEditor operation is counted (editor_ops_panicked), not judged: the property is about what the writer and the parsers do with the state that was reached; in the editor and chain spaces doodad name offsets are brought to the values the writer reproduces (finding F3 is judged in the root space)");
    }
    let spaces: &[&str] = match tier {
        Tier::Quick => &["root", "group", "convert_root", "convert_group", "legacy_group_parser", "position"],
        Tier::Thorough => &["root", "group", "ladder_root", "ladder_group", "convert_root", "convert_group", "convert_chain_root", "convert_chain_group", "editor", "legacy_group_parser", "position"],
    };
    for s in spaces {
        c.run_space(s, "");
    }
    match tier {
        Tier::Quick => {
            let n_root = configs(&ROOT_SITES, kr).len();
            let n_group = configs(&GROUP_SITES, kr).len();
            c.extra_cov.insert(
                "axes".into(),
                json!({
                    "versions": 5,
                    "conversion_pairs": 25,
                    "root_sites": ROOT_SITES.iter().map(|s| json!({s.name: s.levels.len()})).collect::<Vec<_>>(),
                    "group_sites": GROUP_SITES.iter().map(|s| json!({s.name: s.levels.len()})).collect::<Vec<_>>(),
                    "max_deviations_roundtrip": kr,
                    "max_deviations_conversion": kc,
                    "root_level_vectors": n_root,
                    "group_level_vectors": n_group,
                    "root_conversion_vectors": configs(&ROOT_SITES, kc).len(),
                    "group_conversion_vectors": configs(&GROUP_SITES, kc).len(),
                    "position_entry_points": POS_ENTRIES.iter().map(|e| e.0).collect::<Vec<_>>(),
                    "position_prefix_lengths": PREFIX_LENS,
                    "position_root_vectors": position_cfgs(true, tier).len(),
                    "position_group_vectors": position_cfgs(false, tier).len(),
                }),
            );
        }
        Tier::Thorough => {
            let es = EditorSpace { max_len: 4 };
            c.extra_cov.insert(
                "axes".into(),
                json!({
                    "versions": 5,
                    "conversion_pairs": 25,
                    "conversion_triples": 125,
                    "root_sites": ROOT_SITES_X.iter().map(|s| json!({s.name: s.levels.len()})).collect::<Vec<_>>(),
                    "group_sites": GROUP_SITES_X.iter().map(|s| json!({s.name: s.levels.len()})).collect::<Vec<_>>(),
                    "root_full_product_levels": ROOT_PROD.iter().map(|p| p.len()).collect::<Vec<_>>(),
                    "group_full_product_levels": GROUP_PROD.iter().map(|p| p.len()).collect::<Vec<_>>(),
                    "root_full_product_vectors": ROOT_PROD.iter().map(|p| p.len() as u64).product::<u64>(),
                    "group_full_product_vectors": GROUP_PROD.iter().map(|p| p.len() as u64).product::<u64>(),
                    "max_deviations_extended_root_from_empty_and_full": [k_deep("root").0 .0, k_deep("root").0 .1],
                    "max_deviations_extended_group_from_empty_and_full": [k_deep("group").0 .0, k_deep("group").0 .1],
                    "max_deviations_extended_roundtrip_with_megabyte_level": k_deep("root").1,
                    "max_deviations_extended_conversion": k_deep("convert_root").0 .0,
                    "max_deviations_extended_conversion_with_megabyte_level": k_deep("convert_root").1,
                    "max_deviations_extended_chain": 2,
                    "root_ladder_axes": ROOT_LADDERS.len(),
                    "group_ladder_axes": GROUP_LADDERS.len(),
                    "ladder_lengths": "0..=300 per axis (liquid: 17 x 17 grid sizes x tile list present/absent; group lists also 65534..=65536); two-dimensional ladders 41 x 41",
                    "root_level_vectors": cfgs_for("root", true, tier).len(),
                    "group_level_vectors": cfgs_for("group", false, tier).len(),
                    "root_conversion_vectors": cfgs_for("convert_root", true, tier).len(),
                    "group_conversion_vectors": cfgs_for("convert_group", false, tier).len(),
                    "root_chain_vectors": chain_cfgs(true).len(),
                    "group_chain_vectors": chain_cfgs(false).len(),
                    "editor_operations": EDIT_OPS.len(),
                    "editor_max_sequence_length": es.max_len,
                    "editor_sequences": es.nseq(),
                    "editor_start_states": EDIT_STARTS.len(),
                    "position_entry_points": POS_ENTRIES.iter().map(|e| e.0).collect::<Vec<_>>(),
                    "position_prefix_lengths": PREFIX_LENS,
                    "position_root_vectors": position_cfgs(true, tier).len(),
                    "position_group_vectors": position_cfgs(false, tier).len(),
                }),
            );
        }
    }
    c.finish();
}

// ------------------------------------------------------------------ stand-alone reproductions

// ---- reproductions of the thorough-tier findings: public API of wow-wmo only

fn bare_root() -> WmoRoot {
    let zero = Vec3 { x: 0.0, y: 0.0, z: 0.0 };
    WmoRoot {
        version: WmoVersion::Classic,
        materials: vec![],
        groups: vec![],
        portals: vec![],
        portal_references: vec![],
        visible_block_lists: vec![],
        lights: vec![],
        doodad_defs: vec![],
        doodad_sets: vec![],
        bounding_box: BoundingBox { min: zero, max: zero },
        textures: vec![],
        texture_offset_index_map: Default::default(),
        header: WmoHeader {
            n_materials: 0,
            n_groups: 0,
            n_portals: 0,
            n_lights: 0,
            n_doodad_names: 0,
            n_doodad_defs: 0,
            n_doodad_sets: 0,
            flags: WmoFlags::empty(),
            ambient_color: Color { r: 0, g: 0, b: 0, a: 0 },
        },
        skybox: None,
        convex_volume_planes: None,
    }
}

fn bare_group() -> WmoGroup {
    let zero = Vec3 { x: 0.0, y: 0.0, z: 0.0 };
    WmoGroup {
        header: WmoGroupHeader { flags: WmoGroupFlags::empty(), bounding_box: BoundingBox { min: zero, max: zero }, name_offset: 0, group_index: 0 },
        materials: vec![],
        vertices: vec![],
        normals: vec![],
        tex_coords: vec![],
        batches: vec![],
        indices: vec![],
        vertex_colors: None,
        bsp_nodes: None,
        liquid: None,
        doodad_refs: None,
    }
}

fn write_then_parse(x: &WmoRoot) -> std::result::Result<WmoRoot, String> {
    let mut c = Cursor::new(Vec::new());
    WmoWriter::new().write_root(&mut c, x, WmoVersion::Classic).map_err(|e| format!("write_root -> Err({e})"))?;
    let w = c.into_inner();
    WmoParser::new().parse_root(&mut Cursor::new(&w[..])).map_err(|e| format!("parse_root -> Err({e})"))
}

fn repro_named(name: &str) -> bool {
    match name {
        "set_name" => {
            println!("== set_name: doodad set whose name has 20 bytes, write_root -> parse_root");
            let mut x = bare_root();
            x.doodad_sets.push(WmoDoodadSet { name: "Set_exactly_20_bytes".into(), start_doodad: 0, n_doodads: 0 });
            match write_then_parse(&x) {
                Ok(p) => println!("   written {:?}\n   parsed  {:?}", x.doodad_sets[0].name, p.doodad_sets[0].name),
                Err(e) => println!("   {e} (a refusal is fine)"),
            }
        }
        "empty_group_name" => {
            println!("== empty_group_name: one unnamed group, write_root -> parse_root -> write_root");
            let zero = Vec3 { x: 0.0, y: 0.0, z: 0.0 };
            let mut x = bare_root();
            x.groups.push(WmoGroupInfo { flags: WmoGroupFlags::empty(), bounding_box: BoundingBox { min: zero, max: zero }, name: String::new() });
            let mut c = Cursor::new(Vec::new());
            WmoWriter::new().write_root(&mut c, &x, WmoVersion::Classic).unwrap();
            let w1 = c.into_inner();
            let p = WmoParser::new().parse_root(&mut Cursor::new(&w1[..])).unwrap();
            let mut c = Cursor::new(Vec::new());
            WmoWriter::new().write_root(&mut c, &p, WmoVersion::Classic).unwrap();
            let w2 = c.into_inner();
            println!("   written name {:?}, parsed name {:?}; first write {} bytes, second write {} bytes", x.groups[0].name, p.groups[0].name, w1.len(), w2.len());
        }
        "portal_count" | "portal_start" => {
            let mut x = bare_root();
            let poly = |n: usize, salt: f32| WmoPortal { vertices: (0..n).map(|i| Vec3 { x: i as f32, y: salt, z: 0.0 }).collect(), normal: Vec3 { x: 0.0, y: 1.0, z: 0.0 } };
            if name == "portal_count" {
                println!("== portal_count: one portal with 65536 vertices (MOPT count is 16 bits wide)");
                x.portals.push(poly(65536, 1.0));
            } else {
                println!("== portal_start: five portals of 16384 vertices; the fifth starts at vertex 65536 (MOPT start is 16 bits wide)");
                for k in 0..5 {
                    x.portals.push(poly(16384, k as f32));
                }
            }
            match write_then_parse(&x) {
                Ok(p) => {
                    let last = x.portals.len() - 1;
                    println!(
                        "   written: portal {last} has {} vertices, first {:?}\n   parsed:  portal {last} has {} vertices, first {:?}",
                        x.portals[last].vertices.len(),
                        x.portals[last].vertices.first(),
                        p.portals[last].vertices.len(),
                        p.portals[last].vertices.first()
                    );
                }
                Err(e) => println!("   {e} (a refusal is fine)"),
            }
        }
        "liquid_zero" => {
            println!("== liquid_zero: group with a 0x0 liquid (no vertices), write_group");
            let mut g = bare_group();
            g.liquid = Some(WmoLiquid { liquid_type: 1, flags: 0, width: 0, height: 0, vertices: vec![], tile_flags: None });
            match guarded(|| {
                let mut c = Cursor::new(Vec::new());
                WmoWriter::new().write_group(&mut c, &g, WmoVersion::Classic).map(|_| c.into_inner().len())
            }) {
                Ok(Ok(n)) => println!("   written, {n} bytes"),
                Ok(Err(e)) => println!("   write_group -> Err({e}) (a refusal is fine)"),
                Err((f, l, m)) => println!("   write_group PANICS at {f}:{l}: {m} (build with overflow checks; without them the subtraction wraps)"),
            }
        }
        "liquid_type" => {
            println!("== liquid_type: group with a 2x2 liquid of type 7, write_group -> parse_wmo");
            let mut g = bare_group();
            let v = |i: usize| WmoLiquidVertex { position: Vec3 { x: i as f32, y: 0.0, z: 0.0 }, height: 1.5 };
            g.liquid = Some(WmoLiquid { liquid_type: 7, flags: 0, width: 2, height: 2, vertices: (0..4).map(v).collect(), tile_flags: Some(vec![1]) });
            let mut c = Cursor::new(Vec::new());
            WmoWriter::new().write_group(&mut c, &g, WmoVersion::Classic).unwrap();
            let w = c.into_inner();
            match parse_wmo(&mut Cursor::new(&w[..])) {
                Ok(ParsedWmo::Group(n)) => println!("   written liquid_type 7; parse_wmo liquid_header = {:?}", n.liquid_header),
                other => println!("   parse_wmo -> {:?}", other.map(|_| "not a group").map_err(|e| e.to_string())),
            }
        }
        _ => return false,
    }
    true
}

const REPRO_NAMES: [&str; 6] = ["set_name", "empty_group_name", "portal_count", "portal_start", "liquid_zero", "liquid_type"];

fn repro() {
    install_panic_hook();
    let args: Vec<String> = std::env::args().collect();
    if let Some(name) = args.iter().position(|a| a == "--repro").and_then(|k| args.get(k + 1)) {
        if !repro_named(name) {
            eprintln!("unknown reproduction {name:?}; known: {REPRO_NAMES:?} (no name: all)");
            std::process::exit(2);
        }
        return;
    }
    for n in REPRO_NAMES {
        repro_named(n);
    }
    println!("== R1: two groups with different names, write_root -> parse_root");
    let mut cfg = vec![0u8; 11];
    cfg[2] = 2;
    let x = build_root(&cfg, WmoVersion::Classic);
    let w = write_root_bytes(&x, WmoVersion::Classic).unwrap().unwrap();
    let p = WmoParser::new().parse_root(&mut Cursor::new(&w[..])).unwrap();
    println!("   written names {:?}", x.groups.iter().map(|g| &g.name).collect::<Vec<_>>());
    println!("   parsed  names {:?}", p.groups.iter().map(|g| &g.name).collect::<Vec<_>>());

    println!("== R2: one material, target Classic: MOMT size field vs bytes written");
    let mut cfg = vec![0u8; 11];
    cfg[1] = 1;
    let x = build_root(&cfg, WmoVersion::Classic);
    let w = write_root_bytes(&x, WmoVersion::Classic).unwrap().unwrap();
    let wk = walk(&w, 0, w.len(), &ROOT_IDS);
    println!("   file {} bytes; chunks {:?}; gaps {:?}", w.len(), wk.chunks.iter().map(|c| (c.id.clone(), c.end - c.start)).collect::<Vec<_>>(), wk.gaps);
    if let Ok(ParsedWmo::Root(n)) = parse_wmo(&mut Cursor::new(&w[..])) {
        println!("   parse_wmo sees {} materials (1 written)", n.materials.len());
    }

    println!("== R3: empty root: MOHD size and parse_wmo");
    let x = build_root(&vec![0u8; 11], WmoVersion::Classic);
    let w = write_root_bytes(&x, WmoVersion::Classic).unwrap().unwrap();
    println!("   file {} bytes, MOHD size field {}", w.len(), u32_at(&w, 16).unwrap());
    println!("   parse_wmo -> {:?}", parse_wmo(&mut Cursor::new(&w[..])).map(|_| "ok").map_err(|e| e.to_string()));

    println!("== R4: skybox written for WotLK, parse_root");
    let mut cfg = vec![0u8; 11];
    cfg[9] = 1;
    let x = build_root(&cfg, WmoVersion::Wotlk);
    let w = write_root_bytes(&x, WmoVersion::Wotlk).unwrap().unwrap();
    let p = WmoParser::new().parse_root(&mut Cursor::new(&w[..])).unwrap();
    println!("   written {:?}, parsed {:?} (parsed version {:?})", x.skybox, p.skybox, p.version);

    println!("== R5: doodad definition with name_offset 15");
    let mut cfg = vec![0u8; 11];
    cfg[7] = 1;
    let x = build_root(&cfg, WmoVersion::Classic);
    let w = write_root_bytes(&x, WmoVersion::Classic).unwrap().unwrap();
    let p = WmoParser::new().parse_root(&mut Cursor::new(&w[..])).unwrap();
    let wk = walk(&w, 0, w.len(), &ROOT_IDS);
    let modn = wk.get("MODN").map(|c| String::from_utf8_lossy(&w[c.start..c.end]).to_string());
    println!("   written name_offset {}, parsed {}, MODN = {:?}", x.doodad_defs[0].name_offset, p.doodad_defs[0].name_offset, modn);

    println!("== R6: custom bounds in the header, no groups");
    let mut cfg = vec![0u8; 11];
    cfg[10] = 2;
    let x = build_root(&cfg, WmoVersion::Classic);
    let w = write_root_bytes(&x, WmoVersion::Classic).unwrap().unwrap();
    let p = WmoParser::new().parse_root(&mut Cursor::new(&w[..])).unwrap();
    println!("   written {:?}\n   parsed  {:?}", x.bounding_box, p.bounding_box);

    println!("== R7: empty group, write_group -> parse_wmo");
    let g = build_group(&vec![0u8; 10]);
    let w = write_group_bytes(&g, WmoVersion::Classic).unwrap().unwrap();
    println!("   file {} bytes, MOGP size field {}", w.len(), u32_at(&w, 16).unwrap());
    match guarded(|| parse_wmo(&mut Cursor::new(&w[..]))) {
        Ok(x) => println!("   parse_wmo -> {:?}", x.map(|_| "ok").map_err(|e| e.to_string())),
        Err((f, l, m)) => println!("   parse_wmo PANICS at {f}:{l}: {m}"),
    }

    println!("== R8: group with 4 vertices, write_group -> parse_wmo");
    let mut cfg = vec![0u8; 10];
    cfg[0] = 2;
    let g = build_group(&cfg);
    let w = write_group_bytes(&g, WmoVersion::Classic).unwrap().unwrap();
    match guarded(|| parse_wmo(&mut Cursor::new(&w[..]))) {
        Ok(Ok(ParsedWmo::Group(n))) => println!("   written {} vertices, parsed {}", g.vertices.len(), n.vertex_positions.len()),
        Ok(other) => println!("   parse_wmo -> {:?}", other.map(|_| "root?").map_err(|e| e.to_string())),
        Err((f, l, m)) => println!("   parse_wmo PANICS at {f}:{l}: {m}"),
    }

    println!("== R9: group with liquid + doodad refs: MLIQ size field");
    let mut cfg = vec![0u8; 10];
    cfg[7] = 2;
    cfg[8] = 1;
    let g = build_group(&cfg);
    let w = write_group_bytes(&g, WmoVersion::Classic).unwrap().unwrap();
    let top = walk(&w, 0, w.len(), &GROUP_TOP_IDS);
    let lay = group_layout(&w, &top.chunks[1]);
    println!("   header_len {}, sub-chunks {:?}, gaps {:?}", lay.header_len, lay.sub.chunks.iter().map(|c| (c.id.clone(), c.end - c.start)).collect::<Vec<_>>(), lay.sub.gaps);

    println!("== R10: legacy WmoGroupParser::parse_group");
    println!("   {:?}", WmoGroupParser::new().parse_group(&mut Cursor::new(&w[..]), 0).map(|_| "ok").map_err(|e| e.to_string()));
}
