//! C15 — WMO root and group files survive write→parse unchanged.
//!
//! Bounded exhaustive exploration: a root / group is a pure function of a vector of per-section
//! levels (none / one / many ...). Every vector with at most k sections deviating from the empty
//! and from the full baseline is enumerated for every version Classic..MoP, written with the real
//! `WmoWriter`, and judged by
//!   * an independent chunk walker (`walk.rs`, written from /repo/docs): chunks tile the file,
//!     MOHD counts equal list lengths, string-offset tables resolve, MOGP covers its sub-chunks;
//!   * the library's own parsers (`WmoParser::parse_root`, `parse_wmo`): content equality per
//!     section and field, second write byte-identical;
//!   * `WmoConverter` over all 25 version pairs: content representable in both versions is kept.
mod inputs;
mod model;
mod walk;

use inputs::*;
use model::*;
use serde_json::{json, Value};
use std::io::Cursor;
use vcore::*;
use walk::*;
use wow_wmo::wmo_group_types::WmoGroup;
use wow_wmo::*;

// ------------------------------------------------------------------ small helpers

type Guarded<T> = std::result::Result<T, (String, u32, String)>;

fn clean(s: &str) -> String {
    // binrw errors carry ANSI escapes, box drawing and a multi-line backtrace: keep the words
    let mut out = String::new();
    let mut esc = false;
    for c in s.chars() {
        if esc {
            if c.is_ascii_alphabetic() {
                esc = false;
            }
            continue;
        }
        if c == '\u{1b}' {
            esc = true;
            continue;
        }
        let boxy = ('\u{2500}'..='\u{257f}').contains(&c);
        if !c.is_control() && !boxy {
            out.push(c);
        } else if !out.ends_with(' ') {
            out.push(' ');
        }
    }
    let out = out.split_whitespace().collect::<Vec<_>>().join(" ");
    out.chars().take(300).collect()
}

fn add(r: &mut CaseResult, symptom: String, detail: String) {
    if !r.viols.iter().any(|v| v.symptom == symptom) {
        r.viol(symptom, clean(&detail));
    }
}

fn write_root_bytes(x: &WmoRoot, v: WmoVersion) -> Guarded<std::result::Result<Vec<u8>, String>> {
    guarded(|| {
        let mut c = Cursor::new(Vec::new());
        match WmoWriter::new().write_root(&mut c, x, v) {
            Ok(()) => Ok(c.into_inner()),
            Err(e) => Err(e.to_string()),
        }
    })
}

fn write_group_bytes(g: &WmoGroup, v: WmoVersion) -> Guarded<std::result::Result<Vec<u8>, String>> {
    guarded(|| {
        let mut c = Cursor::new(Vec::new());
        match WmoWriter::new().write_group(&mut c, g, v) {
            Ok(()) => Ok(c.into_inner()),
            Err(e) => Err(e.to_string()),
        }
    })
}

/// One symptom per differing section (the set of differing fields is part of the class); the
/// header section holds independent scalar fields and gets one symptom per field.
fn report(r: &mut CaseResult, prefix: &str, suffix: &str, d: &Diff) {
    if d.section == "header" {
        for f in &d.fields {
            add(r, format!("{prefix}: header.{f} {suffix}"), d.detail.clone());
        }
    } else {
        add(r, format!("{prefix}: {}.{{{}}} {suffix}", d.section, d.fields.join(",")), d.detail.clone());
    }
}

fn first_diff(a: &[u8], b: &[u8]) -> String {
    let n = a.len().min(b.len());
    let at = (0..n).find(|&i| a[i] != b[i]).unwrap_or(n);
    format!("lengths {} / {}, first difference at byte {}", a.len(), b.len(), at)
}

fn section_of_root_chunk(id: &str) -> Option<&'static str> {
    Some(match id {
        "MOTX" => "textures",
        "MOMT" => "materials",
        "MOGN" | "MOGI" => "groups",
        "MOSB" => "skybox",
        "MOPV" | "MOPT" => "portals",
        "MOPR" => "portal_references",
        "MOVV" | "MOVB" => "visible_block_lists",
        "MOLT" => "lights",
        "MODN" | "MODD" => "doodad_defs",
        "MODS" => "doodad_sets",
        _ => return None,
    })
}

fn section_of_group_chunk(id: &str) -> Option<&'static str> {
    Some(match id {
        "MOVT" => "vertices",
        "MOVI" => "indices",
        "MONR" => "normals",
        "MOTV" => "tex_coords",
        "MOCV" => "vertex_colors",
        "MOBA" => "batches",
        "MOBN" => "bsp_nodes",
        "MLIQ" => "liquid",
        "MODR" => "doodad_refs",
        _ => return None,
    })
}

const SYM_MOHD: &str = "root: MOHD chunk is not the 64 bytes parse_wmo reads (trailing header fields are taken from the following bytes or hit end of file)";
const SYM_GHDR: &str = "group: MOGP header is not the 68 bytes parse_wmo reads (sub-chunks are misparsed or the size subtraction overflows)";
const REFRAMED: &str = " [sub-chunks re-framed behind a 68-byte MOGP header]";

// ------------------------------------------------------------------ root oracle

struct RootOutcome {
    tiling: &'static str,
    parse_root: &'static str,
    parse_wmo: &'static str,
    second: &'static str,
}

fn check_root(x: &WmoRoot, v: WmoVersion, r: &mut CaseResult) -> RootOutcome {
    let mut oc = RootOutcome { tiling: "-", parse_root: "-", parse_wmo: "-", second: "skipped" };
    let w1 = match write_root_bytes(x, v) {
        Ok(Ok(b)) => b,
        Ok(Err(_)) => {
            r.err_return = true;
            oc.tiling = "writer_err";
            return oc;
        }
        Err((file, line, msg)) => {
            add(r, panic_class(&file, &msg), format!("write_root: panic at {file}:{line}: {msg}"));
            oc.tiling = "writer_panic";
            return oc;
        }
    };
    r.count("bytes_written", w1.len() as u64);

    // ---- independent walker
    let wk = walk(&w1, 0, w1.len(), &ROOT_IDS);
    // sections not judged through the parsers: their chunk has a wrong size field, or lies behind
    // such a chunk (what a parser finds there is a consequence of the size defect reported here)
    let mut broken: Vec<String> = vec![];
    let first_gap = wk.gaps.iter().map(|g| g.at).min().unwrap_or(usize::MAX);
    for c in &wk.chunks {
        if c.hdr >= first_gap {
            if let Some(s) = section_of_root_chunk(&c.id) {
                broken.push(s.to_string());
            }
        }
    }
    oc.tiling = if wk.gaps.is_empty() { "tiles" } else { "gaps" };
    for g in &wk.gaps {
        add(
            r,
            format!("root: chunk {} size field does not cover the bytes written (next chunk header not where the size says)", g.after),
            format!("{} uncovered bytes at offset {} after chunk {}; chunks found: {:?}", g.len, g.at, g.after, wk.ids()),
        );
        if let Some(s) = section_of_root_chunk(&g.after) {
            broken.push(s.to_string());
        }
    }
    if broken.iter().any(|b| b == "groups") {
        // parse_root may derive the bounds from the group list, which is out of its reach here
        broken.push("header.bounding_box".to_string());
    }
    for id in ROOT_IDS {
        if wk.count(id) > 1 {
            add(r, format!("root: chunk {id} written more than once"), format!("{:?}", wk.ids()));
        }
    }
    let mver_ok = wk.chunks.first().map(|c| c.id == "MVER" && c.end - c.start == 4 && u32_at(&w1, c.start) == Some(17)).unwrap_or(false);
    if !mver_ok {
        add(r, "root: MVER is not the first chunk with version 17".into(), format!("{:?}", wk.ids()));
    }
    let mohd = wk.chunks.get(1).filter(|c| c.id == "MOHD" && c.end - c.start >= 36).cloned();
    if mohd.is_none() {
        add(r, "root: MOHD is not the second chunk (or is shorter than its count fields)".into(), format!("{:?}", wk.ids()));
    }
    let data = |id: &str| wk.get(id).map(|c| &w1[c.start..c.end]);
    if let Some(h) = &mohd {
        let modn_strings = data("MODN").map(count_strings).unwrap_or(0);
        let counts: [(&str, usize, usize); 7] = [
            ("n_materials", 0, x.materials.len()),
            ("n_groups", 4, x.groups.len()),
            ("n_portals", 8, x.portals.len()),
            ("n_lights", 12, x.lights.len()),
            ("n_doodad_names", 16, modn_strings),
            ("n_doodad_defs", 20, x.doodad_defs.len()),
            ("n_doodad_sets", 24, x.doodad_sets.len()),
        ];
        for (name, off, want) in counts {
            let got = u32_at(&w1, h.start + off).unwrap_or(u32::MAX) as usize;
            if got != want {
                add(
                    r,
                    format!("root: MOHD {name} does not equal the length of the list written"),
                    format!("MOHD.{name} = {got}, list length = {want}"),
                );
            }
        }
    }
    let portal_vertices: usize = x.portals.iter().map(|p| p.vertices.len()).sum();
    let sized: [(&str, usize, usize); 8] = [
        ("MOMT", 64, x.materials.len()),
        ("MOGI", 32, x.groups.len()),
        ("MOPV", 12, portal_vertices),
        ("MOPT", 20, x.portals.len()),
        ("MOPR", 8, x.portal_references.len()),
        ("MOLT", 48, x.lights.len()),
        ("MODD", 40, x.doodad_defs.len()),
        ("MODS", 32, x.doodad_sets.len()),
    ];
    for (id, rec, n) in sized {
        match wk.get(id) {
            None => {
                if n != 0 {
                    add(r, format!("root: chunk {id} missing although the list is not empty"), format!("{n} records; chunks {:?}", wk.ids()));
                }
            }
            Some(c) => {
                let gap_after = wk.gaps.iter().any(|g| g.after == id);
                if !gap_after && c.end - c.start != rec * n {
                    add(
                        r,
                        format!("root: chunk {id} size is not list length x documented record size"),
                        format!("size {} for {} records of {} bytes", c.end - c.start, n, rec),
                    );
                }
            }
        }
    }
    // string-offset tables
    if let (Some(gi), Some(gn)) = (wk.get("MOGI"), data("MOGN")) {
        for (i, g) in x.groups.iter().enumerate() {
            let off = u32_at(&w1, gi.start + 32 * i + 28).unwrap_or(u32::MAX) as usize;
            let got = cstr_at(gn, off);
            if got != Some(g.name.as_bytes()) {
                add(
                    r,
                    "root: MOGI name offset does not resolve to the group's name in MOGN".into(),
                    format!("group {i} {:?}: offset {off} resolves to {:?}", g.name, got.map(String::from_utf8_lossy)),
                );
                break;
            }
        }
    }
    if let (Some(mt), Some(tx)) = (wk.get("MOMT"), data("MOTX")) {
        'm: for i in 0..x.materials.len() {
            for (slot, at) in [(0usize, 12usize), (1, 24)] {
                let Some(k) = material_texture_ref(i, slot, x.textures.len()) else { continue };
                let off = u32_at(&w1, mt.start + 64 * i + at).unwrap_or(u32::MAX) as usize;
                let got = cstr_at(tx, off);
                if got != Some(x.textures[k].as_bytes()) {
                    add(
                        r,
                        "root: MOMT texture offset does not resolve to the material's texture in MOTX".into(),
                        format!("material {i} texture{}: offset {off} resolves to {:?}, want {:?}", slot + 1, got.map(String::from_utf8_lossy), x.textures[k]),
                    );
                    break 'm;
                }
            }
        }
    }
    if let (Some(dd), Some(dn)) = (wk.get("MODD"), data("MODN")) {
        for i in 0..x.doodad_defs.len() {
            let off = (u32_at(&w1, dd.start + 40 * i).unwrap_or(u32::MAX) & 0x00FF_FFFF) as usize;
            if !is_string_start(dn, off) {
                add(r, "root: MODD name offset does not address a string start in MODN".into(), format!("doodad {i}: offset {off}, MODN {} bytes", dn.len()));
                break;
            }
        }
    }

    // ---- WmoParser::parse_root: content equality, header counts, second write
    let expected = root_model(x, Some(v), false);
    let expected_bytes_view = root_model(x, Some(v), true);
    let mut by_parse_root: Vec<String> = vec![]; // "section.field" already reported through parse_root
    let mut cur = Cursor::new(&w1[..]);
    match guarded(|| WmoParser::new().parse_root(&mut cur)) {
        Err((file, line, msg)) => {
            oc.parse_root = "panic";
            add(r, panic_class(&file, &msg), format!("parse_root: panic at {file}:{line}: {msg}"));
        }
        Ok(Err(e)) => {
            oc.parse_root = "err";
            add(r, "root: parse_root fails on a written file".into(), e.to_string());
        }
        Ok(Ok(p)) => {
            oc.parse_root = "ok";
            let (ds, nf) = diff(&expected, &root_model(&p, None, false), &broken);
            r.count("fields_compared_parse_root", nf);
            for d in &ds {
                report(r, "root", "differs after write->parse_root", d);
                for f in &d.fields {
                    by_parse_root.push(format!("{}.{}", d.section, f));
                }
            }
            let lens: [(&str, &str, u32, usize); 6] = [
                ("n_materials", "materials", p.header.n_materials, p.materials.len()),
                ("n_groups", "groups", p.header.n_groups, p.groups.len()),
                ("n_portals", "portals", p.header.n_portals, p.portals.len()),
                ("n_lights", "lights", p.header.n_lights, p.lights.len()),
                ("n_doodad_defs", "doodad_defs", p.header.n_doodad_defs, p.doodad_defs.len()),
                ("n_doodad_sets", "doodad_sets", p.header.n_doodad_sets, p.doodad_sets.len()),
            ];
            for (name, section, stored, len) in lens {
                if broken.iter().any(|b| b == section) {
                    continue;
                }
                if stored as usize != len {
                    add(r, format!("root: parsed header {name} differs from the parsed list length"), format!("{stored} vs {len}"));
                }
            }
            if p.textures == x.textures {
                let ok = p.texture_offset_index_map.len() == x.textures.len()
                    && (0..x.textures.len()).all(|k| p.texture_offset_index_map.get(&table_offset(&x.textures, k)) == Some(&(k as u32)));
                if !ok {
                    let mut m: Vec<_> = p.texture_offset_index_map.iter().collect();
                    m.sort();
                    add(r, "root: texture_offset_index_map does not map each MOTX offset to its texture index".into(), format!("{:?}", m));
                }
            }
            if ds.is_empty() && wk.gaps.is_empty() {
                match write_root_bytes(&p, v) {
                    Ok(Ok(w2)) => {
                        if w2 != w1 {
                            oc.second = "differs";
                            add(r, "root: second write is not byte-identical".into(), first_diff(&w1, &w2));
                        } else {
                            oc.second = "identical";
                            r.count("second_writes_identical", 1);
                        }
                    }
                    Ok(Err(e)) => add(r, "root: writer refuses the root it wrote and parsed".into(), e),
                    Err((file, line, msg)) => add(r, panic_class(&file, &msg), format!("second write_root: panic at {file}:{line}: {msg}")),
                }
            }
        }
    }

    // ---- parse_wmo (binrw parser): same content seen through the other public parser
    let mohd_ok = mohd.as_ref().map(|c| c.end - c.start == 64).unwrap_or(false);
    let mut cur = Cursor::new(&w1[..]);
    match guarded(|| parse_wmo(&mut cur)) {
        Err((file, line, msg)) => {
            oc.parse_wmo = "panic";
            if mohd_ok {
                add(r, panic_class(&file, &msg), format!("parse_wmo: panic at {file}:{line}: {msg}"));
            } else {
                add(r, SYM_MOHD.into(), format!("parse_wmo panicked: {msg}"));
            }
        }
        Ok(Err(e)) => {
            oc.parse_wmo = "err";
            // a short MOHD explains an error only when it is the last chunk (the 64-byte read hits end of file)
            let mohd_last = mohd.as_ref().map(|c| c.end == w1.len()).unwrap_or(false);
            if !mohd_ok && mohd_last {
                add(r, SYM_MOHD.into(), format!("MOHD size {:?} and last chunk; parse_wmo: {e}", mohd.as_ref().map(|c| c.end - c.start)));
            } else {
                add(r, "root: parse_wmo fails on a written file".into(), e.to_string());
            }
        }
        Ok(Ok(ParsedWmo::Group(_))) => {
            oc.parse_wmo = "as_group";
            add(r, "root: parse_wmo classifies a written root file as a group file".into(), String::new());
        }
        Ok(Ok(ParsedWmo::Root(n))) => {
            oc.parse_wmo = "ok";
            if n.version != 17 {
                add(r, "root: version differs after write->parse_wmo".into(), format!("{}", n.version));
            }
            if !mohd_ok {
                let want = (x.header.flags.bits() & 0xFFFF) & !WmoFlags::HAS_SKYBOX.bits();
                let got = (n.flags as u32) & !WmoFlags::HAS_SKYBOX.bits();
                if got != want || n.num_lod != 0 {
                    add(
                        r,
                        SYM_MOHD.into(),
                        format!("MOHD size {:?}; flags read {:#x} (want {:#x}), num_lod read {}", mohd.as_ref().map(|c| c.end - c.start), got, want, n.num_lod),
                    );
                }
            }
            // differences already reported through parse_root are writer-side and not repeated
            let mut skip2 = broken.clone();
            skip2.extend(by_parse_root.iter().cloned());
            let (ds, nf) = diff(&expected_bytes_view, &new_root_model(&n, mohd_ok), &skip2);
            r.count("fields_compared_parse_wmo_root", nf);
            for d in &ds {
                report(r, "root", "differs after write->parse_wmo", d);
            }
            if !broken.iter().any(|b| b == "groups") {
                // as sets: a writer may store a duplicated name once
                let want: std::collections::BTreeSet<&String> = x.groups.iter().map(|g| &g.name).collect();
                let got: std::collections::BTreeSet<&String> = n.group_names.iter().collect();
                if want != got {
                    add(r, "root: group_names differs after write->parse_wmo".into(), format!("want {:?} got {:?}", want, got));
                }
            }
            if !broken.iter().any(|b| b == "doodad_defs") && n.doodad_names.len() != n.n_doodad_names as usize {
                add(
                    r,
                    "root: parse_wmo doodad name count differs from MOHD n_doodad_names".into(),
                    format!("{} names, header says {}", n.doodad_names.len(), n.n_doodad_names),
                );
            }
        }
    }
    oc
}

// ------------------------------------------------------------------ group oracle

struct GroupOutcome {
    tiling: String,
    native: &'static str,
    reframed: &'static str,
}

fn mogp68(g: &WmoGroup, sub: &[u8]) -> Vec<u8> {
    let mut out = vec![];
    out.extend_from_slice(b"REVM");
    out.extend_from_slice(&4u32.to_le_bytes());
    out.extend_from_slice(&17u32.to_le_bytes());
    out.extend_from_slice(b"PGOM");
    out.extend_from_slice(&((68 + sub.len()) as u32).to_le_bytes());
    let mut h = vec![];
    h.extend_from_slice(&g.header.name_offset.to_le_bytes());
    h.extend_from_slice(&0u32.to_le_bytes());
    h.extend_from_slice(&g.header.flags.bits().to_le_bytes());
    let b = &g.header.bounding_box;
    for f in [b.min.x, b.min.y, b.min.z, b.max.x, b.max.y, b.max.z] {
        h.extend_from_slice(&f.to_le_bytes());
    }
    h.resize(68, 0);
    out.extend_from_slice(&h);
    out.extend_from_slice(sub);
    out
}

fn check_group(g: &WmoGroup, v: WmoVersion, r: &mut CaseResult) -> GroupOutcome {
    let mut oc = GroupOutcome { tiling: "-".into(), native: "-", reframed: "-" };
    let w1 = match write_group_bytes(g, v) {
        Ok(Ok(b)) => b,
        Ok(Err(_)) => {
            r.err_return = true;
            oc.tiling = "writer_err".into();
            return oc;
        }
        Err((file, line, msg)) => {
            add(r, panic_class(&file, &msg), format!("write_group: panic at {file}:{line}: {msg}"));
            oc.tiling = "writer_panic".into();
            return oc;
        }
    };
    r.count("bytes_written", w1.len() as u64);

    // ---- independent walker: MVER + one MOGP spanning the rest; sub-chunks tile the MOGP payload
    let top = walk(&w1, 0, w1.len(), &GROUP_TOP_IDS);
    let top_ok = top.gaps.is_empty()
        && top.chunks.len() == 2
        && top.chunks[0].id == "MVER"
        && top.chunks[0].end - top.chunks[0].start == 4
        && u32_at(&w1, top.chunks[0].start) == Some(17)
        && top.chunks[1].id == "MOGP"
        && top.chunks[1].end == w1.len();
    if !top_ok {
        add(
            r,
            "group: file is not MVER(17) followed by one MOGP chunk whose size covers the rest of the file".into(),
            format!("chunks {:?}, gaps {:?}, file length {}", top.chunks, top.gaps, w1.len()),
        );
        oc.tiling = "top_broken".into();
        return oc;
    }
    let mogp = top.chunks[1].clone();
    let lay = group_layout(&w1, &mogp);
    let tiles = lay.sub.gaps.is_empty();
    oc.tiling = match (tiles, lay.header_len) {
        (false, _) => "sub_gaps".into(),
        (true, 68) => "hdr68".into(),
        (true, _) => "hdr_other".into(),
    };
    // sections not judged through the parser: their sub-chunk has a wrong size field or lies behind one
    let mut skip: Vec<String> = vec![];
    if !tiles {
        let first_gap = lay.sub.gaps.iter().map(|g| g.at).min().unwrap_or(usize::MAX);
        for gp in &lay.sub.gaps {
            add(
                r,
                format!("group: sub-chunk {} size field does not cover the bytes written (next sub-chunk header not where the size says)", gp.after),
                format!(
                    "{} uncovered bytes at offset {} after {} (MOGP header {} bytes); sub-chunks {:?}",
                    gp.len,
                    gp.at,
                    gp.after,
                    lay.header_len,
                    lay.sub.ids()
                ),
            );
            if let Some(s) = section_of_group_chunk(&gp.after) {
                skip.push(s.to_string());
            }
        }
        // everything the writer emits behind the first bad size is out of reach of a chunk reader
        let order = ["MOVT", "MOVI", "MONR", "MOTV", "MOCV", "MOBA", "MOBN", "MLIQ", "MODR"];
        let bad: Vec<&str> = lay.sub.gaps.iter().map(|g| g.after.as_str()).collect();
        let mut behind = false;
        for id in order {
            if behind || lay.sub.get(id).map(|c| c.hdr >= first_gap).unwrap_or(false) {
                skip.push(section_of_group_chunk(id).unwrap().to_string());
            }
            if bad.contains(&id) {
                behind = true;
            }
        }
    }
    let sized: [(&str, usize, usize); 8] = [
        ("MOVT", 12, g.vertices.len()),
        ("MOVI", 2, g.indices.len()),
        ("MONR", 12, g.normals.len()),
        ("MOTV", 8, g.tex_coords.len()),
        ("MOCV", 4, g.vertex_colors.as_ref().map(|c| c.len()).unwrap_or(0)),
        ("MOBA", 24, g.batches.len()),
        ("MOBN", 16, g.bsp_nodes.as_ref().map(|c| c.len()).unwrap_or(0)),
        ("MODR", 2, g.doodad_refs.as_ref().map(|c| c.len()).unwrap_or(0)),
    ];
    for (id, rec, n) in sized {
        if lay.sub.count(id) > 1 {
            add(r, format!("group: sub-chunk {id} written more than once"), format!("{:?}", lay.sub.ids()));
        }
        match lay.sub.get(id) {
            None => {
                if n != 0 && !skip.iter().any(|s| s == section_of_group_chunk(id).unwrap()) {
                    add(r, format!("group: sub-chunk {id} missing although the list is not empty"), format!("{n} records; sub-chunks {:?}", lay.sub.ids()));
                }
            }
            Some(c) => {
                let gap_after = lay.sub.gaps.iter().any(|x| x.after == id);
                if !gap_after && c.end - c.start != rec * n {
                    add(
                        r,
                        format!("group: sub-chunk {id} size is not list length x documented record size"),
                        format!("size {} for {} records of {} bytes", c.end - c.start, n, rec),
                    );
                }
            }
        }
    }
    if g.liquid.is_some() != lay.sub.get("MLIQ").is_some() && !skip.iter().any(|s| s == "liquid") {
        add(r, "group: MLIQ sub-chunk presence differs from the liquid in the input".into(), format!("{:?}", lay.sub.ids()));
    }

    // ---- parse_wmo on the bytes as written
    let expected = group_model(g);
    let hdr_ok = lay.header_len == 68;
    let mut cur = Cursor::new(&w1[..]);
    let native = guarded(|| parse_wmo(&mut cur));
    let mut native_bad: Option<String> = None;
    match native {
        Err((file, line, msg)) => {
            oc.native = "panic";
            if hdr_ok {
                add(r, panic_class(&file, &msg), format!("parse_wmo(group): panic at {file}:{line}: {msg}"));
            } else {
                native_bad = Some(format!("parse_wmo panicked at {file}:{line}: {msg}"));
            }
        }
        Ok(Err(e)) => {
            oc.native = "err";
            if hdr_ok {
                add(r, "group: parse_wmo fails on a written file".into(), e.to_string());
            } else {
                native_bad = Some(format!("parse_wmo: {e}"));
            }
        }
        Ok(Ok(ParsedWmo::Root(_))) => {
            oc.native = "as_root";
            add(r, "group: parse_wmo classifies a written group file as a root file".into(), String::new());
        }
        Ok(Ok(ParsedWmo::Group(n))) => {
            oc.native = "ok";
            let (ds, nf) = diff(&expected, &new_group_model(&n), &skip);
            if hdr_ok {
                r.count("fields_compared_parse_wmo_group", nf);
            }
            if n.version != 17 {
                add(r, "group: version differs after write->parse_wmo".into(), format!("{}", n.version));
            }
            if hdr_ok {
                for d in &ds {
                    report(r, "group", "differs after write->parse_wmo", d);
                }
            } else if let Some(d) = ds.first() {
                native_bad = Some(format!("{} sections differ, first: {} {}", ds.len(), d.section, d.detail));
            }
        }
    }
    if let Some(why) = native_bad {
        add(r, SYM_GHDR.into(), format!("header length found by the walker: {}; {}", lay.header_len, why));
    }

    // ---- the writer's sub-chunk bytes behind a well-formed 68-byte header, judged by parse_wmo
    if !hdr_ok {
        let sub = &w1[mogp.start + lay.header_len..mogp.end];
        let w = mogp68(g, sub);
        let mut cur = Cursor::new(&w[..]);
        let mut sk = skip.clone();
        sk.push("header".to_string());
        match guarded(|| parse_wmo(&mut cur)) {
            Err((file, line, msg)) => {
                oc.reframed = "panic";
                add(r, format!("{}{}", panic_class(&file, &msg), REFRAMED), format!("panic at {file}:{line}: {msg}"));
            }
            Ok(Err(e)) => {
                oc.reframed = "err";
                add(r, format!("group: parse_wmo fails on a written file{REFRAMED}"), e.to_string());
            }
            Ok(Ok(ParsedWmo::Root(_))) => {
                oc.reframed = "as_root";
            }
            Ok(Ok(ParsedWmo::Group(n))) => {
                oc.reframed = "ok";
                let (ds, nf) = diff(&expected, &new_group_model(&n), &sk);
                r.count("fields_compared_parse_wmo_group_reframed", nf);
                for d in &ds {
                    report(r, "group", &format!("differs after write->parse_wmo{REFRAMED}"), d);
                }
            }
        }
    }
    oc
}

// ------------------------------------------------------------------ spaces

fn k_for(space: &str, tier: Tier) -> usize {
    match space {
        "root" | "group" => tier.pick(3, 4),
        _ => tier.pick(2, 3),
    }
}

struct RoundTrip {
    root: bool,
    cfgs: Vec<Vec<u8>>,
}
impl RoundTrip {
    fn sites(&self) -> &'static [Site] {
        if self.root {
            &ROOT_SITES
        } else {
            &GROUP_SITES
        }
    }
    fn split(&self, i: u64) -> (&Vec<u8>, WmoVersion) {
        (&self.cfgs[(i / 5) as usize], VERSIONS[(i % 5) as usize])
    }
}
fn cfg_string(sites: &[Site], cfg: &[u8]) -> String {
    let parts: Vec<String> = sites.iter().zip(cfg).map(|(s, &l)| format!("{}={}", s.name, s.levels[l as usize])).collect();
    parts.join(" ")
}
impl Space for RoundTrip {
    fn len(&self) -> u64 {
        self.cfgs.len() as u64 * 5
    }
    fn describe(&self, i: u64) -> Value {
        let (cfg, v) = self.split(i);
        json!({"kind": if self.root { "root" } else { "group" }, "version": vname(v), "cfg": cfg_string(self.sites(), cfg)})
    }
    fn run(&self, i: u64) -> CaseResult {
        let (cfg, v) = self.split(i);
        let mut r = CaseResult::new();
        r.key = format!("{}:{:?}:{}", self.root, cfg, vname(v));
        r.nontrivial = cfg.iter().any(|&l| l != 0);
        if self.root {
            let x = build_root(cfg, v);
            let oc = check_root(&x, v, &mut r);
            r.outcome = format!("root tiling={} parse_root={} parse_wmo={} second={}", oc.tiling, oc.parse_root, oc.parse_wmo, oc.second);
            r.count("root_roundtrips", 1);
        } else {
            let g = build_group(cfg);
            let oc = check_group(&g, v, &mut r);
            r.outcome = format!("group tiling={} native={} reframed={}", oc.tiling, oc.native, oc.reframed);
            r.count("group_roundtrips", 1);
        }
        r
    }
    fn case_timeout(&self) -> u64 {
        30
    }
}

struct Convert {
    root: bool,
    cfgs: Vec<Vec<u8>>,
}
impl Convert {
    fn split(&self, i: u64) -> (&Vec<u8>, WmoVersion, WmoVersion) {
        let p = i % 25;
        (&self.cfgs[(i / 25) as usize], VERSIONS[(p / 5) as usize], VERSIONS[(p % 5) as usize])
    }
}

/// Content that the library itself treats as not representable on one side of the pair is
/// blanked on both sides before comparing (skybox below WotLK, shadow-batch material flags below
/// MoP, HAS_SKYBOX header flag which the writer derives).
fn normalise_root(x: &mut WmoRoot, a: WmoVersion, b: WmoVersion) {
    if a < WmoVersion::Wotlk || b < WmoVersion::Wotlk {
        x.skybox = None;
    }
    if a < WmoVersion::Mop || b < WmoVersion::Mop {
        for m in x.materials.iter_mut() {
            m.flags &= !(WmoMaterialFlags::SHADOW_BATCH_1 | WmoMaterialFlags::SHADOW_BATCH_2);
        }
    }
    x.header.flags &= !WmoFlags::HAS_SKYBOX;
}
fn normalise_group(g: &mut WmoGroup, a: WmoVersion, b: WmoVersion) {
    if a < WmoVersion::Cataclysm || b < WmoVersion::Cataclysm {
        g.header.flags &= !(WmoGroupFlags::HAS_MORE_MOTION_TYPES | WmoGroupFlags::USE_SCENE_GRAPH | WmoGroupFlags::EXTERIOR_BSP);
    }
    // every version in Classic..MoP is below Legion
    g.header.flags &= !WmoGroupFlags::MOUNT_ALLOWED;
}

impl Space for Convert {
    fn len(&self) -> u64 {
        self.cfgs.len() as u64 * 25
    }
    fn describe(&self, i: u64) -> Value {
        let (cfg, a, b) = self.split(i);
        let sites: &[Site] = if self.root { &ROOT_SITES } else { &GROUP_SITES };
        json!({"kind": if self.root { "convert_root" } else { "convert_group" }, "from": vname(a), "to": vname(b), "cfg": cfg_string(sites, cfg)})
    }
    fn run(&self, i: u64) -> CaseResult {
        let (cfg, a, b) = self.split(i);
        let mut r = CaseResult::new();
        r.key = format!("conv{}:{:?}:{}>{}", self.root, cfg, vname(a), vname(b));
        r.nontrivial = cfg.iter().any(|&l| l != 0);
        r.count("conversions", 1);
        let conv = WmoConverter::new();
        if self.root {
            let mut x = build_root(cfg, a);
            match guarded(|| conv.convert_root(&mut x, b)) {
                Err((file, line, msg)) => {
                    add(&mut r, panic_class(&file, &msg), format!("convert_root: panic at {file}:{line}: {msg}"));
                    r.outcome = "convert_root panic".into();
                    return r;
                }
                Ok(Err(_)) => {
                    r.err_return = true;
                    r.outcome = "convert_root refused".into();
                    return r;
                }
                Ok(Ok(())) => {}
            }
            if x.version != b {
                add(&mut r, "convert_root: version field is not the target version afterwards".into(), format!("{:?} -> {:?}: {:?}", a, b, x.version));
            }
            let mut want = build_root(cfg, a);
            normalise_root(&mut want, a, b);
            normalise_root(&mut x, a, b);
            let (ds, nf) = diff(&root_model(&want, None, false), &root_model(&x, None, false), &[]);
            r.count("fields_compared_conversion", nf);
            for d in &ds {
                report(&mut r, "convert_root", "is not preserved", d);
            }
            if x.textures != want.textures || x.convex_volume_planes.is_some() {
                add(&mut r, "convert_root: textures / convex volume planes changed".into(), String::new());
            }
            if ds.is_empty() {
                let mut direct = build_root(cfg, b);
                normalise_root(&mut direct, a, b);
                match (write_root_bytes(&x, b), write_root_bytes(&direct, b)) {
                    (Ok(Ok(w1)), Ok(Ok(w2))) => {
                        if w1 != w2 {
                            add(&mut r, "convert_root: written bytes differ from the same content built directly at the target version".into(), first_diff(&w1, &w2));
                        }
                    }
                    (Ok(Err(_)), _) => r.err_return = true,
                    (Err((file, line, msg)), _) => add(&mut r, panic_class(&file, &msg), format!("write after convert_root: panic at {file}:{line}: {msg}")),
                    _ => {}
                }
            }
            r.outcome = format!("convert_root {}", if a == b { "same" } else if a < b { "up" } else { "down" });
        } else {
            let mut g = build_group(cfg);
            match guarded(|| conv.convert_group(&mut g, b, a)) {
                Err((file, line, msg)) => {
                    add(&mut r, panic_class(&file, &msg), format!("convert_group: panic at {file}:{line}: {msg}"));
                    r.outcome = "convert_group panic".into();
                    return r;
                }
                Ok(Err(_)) => {
                    r.err_return = true;
                    r.outcome = "convert_group refused".into();
                    return r;
                }
                Ok(Ok(())) => {}
            }
            let mut want = build_group(cfg);
            if a == b {
                // identity conversion: nothing at all may change
            } else {
                normalise_group(&mut want, a, b);
                normalise_group(&mut g, a, b);
            }
            let (ds, nf) = diff(&group_model(&want), &group_model(&g), &[]);
            r.count("fields_compared_conversion", nf);
            for d in &ds {
                report(&mut r, "convert_group", "is not preserved", d);
            }
            if ds.is_empty() {
                match (write_group_bytes(&g, b), write_group_bytes(&want, b)) {
                    (Ok(Ok(w1)), Ok(Ok(w2))) => {
                        if w1 != w2 {
                            add(&mut r, "convert_group: written bytes differ from the same content built directly".into(), first_diff(&w1, &w2));
                        }
                    }
                    (Ok(Err(_)), _) => r.err_return = true,
                    (Err((file, line, msg)), _) => add(&mut r, panic_class(&file, &msg), format!("write after convert_group: panic at {file}:{line}: {msg}")),
                    _ => {}
                }
            }
            r.outcome = format!("convert_group {}", if a == b { "same" } else if a < b { "up" } else { "down" });
        }
        r
    }
}

/// The legacy group parser named by the property's observation points.
struct LegacyGroupParser;
impl Space for LegacyGroupParser {
    fn len(&self) -> u64 {
        10
    }
    fn describe(&self, i: u64) -> Value {
        json!({"kind": "legacy_group_parser", "version": vname(VERSIONS[(i % 5) as usize]), "cfg": if i < 5 { "empty baseline" } else { "full baseline" }})
    }
    fn run(&self, i: u64) -> CaseResult {
        let mut r = CaseResult::new();
        r.key = format!("legacy{i}");
        r.nontrivial = i >= 5;
        let cfg: Vec<u8> = GROUP_SITES.iter().map(|s| if i < 5 { 0 } else { (s.levels.len() - 1) as u8 }).collect();
        let g = build_group(&cfg);
        let v = VERSIONS[(i % 5) as usize];
        if let Ok(Ok(w)) = write_group_bytes(&g, v) {
            let mut cur = Cursor::new(&w[..]);
            match guarded(|| WmoGroupParser::new().parse_group(&mut cur, g.header.group_index)) {
                Ok(Ok(_)) => r.outcome = "legacy parse_group ok".into(),
                Ok(Err(e)) => {
                    r.outcome = "legacy parse_group err".into();
                    add(&mut r, "group: WmoGroupParser::parse_group refuses a written group file".into(), e.to_string());
                }
                Err((file, line, msg)) => add(&mut r, panic_class(&file, &msg), format!("parse_group: panic at {file}:{line}: {msg}")),
            }
        }
        r
    }
}

fn build(name: &str, _arg: &str, tier: Tier) -> Box<dyn Space> {
    match name {
        "root" => Box::new(RoundTrip { root: true, cfgs: configs(&ROOT_SITES, k_for(name, tier)) }),
        "group" => Box::new(RoundTrip { root: false, cfgs: configs(&GROUP_SITES, k_for(name, tier)) }),
        "convert_root" => Box::new(Convert { root: true, cfgs: configs(&ROOT_SITES, k_for(name, tier)) }),
        "convert_group" => Box::new(Convert { root: false, cfgs: configs(&GROUP_SITES, k_for(name, tier)) }),
        "legacy_group_parser" => Box::new(LegacyGroupParser),
        _ => panic!("space {name}"),
    }
}

fn main() {
    if std::env::args().any(|a| a == "--repro") {
        repro();
        return;
    }
    let Mode::Supervisor(mut c) = start("C15", "exploration", build) else { return };
    let tier = c.tier;
    let (kr, kc) = (k_for("root", tier), k_for("convert_root", tier));
    c.rule = format!(
        "A root is a function of 11 section levels (textures none/one/non_ascii/many[shared prefixes]; materials, portals, portal refs, visible lists, lights, doodad defs, doodad sets: none/one/many; groups none/one/many[shared-prefix names]/dups[duplicate names]; skybox none/some; header plain/rich[stale in-memory counts]/custom bounds); a group of 10 (vertices, normals, tex coords, indices, batches, BSP nodes, vertex colours, liquid, doodad refs: none/one/many; header plain/rich). Round-trip spaces: every level vector with <= {kr} sections deviating from the all-empty and from the all-full baseline x 5 versions Classic..MoP. Conversion spaces: every vector with <= {kc} deviations x all 25 (from,to) pairs. A case is non-trivial when at least one section is populated; distinct by (level vector, version[s])."
    );
    c.assume("content equality is judged on a canonical per-section/per-field rendering (the library types have no PartialEq); derived fields are excluded: WmoRoot.version (all of Classic..MoP are stored as 17), HAS_SKYBOX header flag (derived from the skybox), WmoLight.properties (derived from light_type), texture_offset_index_map (checked separately), plane distance of portals, framebuffer_blend / set_index / convex volume planes / group materials (not stated by the property, no slot in the written format; kept at their defaults in the inputs)");
    c.assume("group files: the only working group parser is parse_wmo, which returns a different type than the writer takes; only fields with an unambiguous counterpart are compared (batch flag bytes and liquid contents are not), and a byte-identical second write of a parsed group cannot be formed through the public API");
    c.assume("the chunk walker (props/c15/src/walk.rs) is written from /repo/docs/src/formats/graphics/wmo.md and shares no code with /repo; it judges only layout-independent facts (chunks tile the file, counts, record-size multiples documented and used by both parsers, string-table resolution). The documented 64-byte MOHD / 68-byte MOGP header lengths are used only to attribute a failing parse_wmo round trip, never as a violation by themselves");
    c.assume("conversion: skybox below WotLK, SHADOW_BATCH material flags below MoP and the scene-graph/motion/exterior-BSP/mount group flags below Cataclysm/Legion are treated as not representable (the converter's own model) and are blanked on both sides");
    for s in ["root", "group", "convert_root", "convert_group", "legacy_group_parser"] {
        c.run_space(s, "");
    }
    let n_root = configs(&ROOT_SITES, kr).len();
    let n_group = configs(&GROUP_SITES, kr).len();
    c.extra_cov.insert(
        "axes".into(),
        json!({
            "versions": 5,
            "conversion_pairs": 25,
            "root_sites": ROOT_SITES.iter().map(|s| json!({s.name: s.levels.len()})).collect::<Vec<_>>(),
            "group_sites": GROUP_SITES.iter().map(|s| json!({s.name: s.levels.len()})).collect::<Vec<_>>(),
            "max_deviations_roundtrip": kr,
            "max_deviations_conversion": kc,
            "root_level_vectors": n_root,
            "group_level_vectors": n_group,
            "root_conversion_vectors": configs(&ROOT_SITES, kc).len(),
            "group_conversion_vectors": configs(&GROUP_SITES, kc).len(),
        }),
    );
    c.finish();
}

// ------------------------------------------------------------------ stand-alone reproductions

fn repro() {
    println!("== R1: two groups with different names, write_root -> parse_root");
    let mut cfg = vec![0u8; 11];
    cfg[2] = 2;
    let x = build_root(&cfg, WmoVersion::Classic);
    let w = write_root_bytes(&x, WmoVersion::Classic).unwrap().unwrap();
    let p = WmoParser::new().parse_root(&mut Cursor::new(&w[..])).unwrap();
    println!("   written names {:?}", x.groups.iter().map(|g| &g.name).collect::<Vec<_>>());
    println!("   parsed  names {:?}", p.groups.iter().map(|g| &g.name).collect::<Vec<_>>());

    println!("== R2: one material, target Classic: MOMT size field vs bytes written");
    let mut cfg = vec![0u8; 11];
    cfg[1] = 1;
    let x = build_root(&cfg, WmoVersion::Classic);
    let w = write_root_bytes(&x, WmoVersion::Classic).unwrap().unwrap();
    let wk = walk(&w, 0, w.len(), &ROOT_IDS);
    println!("   file {} bytes; chunks {:?}; gaps {:?}", w.len(), wk.chunks.iter().map(|c| (c.id.clone(), c.end - c.start)).collect::<Vec<_>>(), wk.gaps);
    if let Ok(ParsedWmo::Root(n)) = parse_wmo(&mut Cursor::new(&w[..])) {
        println!("   parse_wmo sees {} materials (1 written)", n.materials.len());
    }

    println!("== R3: empty root: MOHD size and parse_wmo");
    let x = build_root(&vec![0u8; 11], WmoVersion::Classic);
    let w = write_root_bytes(&x, WmoVersion::Classic).unwrap().unwrap();
    println!("   file {} bytes, MOHD size field {}", w.len(), u32_at(&w, 16).unwrap());
    println!("   parse_wmo -> {:?}", parse_wmo(&mut Cursor::new(&w[..])).map(|_| "ok").map_err(|e| e.to_string()));

    println!("== R4: skybox written for WotLK, parse_root");
    let mut cfg = vec![0u8; 11];
    cfg[9] = 1;
    let x = build_root(&cfg, WmoVersion::Wotlk);
    let w = write_root_bytes(&x, WmoVersion::Wotlk).unwrap().unwrap();
    let p = WmoParser::new().parse_root(&mut Cursor::new(&w[..])).unwrap();
    println!("   written {:?}, parsed {:?} (parsed version {:?})", x.skybox, p.skybox, p.version);

    println!("== R5: doodad definition with name_offset 15");
    let mut cfg = vec![0u8; 11];
    cfg[7] = 1;
    let x = build_root(&cfg, WmoVersion::Classic);
    let w = write_root_bytes(&x, WmoVersion::Classic).unwrap().unwrap();
    let p = WmoParser::new().parse_root(&mut Cursor::new(&w[..])).unwrap();
    let wk = walk(&w, 0, w.len(), &ROOT_IDS);
    let modn = wk.get("MODN").map(|c| String::from_utf8_lossy(&w[c.start..c.end]).to_string());
    println!("   written name_offset {}, parsed {}, MODN = {:?}", x.doodad_defs[0].name_offset, p.doodad_defs[0].name_offset, modn);

    println!("== R6: custom bounds in the header, no groups");
    let mut cfg = vec![0u8; 11];
    cfg[10] = 2;
    let x = build_root(&cfg, WmoVersion::Classic);
    let w = write_root_bytes(&x, WmoVersion::Classic).unwrap().unwrap();
    let p = WmoParser::new().parse_root(&mut Cursor::new(&w[..])).unwrap();
    println!("   written {:?}\n   parsed  {:?}", x.bounding_box, p.bounding_box);

    println!("== R7: empty group, write_group -> parse_wmo");
    let g = build_group(&vec![0u8; 10]);
    let w = write_group_bytes(&g, WmoVersion::Classic).unwrap().unwrap();
    println!("   file {} bytes, MOGP size field {}", w.len(), u32_at(&w, 16).unwrap());
    match guarded(|| parse_wmo(&mut Cursor::new(&w[..]))) {
        Ok(x) => println!("   parse_wmo -> {:?}", x.map(|_| "ok").map_err(|e| e.to_string())),
        Err((f, l, m)) => println!("   parse_wmo PANICS at {f}:{l}: {m}"),
    }

    println!("== R8: group with 4 vertices, write_group -> parse_wmo");
    let mut cfg = vec![0u8; 10];
    cfg[0] = 2;
    let g = build_group(&cfg);
    let w = write_group_bytes(&g, WmoVersion::Classic).unwrap().unwrap();
    match guarded(|| parse_wmo(&mut Cursor::new(&w[..]))) {
        Ok(Ok(ParsedWmo::Group(n))) => println!("   written {} vertices, parsed {}", g.vertices.len(), n.vertex_positions.len()),
        Ok(other) => println!("   parse_wmo -> {:?}", other.map(|_| "root?").map_err(|e| e.to_string())),
        Err((f, l, m)) => println!("   parse_wmo PANICS at {f}:{l}: {m}"),
    }

    println!("== R9: group with liquid + doodad refs: MLIQ size field");
    let mut cfg = vec![0u8; 10];
    cfg[7] = 2;
    cfg[8] = 1;
    let g = build_group(&cfg);
    let w = write_group_bytes(&g, WmoVersion::Classic).unwrap().unwrap();
    let top = walk(&w, 0, w.len(), &GROUP_TOP_IDS);
    let lay = group_layout(&w, &top.chunks[1]);
    println!("   header_len {}, sub-chunks {:?}, gaps {:?}", lay.header_len, lay.sub.chunks.iter().map(|c| (c.id.clone(), c.end - c.start)).collect::<Vec<_>>(), lay.sub.gaps);

    println!("== R10: legacy WmoGroupParser::parse_group");
    println!("   {:?}", WmoGroupParser::new().parse_group(&mut Cursor::new(&w[..]), 0).map(|_| "ok").map_err(|e| e.to_string()));
}
