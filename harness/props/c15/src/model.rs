//! Canonical, comparable rendering of WMO content (the library types have no PartialEq).
//! A model is a list of sections; a section is a list of records; a record is a list of named
//! field renderings. Two models are compared on the sections and fields present in both.
use wow_wmo::group_parser::WmoGroup as NewGroup;
use wow_wmo::root_parser::WmoRoot as NewRoot;
use wow_wmo::wmo_group_types::WmoGroup;
use wow_wmo::*;

pub type Rec = Vec<(&'static str, String)>;
pub struct Section {
    pub name: &'static str,
    pub recs: Vec<Rec>,
}
pub type Model = Vec<Section>;

pub struct Diff {
    pub section: &'static str,
    /// sorted names of the fields that differ, or ["length"]
    pub fields: Vec<String>,
    pub detail: String,
}

/// One entry per section that differs. `skip`: sections, or "section.field" entries, not judged.
pub fn diff(expected: &Model, actual: &Model, skip: &[String]) -> (Vec<Diff>, u64) {
    let mut out = vec![];
    let mut compared = 0u64;
    for e in expected {
        if skip.iter().any(|s| s == e.name) {
            continue;
        }
        let Some(a) = actual.iter().find(|s| s.name == e.name) else { continue };
        if e.recs.len() != a.recs.len() {
            if !skip.iter().any(|s| *s == format!("{}.length", e.name)) {
                out.push(Diff { section: e.name, fields: vec!["length".into()], detail: format!("expected {} records, got {}", e.recs.len(), a.recs.len()) });
            }
            continue;
        }
        let mut fields: Vec<String> = vec![];
        let mut details: Vec<String> = vec![];
        for (i, (er, ar)) in e.recs.iter().zip(&a.recs).enumerate() {
            for (f, ev) in er {
                if fields.iter().any(|x| x == f) || skip.iter().any(|s| *s == format!("{}.{}", e.name, f)) {
                    continue;
                }
                if let Some((_, av)) = ar.iter().find(|(af, _)| af == f) {
                    compared += 1;
                    if av != ev {
                        fields.push(f.to_string());
                        if details.len() < 4 {
                            details.push(format!("[{}].{}: expected {} got {}", i, f, ev, av));
                        }
                    }
                }
            }
        }
        if !fields.is_empty() {
            fields.sort();
            out.push(Diff { section: e.name, fields, detail: details.join("; ") });
        }
    }
    (out, compared)
}

fn f(x: f32) -> String {
    format!("{:?}", x)
}
fn fv(v: &Vec3) -> String {
    format!("({:?},{:?},{:?})", v.x, v.y, v.z)
}
fn fa(v: &[f32]) -> String {
    let s: Vec<String> = v.iter().map(|x| format!("{:?}", x)).collect();
    format!("({})", s.join(","))
}
fn bb(b: &BoundingBox) -> String {
    format!("{}..{}", fv(&b.min), fv(&b.max))
}
fn rgba(c: &Color) -> String {
    format!("rgba({},{},{},{})", c.r, c.g, c.b, c.a)
}
/// Colour as an unordered multiset of channel bytes. The binrw structures expose raw file-order
/// bytes without fixing a channel convention, so the `parse_wmo` view is compared on the bytes
/// only (a shifted or corrupted colour still differs; a different channel order does not).
fn chan_set(mut c: [u8; 4]) -> String {
    c.sort();
    format!("channels{:?}", c)
}
fn rgba_file(c: &[u8; 4]) -> String {
    chan_set(*c)
}
fn bgra_file(c: &[u8; 4]) -> String {
    chan_set(*c)
}
fn rgba_set(c: &Color) -> String {
    chan_set([c.r, c.g, c.b, c.a])
}

/// Content of a root as the library's own type. `as_written_for`: Some(v) renders the *expected*
/// content of an input written for version v (counts = list lengths, skybox only where the
/// version can carry it); None renders a parsed root as is.
pub fn root_model(x: &WmoRoot, as_written_for: Option<WmoVersion>, colour_sets: bool) -> Model {
    let rgba = |c: &Color| if colour_sets { rgba_set(c) } else { rgba(c) };
    let expected = as_written_for.is_some();
    let sky = match as_written_for {
        Some(v) if v < WmoVersion::Wotlk => None,
        _ => x.skybox.clone(),
    };
    let cnt = |stored: u32, len: usize| if expected { len.to_string() } else { stored.to_string() };
    let header: Rec = vec![
        ("n_materials", cnt(x.header.n_materials, x.materials.len())),
        ("n_groups", cnt(x.header.n_groups, x.groups.len())),
        ("n_portals", cnt(x.header.n_portals, x.portals.len())),
        ("n_lights", cnt(x.header.n_lights, x.lights.len())),
        ("n_doodad_defs", cnt(x.header.n_doodad_defs, x.doodad_defs.len())),
        ("n_doodad_sets", cnt(x.header.n_doodad_sets, x.doodad_sets.len())),
        ("ambient_color", rgba(&x.header.ambient_color)),
        ("flags", format!("{:#x}", (x.header.flags & !WmoFlags::HAS_SKYBOX).bits())),
        ("bounding_box", bb(&x.bounding_box)),
    ];
    vec![
        Section { name: "header", recs: vec![header] },
        Section { name: "skybox", recs: vec![vec![("path", format!("{:?}", sky))]] },
        Section { name: "textures", recs: x.textures.iter().map(|t| vec![("name", format!("{:?}", t))]).collect() },
        Section {
            name: "materials",
            recs: x
                .materials
                .iter()
                .map(|m| {
                    vec![
                        ("flags", format!("{:#x}", m.flags.bits())),
                        ("shader", m.shader.to_string()),
                        ("blend_mode", m.blend_mode.to_string()),
                        ("texture1", m.texture1.to_string()),
                        ("emissive_color", rgba(&m.emissive_color)),
                        ("sidn_color", rgba(&m.sidn_color)),
                        ("texture2", m.texture2.to_string()),
                        ("diffuse_color", rgba(&m.diffuse_color)),
                        ("ground_type", m.ground_type.to_string()),
                    ]
                })
                .collect(),
        },
        Section {
            name: "groups",
            recs: x
                .groups
                .iter()
                .map(|g| vec![("flags", format!("{:#x}", g.flags.bits())), ("bounding_box", bb(&g.bounding_box)), ("name", format!("{:?}", g.name))])
                .collect(),
        },
        Section {
            name: "portals",
            recs: x
                .portals
                .iter()
                .map(|p| {
                    let vs: Vec<String> = p.vertices.iter().map(fv).collect();
                    vec![("n_vertices", p.vertices.len().to_string()), ("vertices", vs.join(" ")), ("normal", fv(&p.normal))]
                })
                .collect(),
        },
        Section {
            name: "portal_references",
            recs: x
                .portal_references
                .iter()
                .map(|r| vec![("portal_index", r.portal_index.to_string()), ("group_index", r.group_index.to_string()), ("side", r.side.to_string())])
                .collect(),
        },
        Section { name: "visible_block_lists", recs: x.visible_block_lists.iter().map(|l| vec![("list", format!("{:?}", l))]).collect() },
        Section {
            name: "lights",
            recs: x
                .lights
                .iter()
                .map(|l| {
                    vec![
                        ("light_type", (l.light_type as u8).to_string()),
                        ("use_attenuation", l.use_attenuation.to_string()),
                        ("color", rgba(&l.color)),
                        ("position", fv(&l.position)),
                        ("intensity", f(l.intensity)),
                        ("rotation", fa(&l.rotation)),
                        ("attenuation_start", f(l.attenuation_start)),
                        ("attenuation_end", f(l.attenuation_end)),
                    ]
                })
                .collect(),
        },
        Section {
            name: "doodad_defs",
            recs: x
                .doodad_defs
                .iter()
                .map(|d| {
                    vec![
                        ("name_offset", d.name_offset.to_string()),
                        ("position", fv(&d.position)),
                        ("orientation", fa(&d.orientation)),
                        ("scale", f(d.scale)),
                        ("color", rgba(&d.color)),
                    ]
                })
                .collect(),
        },
        Section {
            name: "doodad_sets",
            recs: x
                .doodad_sets
                .iter()
                .map(|s| vec![("name", format!("{:?}", s.name)), ("start_doodad", s.start_doodad.to_string()), ("n_doodads", s.n_doodads.to_string())])
                .collect(),
        },
    ]
}

/// The same content as seen through `parse_wmo` (binrw structures, file-order colour bytes).
/// `mohd_ok`: the trailing MOHD fields (flags) are only meaningful when the chunk has the 64 bytes
/// this parser reads.
pub fn new_root_model(r: &NewRoot, mohd_ok: bool) -> Model {
    let mut header: Rec = vec![
        ("n_materials", r.n_materials.to_string()),
        ("n_groups", r.n_groups.to_string()),
        ("n_portals", r.n_portals.to_string()),
        ("n_lights", r.n_lights.to_string()),
        ("n_doodad_defs", r.n_doodad_defs.to_string()),
        ("n_doodad_sets", r.n_doodad_sets.to_string()),
        ("ambient_color", bgra_file(&r.ambient_color)),
        (
            "bounding_box",
            format!("{}..{}", fa(&r.bounding_box_min).replace(' ', ""), fa(&r.bounding_box_max).replace(' ', "")),
        ),
    ];
    if mohd_ok {
        header.push(("flags", format!("{:#x}", (r.flags as u32) & !WmoFlags::HAS_SKYBOX.bits())));
    }
    // portals: MOPT entries address MOPV by (start, count)
    let portals = r
        .portals
        .iter()
        .map(|p| {
            let (s, n) = (p.start_vertex as usize, p.n_vertices as usize);
            let vs: Vec<String> = r.portal_vertices.iter().skip(s).take(n).map(|v| format!("({:?},{:?},{:?})", v.x, v.y, v.z)).collect();
            vec![
                ("n_vertices", n.to_string()),
                ("vertices", vs.join(" ")),
                ("normal", format!("({:?},{:?},{:?})", p.normal.x, p.normal.y, p.normal.z)),
            ]
        })
        .collect();
    vec![
        Section { name: "header", recs: vec![header] },
        Section { name: "skybox", recs: vec![vec![("path", format!("{:?}", r.skybox))]] },
        Section { name: "textures", recs: r.textures.iter().map(|t| vec![("name", format!("{:?}", t))]).collect() },
        Section {
            name: "materials",
            recs: r
                .materials
                .iter()
                .map(|m| {
                    vec![
                        ("flags", format!("{:#x}", m.flags)),
                        ("shader", m.shader.to_string()),
                        ("blend_mode", m.blend_mode.to_string()),
                        ("texture1", m.texture_1.to_string()),
                        ("emissive_color", rgba_file(&m.emissive_color)),
                        ("sidn_color", rgba_file(&m.frame_emissive_color)),
                        ("texture2", m.texture_2.to_string()),
                        ("diffuse_color", rgba_file(&m.diff_color)),
                        ("ground_type", m.ground_type.to_string()),
                    ]
                })
                .collect(),
        },
        Section {
            name: "groups",
            recs: r
                .group_info
                .iter()
                .map(|g| {
                    vec![
                        ("flags", format!("{:#x}", g.flags)),
                        ("bounding_box", format!("{}..{}", fa(&g.bounding_box_min), fa(&g.bounding_box_max))),
                    ]
                })
                .collect(),
        },
        Section { name: "portals", recs: portals },
        Section {
            name: "portal_references",
            recs: r
                .portal_refs
                .iter()
                .map(|p| vec![("portal_index", p.portal_index.to_string()), ("group_index", p.group_index.to_string()), ("side", (p.side as u16).to_string())])
                .collect(),
        },
        Section {
            name: "lights",
            recs: r
                .lights
                .iter()
                .map(|l| {
                    vec![
                        ("light_type", l.light_type.to_string()),
                        ("use_attenuation", (l.use_attenuation != 0).to_string()),
                        ("color", bgra_file(&l.color)),
                        ("position", fa(&l.position)),
                        ("intensity", f(l.intensity)),
                        ("rotation", fa(&l.rotation)),
                        ("attenuation_start", f(l.attenuation_start)),
                        ("attenuation_end", f(l.attenuation_end)),
                    ]
                })
                .collect(),
        },
        Section {
            name: "doodad_defs",
            recs: r
                .doodad_defs
                .iter()
                .map(|d| {
                    vec![
                        ("name_offset", d.name_index().to_string()),
                        ("position", fa(&d.position)),
                        ("orientation", fa(&d.orientation)),
                        ("scale", f(d.scale)),
                        ("color", bgra_file(&d.color)),
                    ]
                })
                .collect(),
        },
        Section {
            name: "doodad_sets",
            recs: r
                .doodad_sets
                .iter()
                .map(|s| {
                    let end = s.name.iter().position(|&c| c == 0).unwrap_or(20);
                    vec![
                        ("name", format!("{:?}", String::from_utf8_lossy(&s.name[..end]))),
                        ("start_doodad", s.start_index.to_string()),
                        ("n_doodads", s.count.to_string()),
                    ]
                })
                .collect(),
        },
    ]
}

fn axis_of(n: &Vec3) -> String {
    if n.x.abs() > 0.999 {
        "x".into()
    } else if n.y.abs() > 0.999 {
        "y".into()
    } else if n.z.abs() > 0.999 {
        "z".into()
    } else {
        "?".into()
    }
}

/// Content of a group in the writer's input type, restricted to what has an unambiguous
/// counterpart in the structure returned by `parse_wmo`.
pub fn group_model(g: &WmoGroup) -> Model {
    vec![
        Section {
            name: "header",
            recs: vec![vec![
                ("name_offset", g.header.name_offset.to_string()),
                ("flags", format!("{:#x}", g.header.flags.bits())),
                ("bounding_box", bb(&g.header.bounding_box)),
                ("group_index", g.header.group_index.to_string()),
            ]],
        },
        Section { name: "materials", recs: g.materials.iter().map(|m| vec![("id", m.to_string())]).collect() },
        Section { name: "vertices", recs: g.vertices.iter().map(|v| vec![("position", fv(v))]).collect() },
        Section { name: "normals", recs: g.normals.iter().map(|v| vec![("normal", fv(v))]).collect() },
        Section { name: "tex_coords", recs: g.tex_coords.iter().map(|t| vec![("uv", format!("({:?},{:?})", t.u, t.v))]).collect() },
        Section { name: "indices", recs: g.indices.iter().map(|i| vec![("index", i.to_string())]).collect() },
        Section {
            name: "batches",
            recs: g
                .batches
                .iter()
                .map(|b| {
                    vec![
                        ("start_index", b.start_index.to_string()),
                        ("count", b.count.to_string()),
                        ("start_vertex", b.start_vertex.to_string()),
                        ("end_vertex", b.end_vertex.to_string()),
                        ("material_id", (b.material_id & 0xFF).to_string()),
                        ("material_id_full", b.material_id.to_string()),
                        ("flag_bytes", format!("{:?}", b.flags)),
                        ("use_large_material_id", b.use_large_material_id.to_string()),
                    ]
                })
                .collect(),
        },
        Section {
            name: "vertex_colors",
            recs: g.vertex_colors.as_deref().unwrap_or(&[]).iter().map(|c| vec![("color", rgba(c))]).collect(),
        },
        Section {
            name: "bsp_nodes",
            recs: g
                .bsp_nodes
                .as_deref()
                .unwrap_or(&[])
                .iter()
                .map(|n| {
                    vec![
                        ("axis", axis_of(&n.plane.normal)),
                        ("normal", fv(&n.plane.normal)),
                        ("children", format!("{:?}", n.children)),
                        ("num_faces", n.num_faces.to_string()),
                        ("first_face", n.first_face.to_string()),
                        ("distance", f(n.plane.distance)),
                    ]
                })
                .collect(),
        },
        Section { name: "doodad_refs", recs: g.doodad_refs.as_deref().unwrap_or(&[]).iter().map(|r| vec![("ref", r.to_string())]).collect() },
        Section {
            name: "liquid",
            recs: vec![match &g.liquid {
                None => vec![("present", "false".to_string())],
                Some(l) => vec![
                    ("present", "true".to_string()),
                    ("liquid_type", l.liquid_type.to_string()),
                    ("flags", format!("{:#x}", l.flags)),
                    ("dims", format!("{}x{}", l.width, l.height)),
                    ("vertices", l.vertices.iter().map(|v| format!("{}@{:?}", fv(&v.position), v.height)).collect::<Vec<_>>().join(" ")),
                    ("tile_flags", format!("{:?}", l.tile_flags)),
                ],
            }],
        },
        Section {
            name: "options",
            recs: vec![vec![
                ("vertex_colors", g.vertex_colors.is_some().to_string()),
                ("bsp_nodes", g.bsp_nodes.is_some().to_string()),
                ("doodad_refs", g.doodad_refs.is_some().to_string()),
            ]],
        },
    ]
}

/// `deep`: also render the liquid type (thorough tier; `MliqHeader::liquid_type` is the one liquid
/// field with a counterpart of the same name and meaning in the writer's input type).
pub fn new_group_model(g: &NewGroup, deep: bool) -> Model {
    let mut liquid: Rec = vec![("present", g.liquid_header.is_some().to_string())];
    if deep {
        if let Some(h) = &g.liquid_header {
            liquid.push(("liquid_type", h.liquid_type.to_string()));
        }
    }
    let bbx = if g.bounding_box.len() == 6 {
        format!("{}..{}", fa(&g.bounding_box[0..3]), fa(&g.bounding_box[3..6]))
    } else {
        format!("{:?}", g.bounding_box)
    };
    vec![
        Section {
            name: "header",
            recs: vec![vec![("name_offset", g.group_name_index.to_string()), ("flags", format!("{:#x}", g.flags)), ("bounding_box", bbx)]],
        },
        Section { name: "vertices", recs: g.vertex_positions.iter().map(|v| vec![("position", format!("({:?},{:?},{:?})", v.x, v.y, v.z))]).collect() },
        Section { name: "normals", recs: g.vertex_normals.iter().map(|v| vec![("normal", format!("({:?},{:?},{:?})", v.x, v.y, v.z))]).collect() },
        Section { name: "tex_coords", recs: g.texture_coords.iter().map(|t| vec![("uv", format!("({:?},{:?})", t.u, t.v))]).collect() },
        Section { name: "indices", recs: g.vertex_indices.iter().map(|i| vec![("index", i.to_string())]).collect() },
        Section {
            name: "batches",
            recs: g
                .render_batches
                .iter()
                .map(|b| {
                    vec![
                        ("start_index", b.start_index.to_string()),
                        ("count", b.count.to_string()),
                        ("start_vertex", b.min_index.to_string()),
                        ("end_vertex", b.max_index.to_string()),
                        ("material_id", b.material_id.to_string()),
                    ]
                })
                .collect(),
        },
        Section {
            name: "vertex_colors",
            recs: g.vertex_colors.iter().map(|c| vec![("color", format!("rgba({},{},{},{})", c.r, c.g, c.b, c.a))]).collect(),
        },
        Section {
            name: "bsp_nodes",
            recs: g
                .bsp_nodes
                .iter()
                .map(|n| {
                    vec![
                        ("axis", ["x", "y", "z", "?"][(n.flags & 3) as usize].to_string()),
                        ("children", format!("{:?}", [n.neg_child, n.pos_child])),
                        ("num_faces", n.n_faces.to_string()),
                        ("first_face", n.face_start.to_string()),
                        ("distance", f(n.plane_distance)),
                    ]
                })
                .collect(),
        },
        Section { name: "doodad_refs", recs: g.doodad_refs.iter().map(|r| vec![("ref", r.to_string())]).collect() },
        Section { name: "liquid", recs: vec![liquid] },
    ]
}
