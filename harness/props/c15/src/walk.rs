//! Independent WMO chunk walker, written from /repo/docs/src/formats/graphics/wmo.md
//! ("File Structure Overview": 4-byte identifier stored reversed, 4-byte little-endian size that
//! does not include the 8-byte header, then the data; group files: MVER followed by one MOGP
//! chunk that spans the rest of the file and holds a fixed header followed by sub-chunks).
//! Shares no code with /repo.

#[derive(Clone, Debug)]
pub struct Ck {
    pub id: String,
    /// offset of the 8-byte chunk header
    pub hdr: usize,
    pub start: usize,
    pub end: usize,
}

#[derive(Clone, Debug)]
pub struct Gap {
    /// identifier of the chunk before the uncovered bytes ("<start>" if none)
    pub after: String,
    pub at: usize,
    pub len: usize,
}

#[derive(Clone, Debug, Default)]
pub struct Walk {
    pub chunks: Vec<Ck>,
    pub gaps: Vec<Gap>,
}

impl Walk {
    pub fn get(&self, id: &str) -> Option<&Ck> {
        self.chunks.iter().find(|c| c.id == id)
    }
    pub fn count(&self, id: &str) -> usize {
        self.chunks.iter().filter(|c| c.id == id).count()
    }
    pub fn ids(&self) -> Vec<&str> {
        self.chunks.iter().map(|c| c.id.as_str()).collect()
    }
}

pub const ROOT_IDS: [&str; 18] = [
    "MVER", "MOHD", "MOTX", "MOMT", "MOGN", "MOGI", "MOSB", "MOPV", "MOPT", "MOPR", "MOVV", "MOVB", "MOLT", "MODS",
    "MODN", "MODD", "MFOG", "MCVP",
];
pub const GROUP_TOP_IDS: [&str; 2] = ["MVER", "MOGP"];
pub const GROUP_SUB_IDS: [&str; 12] =
    ["MOPY", "MOVI", "MOVT", "MONR", "MOTV", "MOBA", "MOLR", "MODR", "MOBN", "MOBR", "MOCV", "MLIQ"];

pub fn u32_at(b: &[u8], at: usize) -> Option<u32> {
    b.get(at..at + 4).map(|s| u32::from_le_bytes([s[0], s[1], s[2], s[3]]))
}

fn header_at(b: &[u8], pos: usize, hi: usize, ids: &[&str]) -> Option<(String, usize)> {
    if pos + 8 > hi {
        return None;
    }
    let raw = [b[pos + 3], b[pos + 2], b[pos + 1], b[pos]];
    let id = std::str::from_utf8(&raw).ok()?;
    if !ids.contains(&id) {
        return None;
    }
    let size = u32_at(b, pos + 4)? as usize;
    if pos + 8 + size > hi {
        return None;
    }
    Some((id.to_string(), size))
}

/// Walk `b[lo..hi]` as a chunk sequence over the identifier set `ids`. Bytes that are not covered
/// by a well-formed chunk are reported as gaps; the walk re-synchronises on the next position
/// that holds a known identifier with a size that fits.
pub fn walk(b: &[u8], lo: usize, hi: usize, ids: &[&str]) -> Walk {
    let mut w = Walk::default();
    let mut pos = lo;
    while pos < hi {
        if let Some((id, size)) = header_at(b, pos, hi, ids) {
            w.chunks.push(Ck { id, hdr: pos, start: pos + 8, end: pos + 8 + size });
            pos += 8 + size;
            continue;
        }
        let after = w.chunks.last().map(|c| c.id.clone()).unwrap_or_else(|| "<start>".into());
        let mut q = pos + 1;
        let mut found = None;
        while q + 8 <= hi {
            if header_at(b, q, hi, ids).is_some() {
                found = Some(q);
                break;
            }
            q += 1;
        }
        match found {
            Some(q) => {
                w.gaps.push(Gap { after, at: pos, len: q - pos });
                pos = q;
            }
            None => {
                w.gaps.push(Gap { after, at: pos, len: hi - pos });
                break;
            }
        }
    }
    w
}

/// NUL-terminated string starting at `off` inside a string-table chunk.
pub fn cstr_at(data: &[u8], off: usize) -> Option<&[u8]> {
    if off >= data.len() {
        return None;
    }
    let end = data[off..].iter().position(|&c| c == 0)?;
    Some(&data[off..off + end])
}

/// true if `off` is the first byte of a string in the table (offset 0 or preceded by NUL)
pub fn is_string_start(data: &[u8], off: usize) -> bool {
    off < data.len() && (off == 0 || data[off - 1] == 0) && data[off] != 0
}

/// number of non-empty NUL-terminated strings in a table
pub fn count_strings(data: &[u8]) -> usize {
    data.split(|&c| c == 0).filter(|s| !s.is_empty()).count()
}

/// Layout of a MOGP payload: a fixed header followed by sub-chunks that must tile the rest.
pub struct GroupLayout {
    /// length of the fixed header = offset of the first sub-chunk identifier in the payload
    /// (the whole payload if it holds no sub-chunk)
    pub header_len: usize,
    /// walk of the sub-chunks behind the header; `sub.gaps` non-empty = they do not tile
    pub sub: Walk,
}

pub fn group_layout(b: &[u8], mogp: &Ck) -> GroupLayout {
    // The header holds offsets, flags, floats and small counters, never a reversed sub-chunk
    // identifier; so the first such identifier marks the end of the header whatever its length.
    let mut h = mogp.end - mogp.start;
    let mut p = mogp.start;
    while p + 8 <= mogp.end {
        let raw = [b[p + 3], b[p + 2], b[p + 1], b[p]];
        if let Ok(id) = std::str::from_utf8(&raw) {
            if GROUP_SUB_IDS.contains(&id) {
                h = p - mogp.start;
                break;
            }
        }
        p += 1;
    }
    let sub = walk(b, mogp.start + h, mogp.end, &GROUP_SUB_IDS);
    GroupLayout { header_len: h, sub }
}
