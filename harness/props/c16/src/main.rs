//! C16 — BLP encode→parse is exact; mip chain; offsets; lossless encodings preserve pixels.
//!
//! Space: image dimensions x pixel class x target (version/encoding/alpha) x mipmaps(+filter).
//! Every case runs the real `image_to_blp` → `encode_blp`/`encode_blp0` → `parse_blp*` →
//! `blp_to_image` of /repo and judges with (a) the round-trip relation `parse(encode(t)) == t`,
//! (b) an independent byte-level walker/decoder (`refblp`, written from /repo/docs) for the
//! header, offset/size table, mip chain and RAW1/RAW3 pixel data.
mod refblp;

use image::{DynamicImage, RgbImage, RgbaImage};
use refblp::Kind;
use serde_json::{json, Value};
use vcore::*;
use wow_blp::convert::{
    blp_to_image, image_to_blp, AlphaBits, Blp2Format, BlpOldFormat, BlpTarget, DxtAlgorithm, FilterType,
};
use wow_blp::encode::{encode_blp, encode_blp0, save_blp};
use wow_blp::parser::{load_blp, load_blp_from_buf, parse_blp, parse_blp_with_externals};
use wow_blp::{BlpContent, BlpImage};

// ------------------------------------------------------------------ axes

#[derive(Clone, Copy, Debug, PartialEq, Eq)]
enum Fmt {
    Raw3,
    Raw1(u32),
    Dxt1(bool),
    Dxt3(bool),
    Dxt5(bool),
    Jpeg(bool),
}

#[derive(Clone, Copy, Debug)]
struct Tgt {
    ver: u8,
    fmt: Fmt,
    alg: u8, // 0 RangeFit, 1 ClusterFit, 2 IterativeClusterFit
}

impl Tgt {
    fn alpha_bits(b: u32) -> AlphaBits {
        match b {
            0 => AlphaBits::NoAlpha,
            1 => AlphaBits::Bit1,
            4 => AlphaBits::Bit4,
            _ => AlphaBits::Bit8,
        }
    }
    fn alg(&self) -> DxtAlgorithm {
        match self.alg {
            0 => DxtAlgorithm::RangeFit,
            1 => DxtAlgorithm::ClusterFit,
            _ => DxtAlgorithm::IterativeClusterFit,
        }
    }
    fn to_target(&self) -> BlpTarget {
        let old = |f: Fmt| match f {
            Fmt::Raw1(b) => BlpOldFormat::Raw1 { alpha_bits: Self::alpha_bits(b) },
            Fmt::Jpeg(a) => BlpOldFormat::Jpeg { has_alpha: a },
            _ => unreachable!(),
        };
        match self.ver {
            0 => BlpTarget::Blp0(old(self.fmt)),
            1 => BlpTarget::Blp1(old(self.fmt)),
            _ => BlpTarget::Blp2(match self.fmt {
                Fmt::Raw1(b) => Blp2Format::Raw1 { alpha_bits: Self::alpha_bits(b) },
                Fmt::Raw3 => Blp2Format::Raw3,
                Fmt::Jpeg(a) => Blp2Format::Jpeg { has_alpha: a },
                Fmt::Dxt1(a) => Blp2Format::Dxt1 { has_alpha: a, compress_algorithm: self.alg() },
                Fmt::Dxt3(a) => Blp2Format::Dxt3 { has_alpha: a, compress_algorithm: self.alg() },
                Fmt::Dxt5(a) => Blp2Format::Dxt5 { has_alpha: a, compress_algorithm: self.alg() },
            }),
        }
    }
    fn kind(&self) -> Kind {
        match self.fmt {
            Fmt::Raw1(b) => Kind::Raw1(b),
            Fmt::Raw3 => Kind::Raw3,
            Fmt::Dxt1(_) => Kind::Dxt(8),
            Fmt::Dxt3(_) | Fmt::Dxt5(_) => Kind::Dxt(16),
            Fmt::Jpeg(_) => Kind::Jpeg,
        }
    }
    /// short class used inside symptom strings
    fn class(&self) -> &'static str {
        match self.fmt {
            Fmt::Raw1(_) => "raw1",
            Fmt::Raw3 => "raw3",
            Fmt::Dxt1(_) | Fmt::Dxt3(_) | Fmt::Dxt5(_) => "dxt",
            Fmt::Jpeg(_) => "jpeg",
        }
    }
    fn fmt_name(&self) -> String {
        match self.fmt {
            Fmt::Raw1(b) => format!("raw1/a{b}"),
            Fmt::Raw3 => "raw3".into(),
            Fmt::Dxt1(a) => format!("dxt1/{}", if a { "alpha" } else { "noalpha" }),
            Fmt::Dxt3(a) => format!("dxt3/{}", if a { "alpha" } else { "noalpha" }),
            Fmt::Dxt5(a) => format!("dxt5/{}", if a { "alpha" } else { "noalpha" }),
            Fmt::Jpeg(a) => format!("jpeg/{}", if a { "alpha" } else { "noalpha" }),
        }
    }
    fn ver_name(&self) -> &'static str {
        ["BLP0", "BLP1", "BLP2"][self.ver as usize]
    }
}

fn targets(tier: Tier) -> Vec<Tgt> {
    let mut v = vec![];
    let t = |ver, fmt| Tgt { ver, fmt, alg: 0 };
    // simplest first: BLP2 raw3 (lossless), raw1, dxt, jpeg; then BLP1, BLP0
    v.push(t(2, Fmt::Raw3));
    for b in [0, 1, 4, 8] {
        v.push(t(2, Fmt::Raw1(b)));
    }
    for a in [false, true] {
        v.push(t(2, Fmt::Dxt1(a)));
    }
    for a in [false, true] {
        v.push(t(2, Fmt::Dxt3(a)));
    }
    for a in [false, true] {
        v.push(t(2, Fmt::Dxt5(a)));
    }
    for a in [false, true] {
        v.push(t(2, Fmt::Jpeg(a)));
    }
    for ver in [1, 0] {
        for b in [0, 1, 4, 8] {
            v.push(t(ver, Fmt::Raw1(b)));
        }
        for a in [false, true] {
            v.push(t(ver, Fmt::Jpeg(a)));
        }
    }
    if tier == Tier::Thorough {
        // the four algorithm targets of the first thorough tier keep their positions ...
        v.push(Tgt { ver: 2, fmt: Fmt::Dxt1(true), alg: 1 });
        v.push(Tgt { ver: 2, fmt: Fmt::Dxt3(true), alg: 1 });
        v.push(Tgt { ver: 2, fmt: Fmt::Dxt5(true), alg: 1 });
        v.push(Tgt { ver: 2, fmt: Fmt::Dxt5(true), alg: 2 });
        // ... and the rest of the product {dxt1,dxt3,dxt5} x {-alpha,+alpha} x {ClusterFit, IterativeClusterFit} follows
        for alg in [1u8, 2] {
            for a in [false, true] {
                for fmt in [Fmt::Dxt1(a), Fmt::Dxt3(a), Fmt::Dxt5(a)] {
                    if !v.iter().any(|t: &Tgt| t.ver == 2 && t.fmt == fmt && t.alg == alg) {
                        v.push(Tgt { ver: 2, fmt, alg });
                    }
                }
            }
        }
    }
    v
}

/// number of leading targets that use RangeFit or no DXT at all (run on every size)
const BASE_TARGETS: usize = 25;
/// the four ClusterFit/IterativeClusterFit targets of the first thorough tier
const LEGACY_ALG_TARGETS: usize = 4;

const PIXEL_CLASSES: [&str; 5] = ["all_transparent", "few_colours_opaque", "many_colours_alpha_ramp", "checker_varying_alpha", "rgb8_input_few_colours"];

/// thorough tier: the five classes above plus four more (other colour counts / every alpha value / other input pixel types)
const PIXEL_CLASSES_DEEP: [&str; 9] = [
    "all_transparent",
    "few_colours_opaque",
    "many_colours_alpha_ramp",
    "checker_varying_alpha",
    "rgb8_input_few_colours",
    "exactly_256_colours_every_alpha_value",
    "luma_alpha8_input",
    "rgba16_input",
    "rgb32f_input",
];

fn class_names(tier: Tier) -> &'static [&'static str] {
    match tier {
        Tier::Quick => &PIXEL_CLASSES,
        Tier::Thorough => &PIXEL_CLASSES_DEEP,
    }
}

/// alpha values straddling every 4-bit rounding boundary and the 1-bit ones; prime length so that
/// the pattern never aligns with a row width
const ALPHA_TABLE: [u8; 13] = [0, 255, 1, 8, 9, 16, 17, 127, 128, 136, 200, 247, 254];

/// 16-bit alpha values around the 16->8 bit rounding points
const ALPHA16_TABLE: [u16; 11] = [0, 0x00FF, 0x0100, 0x0180, 0x7FFF, 0x8000, 0x80FF, 0xFEFF, 0xFF00, 0xFFFF, 0x1234];

/// Build the source image; returns it together with the RGBA pixels the library will see.
fn make_image(w: u32, h: u32, class: usize) -> (DynamicImage, Vec<[u8; 4]>) {
    // classes 6.. are inputs that are not 8-bit RGB(A): the 8-bit RGBA view of the `image` crate
    // (`to_rgba8`, trusted) is the source the property speaks about
    match class {
        6 => {
            let im = image::GrayAlphaImage::from_fn(w, h, |x, y| {
                let i = (y * w + x) as usize;
                image::LumaA([(x * 29 + y * 17) as u8, ALPHA_TABLE[(i * 3 + 1) % ALPHA_TABLE.len()]])
            });
            let d = DynamicImage::ImageLumaA8(im);
            let px = rgba_of(&d);
            return (d, px);
        }
        7 => {
            let im = image::ImageBuffer::<image::Rgba<u16>, Vec<u16>>::from_fn(w, h, |x, y| {
                let i = (y * w + x) as usize;
                image::Rgba([(x * 4099 + y * 257) as u16, (y * 8191 + x * 3 + 0x80) as u16, ((x + y) * 0x0101 + 0x7F) as u16, ALPHA16_TABLE[i % ALPHA16_TABLE.len()]])
            });
            let d = DynamicImage::ImageRgba16(im);
            let px = rgba_of(&d);
            return (d, px);
        }
        8 => {
            let im = image::Rgb32FImage::from_fn(w, h, |x, y| {
                // includes values below 0, above 1 and exactly on .5/255 steps
                let f = |v: u32| ((v % 301) as f32 - 20.0) / 255.0;
                image::Rgb([f(x * 7 + y), f(y * 13 + 5), if (x + y) % 3 == 0 { 0.5 } else { f(x * y + 1) }])
            });
            let d = DynamicImage::ImageRgb32F(im);
            let px = rgba_of(&d);
            return (d, px);
        }
        _ => {}
    }
    let mut px = Vec::with_capacity((w * h) as usize);
    for y in 0..h {
        for x in 0..w {
            let i = (y * w + x) as usize;
            let p = match class {
                0 => [(x * 7 + 3) as u8, (y * 11 + 5) as u8, ((x + y) * 13) as u8, 0],
                1 | 4 => {
                    const C: [[u8; 3]; 5] = [[255, 0, 0], [0, 255, 0], [0, 0, 255], [250, 250, 5], [10, 20, 30]];
                    let c = C[((x * 3 + y * 5) % 5) as usize];
                    [c[0], c[1], c[2], 255]
                }
                2 => {
                    // > 256 distinct colours once there are > 256 pixels
                    let k = (i as u32).wrapping_mul(2654435761);
                    [(k >> 24) as u8, (k >> 13) as u8, (i as u32 * 5 + (k >> 5)) as u8, ALPHA_TABLE[i % ALPHA_TABLE.len()]]
                }
                5 => {
                    // colour k of exactly 256 (once there are >= 256 pixels); alpha walks through all 256 values
                    let k = (i % 256) as u32;
                    [k as u8, (255 - k) as u8, (k * 7) as u8, ((i as u32 * 37 + i as u32 / 256) % 256) as u8]
                }
                _ => {
                    let c = if (x + y) % 2 == 0 { 255 } else { 0 };
                    [c, c, 255 - c / 2, (x * 37 + y * 91 + 3) as u8]
                }
            };
            px.push(p);
        }
    }
    if class == 4 {
        let mut im = RgbImage::new(w, h);
        for (i, p) in im.pixels_mut().enumerate() {
            p.0 = [px[i][0], px[i][1], px[i][2]];
        }
        (DynamicImage::ImageRgb8(im), px)
    } else {
        let mut im = RgbaImage::new(w, h);
        for (i, p) in im.pixels_mut().enumerate() {
            p.0 = px[i];
        }
        (DynamicImage::ImageRgba8(im), px)
    }
}

fn filters(tier: Tier) -> Vec<(&'static str, FilterType)> {
    let mut v = vec![("Nearest", FilterType::Nearest), ("Triangle", FilterType::Triangle)];
    if tier == Tier::Thorough {
        v.extend([("CatmullRom", FilterType::CatmullRom), ("Gaussian", FilterType::Gaussian), ("Lanczos3", FilterType::Lanczos3)]);
    }
    v
}

/// the sizes of the first thorough tier (kept as a subset; ClusterFit targets of that tier run on all of them)
fn dims_legacy_thorough() -> Vec<(u32, u32)> {
    let mut v = vec![];
    let mut square = |sides: &[u32]| {
        for &w in sides {
            for &h in sides {
                v.push((w, h));
            }
        }
    };
    square(&(1..=33).collect::<Vec<u32>>());
    square(&[1, 2, 3, 4, 5, 7, 8, 16, 17, 31, 32, 33, 63, 64, 65, 127, 128, 129]);
    square(&[1, 2, 4, 8, 16, 32, 64, 128, 256, 512]);
    v.extend([(100, 60), (60, 100), (300, 200), (511, 512), (512, 511), (257, 255), (500, 3)]);
    v.sort_by_key(|&(w, h)| (w.max(h), w * h, w));
    v.dedup();
    v
}

/// sides of the long thin images (levels whose short side stays clamped to 1 for most of the chain; 65535 is
/// BLP_MAX_WIDTH and gives exactly the 16 levels the offset table can hold)
const STRIP_LONG: [u32; 8] = [1024, 1025, 2048, 4096, 16384, 32767, 32768, 65535];
/// sizes the converter has to refuse (side > BLP_MAX_WIDTH/HEIGHT)
const REFUSED: [(u32, u32); 2] = [(65536, 1), (1, 65536)];

fn dims(tier: Tier) -> Vec<(u32, u32)> {
    let mut v = vec![];
    let mut square = |sides: &[u32]| {
        for &w in sides {
            for &h in sides {
                v.push((w, h));
            }
        }
    };
    match tier {
        Tier::Quick => {
            square(&[1, 2, 3, 4, 5, 6, 7, 8, 9, 15, 16, 17, 31, 32, 33]);
            square(&[1, 2, 4, 8, 16, 32, 64]);
            v.extend([(256, 256), (256, 64), (64, 256), (512, 512), (100, 60)]);
        }
        Tier::Thorough => {
            square(&(1..=48).collect::<Vec<u32>>());
            square(&[255, 256, 257]);
            square(&[511, 512, 513]);
            v.extend(dims_legacy_thorough());
            // thin x wide in both orientations around every power of two up to 512
            for s in [1u32, 2, 3, 5] {
                for l in [63u32, 64, 65, 100, 127, 128, 129, 255, 256, 257, 300, 511, 512, 513] {
                    v.extend([(s, l), (l, s)]);
                }
            }
            v.extend([(512, 128), (128, 512), (384, 256), (320, 240), (240, 320)]);
            for s in [1u32, 3] {
                for l in STRIP_LONG {
                    v.extend([(s, l), (l, s)]);
                }
            }
            v.extend(REFUSED);
        }
    }
    v.sort_by_key(|&(w, h)| (w.max(h), w * h, w));
    v.dedup();
    v
}

const DIMS_QUICK: &str = "{1..9,15,16,17,31,32,33}^2 + {1,2,4,..,64}^2 + 256x256, 256x64, 64x256, 512x512, 100x60";
const DIMS_THOROUGH: &str = "{1..48}^2 + {1,2,3,4,5,7,8,16,17,31,32,33,63,64,65,127,128,129}^2 + {1,2,4,..,512}^2 + {255,256,257}^2 + {511,512,513}^2 + {1,2,3,5} x {63,64,65,100,127,128,129,255,256,257,300,511,512,513} both orientations + {1,3} x {1024,1025,2048,4096,16384,32767,32768,65535} both orientations + 100x60, 60x100, 300x200, 511x512, 512x511, 257x255, 500x3, 512x128, 128x512, 384x256, 320x240, 240x320 + the two sizes that must be refused (65536x1, 1x65536)";

// ------------------------------------------------------------------ the space

struct Main {
    tier: Tier,
    dims: Vec<(u32, u32)>,
    targets: Vec<Tgt>,
    filters: Vec<(&'static str, FilterType)>,
    /// (target index, size index) of every engine case, simplest first
    cases: Vec<(u16, u32)>,
    scratch: Scratch,
}

struct Case {
    w: u32,
    h: u32,
    class: usize,
    tgt: Tgt,
    mip: bool,
    filter: (&'static str, FilterType),
}

/// which (target, size) pairs are enumerated.
/// quick: the full product. thorough: the 25 base targets x every size; the four ClusterFit/Iterative targets of the
/// first thorough tier x every size of that tier and every size with sides <= 48; the remaining eight algorithm
/// targets x every size with sides <= 33.
fn case_list(tier: Tier, targets: &[Tgt], dims: &[(u32, u32)]) -> Vec<(u16, u32)> {
    let mut v = vec![];
    match tier {
        Tier::Quick => {
            // index = target + targets.len() * size (target varies fastest)
            for d in 0..dims.len() {
                for t in 0..targets.len() {
                    v.push((t as u16, d as u32));
                }
            }
        }
        Tier::Thorough => {
            let legacy = dims_legacy_thorough();
            for (d, &(w, h)) in dims.iter().enumerate() {
                let side = w.max(h);
                let in_legacy = legacy.contains(&(w, h));
                for t in 0..targets.len() {
                    let ok = if t < BASE_TARGETS {
                        true
                    } else if t < BASE_TARGETS + LEGACY_ALG_TARGETS {
                        in_legacy || side <= 48
                    } else {
                        side <= 33
                    };
                    if ok {
                        v.push((t as u16, d as u32));
                    }
                }
            }
        }
    }
    v
}

impl Main {
    fn new(tier: Tier) -> Main {
        let (dims, targets) = (dims(tier), targets(tier));
        let cases = case_list(tier, &targets, &dims);
        Main { tier, dims, targets, filters: filters(tier), cases, scratch: Scratch::new("c16") }
    }
    /// one case = (target, image size); the pixel classes and mipmap/filter settings are the inner loop.
    /// The ClusterFit/IterativeClusterFit targets (thorough only) run the five pixel classes of the quick tier.
    fn n_classes(&self, i: u64) -> u64 {
        let t = self.cases[i as usize].0 as usize;
        if t >= BASE_TARGETS {
            PIXEL_CLASSES.len() as u64
        } else {
            class_names(self.tier).len() as u64
        }
    }
    fn subs(&self, i: u64) -> u64 {
        (1 + self.filters.len() as u64) * self.n_classes(i)
    }
    fn sub_case(&self, i: u64, sub: u64) -> Case {
        let (t, d) = self.cases[i as usize];
        let e = gen::mixed_radix(sub, &[1 + self.filters.len() as u64, self.n_classes(i)]);
        let (w, h) = self.dims[d as usize];
        let mip = e[0] > 0;
        let filter = if mip { self.filters[e[0] as usize - 1] } else { self.filters[0] };
        Case { w, h, class: e[1] as usize, tgt: self.targets[t as usize], mip, filter }
    }
}

fn describe_case(c: &Case) -> Value {
    // does any level of the full chain have ceil(w*h/16) != ceil(w/4)*ceil(h/4) 4x4 tiles?
    let tiles_differ = |w: u32, h: u32| (w * h + 15) / 16 != ((w + 3) / 4) * ((h + 3) / 4);
    let any = (0..refblp::full_chain_levels(c.w, c.h)).any(|i| {
        let (lw, lh) = refblp::level_dims(c.w, c.h, i);
        tiles_differ(lw, lh)
    });
    json!({
        "w": c.w, "h": c.h,
        "shape": if c.w == c.h { "square" } else { "nonsquare" },
        "pow2": c.w.is_power_of_two() && c.h.is_power_of_two(),
        "version": c.tgt.ver_name(),
        "format": c.tgt.fmt_name(),
        "dxt_alg": if c.tgt.class() == "dxt" { ["RangeFit", "ClusterFit", "IterativeClusterFit"][c.tgt.alg as usize] } else { "-" },
        "tiles_ne_pixels_div16": {"level0": tiles_differ(c.w, c.h), "some_level": any},
    })
}

fn level_len(t: &BlpImage, i: usize) -> usize {
    match &t.content {
        BlpContent::Jpeg(j) => j.images[i].len(),
        BlpContent::Raw1(x) => x.images[i].len(),
        BlpContent::Raw3(x) => x.images[i].len(),
        BlpContent::Dxt1(x) | BlpContent::Dxt3(x) | BlpContent::Dxt5(x) => x.images[i].len(),
    }
}

fn level_bytes_of(t: &BlpImage, i: usize) -> Vec<u8> {
    match &t.content {
        BlpContent::Jpeg(j) => j.images[i].clone(),
        BlpContent::Raw1(x) => {
            let mut v = x.images[i].indexed_rgb.clone();
            v.extend(&x.images[i].indexed_alpha);
            v
        }
        BlpContent::Raw3(x) => x.images[i].pixels.iter().flat_map(|p| p.to_le_bytes()).collect(),
        BlpContent::Dxt1(x) | BlpContent::Dxt3(x) | BlpContent::Dxt5(x) => x.images[i].content.clone(),
    }
}

/// The JPEG decoder behind the (trusted) `image` crate, zune-jpeg 0.4.20, computes `(width + 7) / 8` and
/// `(height + 7) / 8` in u16 (mcu.rs decode_mcu_ycbcr_baseline): a side above 65528 overflows there (a panic under
/// overflow checks). Third-party arithmetic, not the subject: such levels are judged on structure only.
fn jpeg_decoder_limit(w: u32, h: u32) -> bool {
    w > 65528 || h > 65528
}

fn rgba_of(img: &DynamicImage) -> Vec<[u8; 4]> {
    img.to_rgba8().pixels().map(|p| p.0).collect()
}

fn first_diff<T: PartialEq>(a: &[T], b: &[T]) -> Option<usize> {
    if a.len() != b.len() {
        return Some(a.len().min(b.len()));
    }
    (0..a.len()).find(|&i| a[i] != b[i])
}

impl Main {
    fn judge(&self, idx: u64, c: &Case, r: &mut CaseResult) {
        let (img, src) = make_image(c.w, c.h, c.class);
        judge_img(self.tier, &self.scratch, idx, c, PIXEL_CLASSES_DEEP[c.class], img, &src, r);
    }
}

/// Convert `img` (whose 8-bit RGBA view is `src`) to the target of `c`, encode, parse, decode and judge everything.
/// Returns the parsed texture (for chained conversions).
#[allow(clippy::too_many_arguments)]
fn judge_img(tier: Tier, scratch: &Scratch, idx: u64, c: &Case, label: &str, img: DynamicImage, src: &[[u8; 4]], r: &mut CaseResult) -> Option<BlpImage> {
    let deep = tier == Tier::Thorough;
    {
        let (w, h) = (c.w, c.h);
        let cls = c.tgt.class();
        let ver = c.tgt.ver_name();
        let kind = c.tgt.kind();
        let full = if c.mip { refblp::full_chain_levels(w, h) } else { 1 };
        let ctx = format!("{}x{} {} {} {} mip={} filter={}", w, h, label, ver, c.tgt.fmt_name(), c.mip, c.filter.0);

        // ---- convert
        let t = match image_to_blp(img, c.mip, c.tgt.to_target(), c.filter.1) {
            Ok(t) => t,
            Err(e) => {
                r.err_return = true;
                r.outcome = format!("{ver}|{cls}|convert_err");
                r.count("convert_refusals", 1);
                let _ = e;
                return None;
            }
        };
        r.nontrivial = true;
        let levels = t.image_count();
        r.count("levels_produced", levels as u64);

        // ---- B: mip chain of the converted texture
        if levels != full {
            if !c.mip {
                r.viol(format!("mipmaps off but converter produced more than one level [{cls}]"), format!("{ctx}: {levels} levels"));
            } else if w != h && levels == refblp::ilog2_floor(w.min(h)) as usize + 1 {
                r.viol(
                    "mip chain: converter stops halving when the shorter side reaches 1, chain never reaches 1x1 (non-square image)",
                    format!("{ctx}: {levels} levels, last is {:?}; a chain down to 1x1 has {full} levels", refblp::level_dims(w, h, levels.saturating_sub(1))),
                );
            } else {
                r.viol(format!("mip chain: level count differs from floor(log2(max side))+1 [{cls}]"), format!("{ctx}: {levels} levels, expected {full}"));
            }
        }
        if t.header.width != w || t.header.height != h {
            r.viol("converted header width/height differ from the image", format!("{ctx}: header {}x{}", t.header.width, t.header.height));
        }
        if t.header.has_mipmaps() != c.mip {
            r.viol("converted header has_mipmaps flag differs from request", format!("{ctx}: {:?}", t.header.flags));
        }
        // the header's own chain arithmetic (types/header.rs mipmaps_count / mipmap_size)
        if t.header.mipmaps_count() + 1 != full {
            r.viol(
                "header.mipmaps_count() differs from floor(log2(max side)) (or is non-zero with mipmaps off)",
                format!("{ctx}: mipmaps_count()={} expected {}", t.header.mipmaps_count(), full - 1),
            );
        }
        for i in 0..refblp::full_chain_levels(w, h) {
            if t.header.mipmap_size(i) != refblp::level_dims(w, h, i) {
                r.viol("header.mipmap_size(i) differs from max(1,w>>i) x max(1,h>>i)", format!("{ctx}: level {i}: {:?} expected {:?}", t.header.mipmap_size(i), refblp::level_dims(w, h, i)));
                break;
            }
        }
        for i in 0..levels {
            let (lw, lh) = refblp::level_dims(w, h, i);
            if let Some(want) = refblp::level_bytes(kind, lw, lh) {
                let got = level_len(&t, i);
                if got != want {
                    r.viol(
                        format!("mip chain: converted level data size does not match max(1,w>>i) x max(1,h>>i) [{cls}]"),
                        format!("{ctx}: level {i} ({lw}x{lh}) has {got} bytes, expected {want}"),
                    );
                    break;
                }
            }
        }

        // ---- C: encode
        let (bytes, ext): (Vec<u8>, Vec<Vec<u8>>) = if c.tgt.ver == 0 {
            match encode_blp0(&t) {
                Ok(x) => (x.blp_bytes, x.blp_mipmaps),
                Err(e) => {
                    r.viol(format!("encode_blp0 rejects the texture produced by image_to_blp [{ver} {cls}]"), format!("{ctx}: {e}"));
                    r.outcome = format!("{ver}|{cls}|lv{levels}|encode_err");
                    return None;
                }
            }
        } else {
            match encode_blp(&t) {
                Ok(x) => (x, vec![]),
                Err(e) => {
                    r.viol(format!("encode_blp rejects the texture produced by image_to_blp [{ver} {cls}]"), format!("{ctx}: {e}"));
                    r.outcome = format!("{ver}|{cls}|lv{levels}|encode_err");
                    return None;
                }
            }
        };
        r.count("bytes_encoded", bytes.len() as u64 + ext.iter().map(|e| e.len() as u64).sum::<u64>());

        // ---- D: parse and compare
        let parsed = if c.tgt.ver == 0 {
            let extr = &ext;
            parse_blp_with_externals(&bytes, move |i| Ok(extr.get(i).map(|v| v.as_slice())))
        } else {
            parse_blp(&bytes)
        };
        let parsed = match parsed {
            Ok(p) => Some(p),
            Err(e) => {
                let msg = format!("{e}");
                if c.tgt.ver == 0 && msg.contains("no body of image") && ext.len() == levels && levels < full {
                    r.viol(
                        "BLP0 parse demands more external mip levels than encode_blp0 produced (truncated non-square chain)",
                        format!("{ctx}: {} external levels produced; parser: {msg}", ext.len()),
                    );
                } else {
                    r.viol(format!("parser rejects the encoder's output [{ver} {cls}]"), format!("{ctx}: {msg}"));
                }
                None
            }
        };
        if let Some(p) = &parsed {
            compare(c, &ctx, &t, p, "parse(encode(t))", r);
        }

        // ---- through the file system: save_blp / load_blp (BLP0 with its .bNN side files; thorough: BLP1/BLP2 too)
        if c.tgt.ver == 0 || deep {
            let path = scratch.path(&format!("c{idx}.blp"));
            match save_blp(&t, &path) {
                Err(e) => r.viol(format!("save_blp rejects the texture produced by image_to_blp [{ver} {cls}]"), format!("{ctx}: {e}")),
                Ok(()) => match load_blp(&path) {
                    Err(e) => {
                        let msg = format!("{e}");
                        if c.tgt.ver == 0 && msg.contains("no body of image") && levels < full {
                            r.viol(
                                "BLP0 parse demands more external mip levels than encode_blp0 produced (truncated non-square chain)",
                                format!("{ctx}: load_blp(save_blp(t)): {msg}"),
                            );
                        } else {
                            r.viol(format!("load_blp rejects the files written by save_blp [{ver} {cls}]"), format!("{ctx}: {msg}"));
                        }
                    }
                    Ok(p) => {
                        compare(c, &ctx, &t, &p, "load_blp(save_blp(t))", r);
                        r.count(if c.tgt.ver == 0 { "blp0_fs_roundtrips" } else { "blp1_blp2_fs_roundtrips" }, 1);
                    }
                },
            }
            let _ = std::fs::remove_file(&path);
            if c.tgt.ver == 0 {
                for i in 0..17 {
                    let _ = std::fs::remove_file(scratch.path(&format!("c{idx}.b{i:02}")));
                }
            }
        }
        // ---- thorough: the in-memory loader entry point (no side files: BLP1/BLP2 only)
        if deep && c.tgt.ver != 0 {
            match load_blp_from_buf(&bytes) {
                Err(e) => r.viol(format!("load_blp_from_buf rejects the encoder's output [{ver} {cls}]"), format!("{ctx}: {e}")),
                Ok(p) => {
                    compare(c, &ctx, &t, &p, "load_blp_from_buf(encode(t))", r);
                    r.count("load_from_buf_roundtrips", 1);
                }
            }
        }

        // ---- E: independent walk of the bytes
        let lvl_data = walk_bytes(c, &ctx, &t, &bytes, &ext, r);

        // ---- F: pixels
        if let Some(ld) = &lvl_data {
            pixels(deep, c, &ctx, src, &bytes, ld, parsed.as_ref(), r);
        }

        r.outcome = format!("{ver}|{cls}|lv{levels}/{full}|{}", if r.viols.is_empty() { "held" } else { "viol" });
        parsed
    }
}

    /// structural comparison with classification of the difference
    fn compare(c: &Case, ctx: &str, t: &BlpImage, p: &BlpImage, rel: &str, r: &mut CaseResult) {
        let cls = c.tgt.class();
        let ver = c.tgt.ver_name();
        r.count("structure_comparisons", 1);
        if p == t {
            return;
        }
        let before = r.viols.len();
        if p.header != t.header {
            r.viol(format!("{rel}: header differs [{ver} {cls}]"), format!("{ctx}: parsed {:?} vs written {:?}", p.header, t.header));
        }
        if std::mem::discriminant(&p.content) != std::mem::discriminant(&t.content) {
            r.viol(format!("{rel}: content variant differs [{ver} {cls}]"), format!("{ctx}: parsed {:?} vs written {:?}", p.compression_type(), t.compression_type()));
            return;
        }
        let (np, nt) = (p.image_count(), t.image_count());
        if np != nt {
            let full = if c.mip { refblp::full_chain_levels(c.w, c.h) } else { 1 };
            if np > nt && nt < full && np == full && (nt..np).all(|i| level_len(p, i) == 0) {
                r.viol(
                    format!("{rel}: parser appends empty levels beyond the written chain (reads mipmaps_count+1 entries regardless of size 0) [{cls}]"),
                    format!("{ctx}: written {nt} levels, parsed {np}"),
                );
            } else {
                r.viol(format!("{rel}: level count differs [{ver} {cls}]"), format!("{ctx}: written {nt} levels, parsed {np}"));
            }
        }
        for i in 0..np.min(nt) {
            let (a, b) = (level_bytes_of(p, i), level_bytes_of(t, i));
            if a != b {
                let (lw, lh) = refblp::level_dims(c.w, c.h, i);
                let by_pixel_count = match c.tgt.kind() {
                    Kind::Dxt(block) => ((lw as usize * lh as usize + 15) / 16) * block,
                    _ => usize::MAX,
                };
                if cls == "dxt" && a.len() < b.len() && a.len() == by_pixel_count && b[..a.len()] == a[..] {
                    r.viol(
                        format!("{rel}: dxt level truncated by the parser (block count taken from ceil(w*h/16) instead of ceil(w/4)*ceil(h/4))"),
                        format!("{ctx}: level {i} ({lw}x{lh}): written {} bytes, parsed {}", b.len(), a.len()),
                    );
                } else {
                    r.viol(
                        format!("{rel}: level data differs [{ver} {cls}]"),
                        format!("{ctx}: level {i} ({lw}x{lh}): written {} bytes, parsed {} bytes, first difference at {:?}", b.len(), a.len(), first_diff(&a, &b)),
                    );
                }
                break;
            }
        }
        if r.viols.len() == before {
            // palette / jpeg header / anything else
            r.viol(format!("{rel}: texture differs outside header and level data (palette or jpeg header) [{ver} {cls}]"), format!("{ctx}"));
        }
    }

    /// Walk the file bytes with the independent reader. Returns (offset-or-external, bytes) of each level found.
    fn walk_bytes(c: &Case, ctx: &str, t: &BlpImage, bytes: &[u8], ext: &[Vec<u8>], r: &mut CaseResult) -> Option<Vec<Vec<u8>>> {
        let cls = c.tgt.class();
        let ver = c.tgt.ver_name();
        let kind = c.tgt.kind();
        let rh = match refblp::parse_header(bytes) {
            Ok(h) => h,
            Err(e) => {
                r.viol(format!("file header unreadable by the reference walker [{ver}]"), format!("{ctx}: {e}"));
                return None;
            }
        };
        let bad = |field: &str, got: String, want: String, r: &mut CaseResult| {
            r.viol(format!("file header field {field} differs from the request [{ver} {cls}]"), format!("{ctx}: got {got}, want {want}"));
        };
        if rh.version != c.tgt.ver {
            bad("magic", rh.version.to_string(), c.tgt.ver.to_string(), r);
        }
        if rh.width != c.w || rh.height != c.h {
            bad("width/height", format!("{}x{}", rh.width, rh.height), format!("{}x{}", c.w, c.h), r);
        }
        if (rh.has_mipmaps != 0) != c.mip {
            bad("has_mipmaps", rh.has_mipmaps.to_string(), (c.mip as u32).to_string(), r);
        }
        let want_content = if kind == Kind::Jpeg { 0 } else { 1 };
        if rh.content != want_content {
            bad("content", rh.content.to_string(), want_content.to_string(), r);
        }
        if let Some(comp) = rh.compression {
            let want = match kind {
                Kind::Jpeg => 0,
                Kind::Raw1(_) => 1,
                Kind::Dxt(_) => 2,
                Kind::Raw3 => 3,
            };
            if comp != want {
                bad("compression", comp.to_string(), want.to_string(), r);
            }
        }
        if let Kind::Raw1(b) = kind {
            if rh.alpha_bits != b {
                bad("alpha_bits", rh.alpha_bits.to_string(), b.to_string(), r);
            }
        }
        let data_start = if kind == Kind::Jpeg {
            match refblp::jpeg_header(bytes, &rh) {
                Ok((_, s)) => s,
                Err(e) => {
                    r.viol(format!("jpeg header area unreadable by the reference walker [{ver}]"), format!("{ctx}: {e}"));
                    return None;
                }
            }
        } else {
            match refblp::palette(bytes, &rh) {
                Ok((_, s)) => s,
                Err(e) => {
                    r.viol(format!("palette unreadable by the reference walker [{ver} {cls}]"), format!("{ctx}: {e}"));
                    return None;
                }
            }
        };
        let nt = t.image_count();
        let mut out = vec![];
        match rh.table {
            None => {
                // BLP0: levels are the external buffers
                if ext.len() != nt {
                    r.viol("encode_blp0: number of external mip buffers differs from the level count", format!("{ctx}: {} buffers, {nt} levels", ext.len()));
                }
                for (i, e) in ext.iter().enumerate() {
                    let (lw, lh) = refblp::level_dims(c.w, c.h, i);
                    if let Some(want) = refblp::level_bytes(kind, lw, lh) {
                        if e.len() != want {
                            r.viol(format!("external mip buffer size does not match its dimensions [{ver} {cls}]"), format!("{ctx}: level {i} ({lw}x{lh}) has {} bytes, expected {want}", e.len()));
                        }
                    }
                    out.push(e.clone());
                }
            }
            Some((offs, sizes)) => {
                let n = sizes.iter().take_while(|&&s| s > 0).count();
                r.count("table_entries_checked", 16);
                if n != nt {
                    r.viol(format!("offset table: number of non-empty entries differs from the level count [{ver} {cls}]"), format!("{ctx}: {n} entries, {nt} levels; sizes {:?}", sizes));
                }
                for i in n..16 {
                    if sizes[i] != 0 {
                        r.viol(format!("offset table: non-empty entry after an empty one [{ver} {cls}]"), format!("{ctx}: entry {i} = ({}, {})", offs[i], sizes[i]));
                        break;
                    }
                }
                let mut prev_end = data_start;
                for i in 0..n {
                    let (o, s) = (offs[i] as usize, sizes[i] as usize);
                    let (lw, lh) = refblp::level_dims(c.w, c.h, i);
                    if o < data_start {
                        r.viol(format!("offset table: level lies inside the header/palette area [{ver} {cls}]"), format!("{ctx}: level {i} offset {o} < data start {data_start}"));
                        return None;
                    }
                    if o + s > bytes.len() {
                        r.viol(format!("offset table: level exceeds the file [{ver} {cls}]"), format!("{ctx}: level {i} offset {o} size {s}, file {}", bytes.len()));
                        return None;
                    }
                    if o < prev_end {
                        r.viol(format!("offset table: levels overlap or are out of order [{ver} {cls}]"), format!("{ctx}: level {i} offset {o} < end of previous {prev_end}"));
                        return None;
                    }
                    if let Some(want) = refblp::level_bytes(kind, lw, lh) {
                        if s != want {
                            r.viol(format!("offset table: level size does not match its dimensions [{ver} {cls}]"), format!("{ctx}: level {i} ({lw}x{lh}) size {s}, expected {want}"));
                        }
                    }
                    prev_end = o + s;
                    out.push(bytes[o..o + s].to_vec());
                }
            }
        }
        Some(out)
    }

    fn pixels(deep: bool, c: &Case, ctx: &str, src: &[[u8; 4]], bytes: &[u8], lvl: &[Vec<u8>], parsed: Option<&BlpImage>, r: &mut CaseResult) {
        let ver = c.tgt.ver_name();
        let cls = c.tgt.class();
        let kind = c.tgt.kind();
        let rh = match refblp::parse_header(bytes) {
            Ok(h) => h,
            Err(_) => return,
        };
        // library decode of every parsed level: must succeed with the level's dimensions
        let mut lib: Vec<Option<Vec<[u8; 4]>>> = vec![];
        if let Some(p) = parsed {
            for i in 0..p.image_count() {
                let (lw, lh) = refblp::level_dims(c.w, c.h, i);
                if level_len(p, i) == 0 && kind != Kind::Jpeg {
                    lib.push(None); // an appended empty level was already reported
                    continue;
                }
                if kind == Kind::Jpeg && level_len(p, i) == 0 && i >= lvl.len() {
                    lib.push(None);
                    continue;
                }
                if kind == Kind::Jpeg && jpeg_decoder_limit(lw, lh) {
                    r.count("jpeg_levels_not_decoded_third_party_u16_limit", 1);
                    lib.push(None);
                    continue;
                }
                match blp_to_image(p, i) {
                    Ok(im) => {
                        r.count("levels_decoded_by_library", 1);
                        if (im.width(), im.height()) != (lw, lh) {
                            r.viol(format!("blp_to_image: decoded level has wrong dimensions [{ver} {cls}]"), format!("{ctx}: level {i} is {}x{}, expected {lw}x{lh}", im.width(), im.height()));
                            lib.push(None);
                        } else {
                            lib.push(Some(rgba_of(&im)));
                        }
                    }
                    Err(e) => {
                        r.viol(format!("blp_to_image fails on a parsed level [{ver} {cls}]"), format!("{ctx}: level {i}: {e}"));
                        lib.push(None);
                    }
                }
            }
        }
        match kind {
            Kind::Raw3 => {
                // thorough: the Nearest filter only replicates pixels, so every pixel of a lower level occurs in the source
                let nearest = deep && c.mip && c.filter.0 == "Nearest" && lvl.len() > 1;
                let src_set: std::collections::HashSet<[u8; 4]> = if nearest { src.iter().copied().collect() } else { Default::default() };
                for (i, data) in lvl.iter().enumerate() {
                    let (lw, lh) = refblp::level_dims(c.w, c.h, i);
                    let Ok(refpx) = refblp::decode_raw3(data, lw, lh) else { continue };
                    r.count("levels_decoded_by_reference", 1);
                    if nearest && i > 0 {
                        if let Some(k) = refpx.iter().position(|p| !src_set.contains(p)) {
                            r.viol("raw3: lower mip level made with the Nearest filter holds a pixel that does not occur in the source image", format!("{ctx}: level {i} pixel {k}: {:?}", refpx[k]));
                        }
                        r.count("nearest_lower_levels_checked_against_source_pixel_set", 1);
                    }
                    if i == 0 {
                        if let Some(k) = first_diff(&refpx, src) {
                            r.viol("raw3: level-0 pixels stored in the file differ from the source pixels", format!("{ctx}: pixel {k}: file {:?} source {:?}", refpx.get(k), src.get(k)));
                        }
                    }
                    if let Some(Some(l)) = lib.get(i) {
                        if let Some(k) = first_diff(l, &refpx) {
                            r.viol("raw3: blp_to_image disagrees with the BGRA bytes in the file", format!("{ctx}: level {i} pixel {k}: library {:?} file {:?}", l.get(k), refpx.get(k)));
                        } else if i == 0 {
                            r.count("raw3_exact_pixel_matches", refpx.len() as u64);
                        }
                    }
                }
            }
            Kind::Raw1(bits) => {
                let Ok((pal, _)) = refblp::palette(bytes, &rh) else { return };
                // thorough: the Nearest filter only replicates pixels, so a lower level stores no alpha value that level 0 does not store
                let nearest = deep && c.mip && c.filter.0 == "Nearest" && lvl.len() > 1 && bits > 0;
                let mut alpha0 = [false; 256];
                let mut have0 = false;
                for (i, data) in lvl.iter().enumerate() {
                    let (lw, lh) = refblp::level_dims(c.w, c.h, i);
                    let Ok(refpx) = refblp::decode_raw1(data, lw, lh, bits) else { continue };
                    r.count("levels_decoded_by_reference", 1);
                    if nearest && i == 0 {
                        for &(_, a) in &refpx {
                            alpha0[a as usize] = true;
                        }
                        have0 = true;
                    }
                    if nearest && i > 0 && have0 {
                        if let Some(k) = refpx.iter().position(|&(_, a)| !alpha0[a as usize]) {
                            r.viol(format!("raw1: lower mip level made with the Nearest filter stores an alpha value that level 0 does not contain [a{bits}]"), format!("{ctx}: level {i} pixel {k}: alpha {}", refpx[k].1));
                        }
                        r.count("nearest_lower_levels_checked_against_source_alpha_set", 1);
                    }
                    if i == 0 && refpx.len() == src.len() {
                        // alpha == source alpha quantised to the declared depth
                        let (mut max0, mut min1) = (-1i32, 256i32);
                        for (k, &(_, a)) in refpx.iter().enumerate() {
                            let s = src[k][3];
                            let ok = match bits {
                                8 => a == s,
                                4 => {
                                    let q = a / 17;
                                    q == ((s as u32 * 15 + 127) / 255) as u8 || q == s >> 4
                                }
                                1 => {
                                    if a == 0 {
                                        max0 = max0.max(s as i32);
                                    } else {
                                        min1 = min1.min(s as i32);
                                    }
                                    !(s == 0 && a != 0) && !(s == 255 && a != 255)
                                }
                                _ => true,
                            };
                            if !ok {
                                r.viol(format!("raw1: stored alpha is not the source alpha quantised to the declared depth [a{bits}]"), format!("{ctx}: pixel {k}: source alpha {s}, stored (expanded) {a}"));
                                break;
                            }
                        }
                        if bits == 1 && max0 >= min1 {
                            r.viol("raw1: stored alpha is not the source alpha quantised to the declared depth [a1]", format!("{ctx}: not monotone: alpha {max0} -> 0 but alpha {min1} -> 1"));
                        }
                        r.count("raw1_alpha_pixels_checked", refpx.len() as u64);
                    }
                    if let Some(Some(l)) = lib.get(i) {
                        // every decoded colour is the palette entry selected by the stored index
                        // (channel order of the palette bytes is not fixed by the property: accept R,G,B,x or B,G,R,x, consistently)
                        let as_rgb = |k: usize| {
                            let e = pal[refpx[k].0 as usize];
                            [e[0], e[1], e[2]]
                        };
                        let as_bgr = |k: usize| {
                            let e = pal[refpx[k].0 as usize];
                            [e[2], e[1], e[0]]
                        };
                        let rgb_ok = (0..l.len()).all(|k| l[k][..3] == as_rgb(k));
                        let bgr_ok = (0..l.len()).all(|k| l[k][..3] == as_bgr(k));
                        if !rgb_ok && !bgr_ok {
                            let k = (0..l.len()).find(|&k| l[k][..3] != as_rgb(k)).unwrap_or(0);
                            r.viol("raw1: decoded colour is not the palette entry selected by the stored index", format!("{ctx}: level {i} pixel {k}: library {:?}, palette[{}] bytes {:?}", l[k], refpx[k].0, pal[refpx[k].0 as usize]));
                        } else {
                            if rgb_ok && !bgr_ok {
                                r.count("raw1_levels_palette_bytes_in_RGBx_order", 1);
                            }
                            if bgr_ok && !rgb_ok {
                                r.count("raw1_levels_palette_bytes_in_BGRx_order", 1);
                            }
                        }
                        if let Some(k) = (0..l.len()).find(|&k| l[k][3] != refpx[k].1) {
                            r.viol(format!("raw1: blp_to_image alpha disagrees with the alpha bits in the file [a{bits}]"), format!("{ctx}: level {i} pixel {k}: library {} file {}", l[k][3], refpx[k].1));
                        }
                    }
                }
            }
            Kind::Jpeg => {
                let Ok((jh, _)) = refblp::jpeg_header(bytes, &rh) else { return };
                for (i, data) in lvl.iter().enumerate() {
                    let (lw, lh) = refblp::level_dims(c.w, c.h, i);
                    if jpeg_decoder_limit(lw, lh) {
                        continue;
                    }
                    let mut full = jh.clone();
                    full.extend(data);
                    match image::load_from_memory_with_format(&full, image::ImageFormat::Jpeg) {
                        Ok(im) => {
                            r.count("levels_decoded_by_reference", 1);
                            if (im.width(), im.height()) != (lw, lh) {
                                r.viol(format!("jpeg: stored level has wrong dimensions [{ver}]"), format!("{ctx}: level {i} is {}x{}, expected {lw}x{lh}", im.width(), im.height()));
                            }
                        }
                        Err(e) => r.viol(format!("jpeg: header+level bytes in the file are not a decodable JPEG [{ver}]"), format!("{ctx}: level {i}: {e}")),
                    }
                }
            }
            Kind::Dxt(_) => {}
        }
    }


impl Space for Main {
    fn len(&self) -> u64 {
        self.cases.len() as u64
    }
    fn describe(&self, i: u64) -> Value {
        describe_case(&self.sub_case(i, 0))
    }
    fn run(&self, i: u64) -> CaseResult {
        let mut r = CaseResult::new();
        r.key = self.describe(i).to_string();
        let mut outcomes: Vec<String> = vec![];
        let mut refused = 0;
        for sub in 0..self.subs(i) {
            let c = self.sub_case(i, sub);
            let mut s = CaseResult::new();
            // a panic in one setting must not hide the others
            guard_case(&mut s, "sub-evaluation", |s| self.judge(i * 1000 + sub, &c, s));
            r.count("sub_evaluations", 1);
            if s.nontrivial {
                r.nontrivial = true;
            }
            if s.err_return {
                refused += 1;
            }
            for (k, n) in s.counters {
                r.count(&k, n);
            }
            for v in s.viols {
                // one report per symptom class and case (first = simplest setting)
                if !r.viols.iter().any(|x| x.symptom == v.symptom) {
                    r.viols.push(v);
                } else {
                    r.count("further_occurrences_of_reported_symptoms", 1);
                }
            }
            if !outcomes.contains(&s.outcome) {
                outcomes.push(s.outcome);
            }
        }
        r.err_return = refused == self.subs(i);
        outcomes.sort();
        r.outcome = outcomes.join(",");
        r
    }
    fn case_timeout(&self) -> u64 {
        // thorough: the slowest case (512x512 DXT5 IterativeClusterFit, ~30 s on an idle core) must survive a heavily shared machine
        self.tier.pick(300, 1500)
    }
}

// ------------------------------------------------------------------ chained conversions (thorough)

/// image -> A -> bytes -> parse -> blp_to_image(level L) -> B -> bytes -> parse -> blp_to_image:
/// the second conversion starts from a state reached by the first one (decoded level 0, 1 or 2 of A),
/// and is judged by the same oracles with the decoded pixels as its source.
struct Chain {
    tier: Tier,
    dims: Vec<(u32, u32)>,
    stage1: Vec<Tgt>,
    stage2: Vec<Tgt>,
    scratch: Scratch,
}

const CHAIN_CLASSES: [usize; 2] = [2, 3];
const CHAIN_LEVELS: [usize; 3] = [0, 1, 2];
const CHAIN_DIMS: &str = "{1..20}^2 + {31,32,33,64,65}^2 + 100x60, 256x64, 64x256, 128x128, 255x257";

fn chain_dims() -> Vec<(u32, u32)> {
    let mut v = vec![];
    for w in 1..=20u32 {
        for h in 1..=20u32 {
            v.push((w, h));
        }
    }
    for w in [31u32, 32, 33, 64, 65] {
        for h in [31u32, 32, 33, 64, 65] {
            v.push((w, h));
        }
    }
    v.extend([(100, 60), (256, 64), (64, 256), (128, 128), (255, 257)]);
    v.sort_by_key(|&(w, h)| (w.max(h), w * h, w));
    v.dedup();
    v
}

/// first-stage targets: every decode path of blp_to_image (raw3; raw1 at each alpha depth incl. the RGB-only
/// output of depth 0; each DXT flavour; JPEG) and every container version
fn chain_stage1() -> Vec<Tgt> {
    let t = |ver, fmt| Tgt { ver, fmt, alg: 0 };
    vec![
        t(2, Fmt::Raw3),
        t(2, Fmt::Raw1(0)),
        t(2, Fmt::Raw1(1)),
        t(2, Fmt::Raw1(4)),
        t(2, Fmt::Raw1(8)),
        t(1, Fmt::Raw1(4)),
        t(0, Fmt::Raw1(1)),
        t(2, Fmt::Dxt1(false)),
        t(2, Fmt::Dxt1(true)),
        t(2, Fmt::Dxt3(true)),
        t(2, Fmt::Dxt5(true)),
        t(2, Fmt::Jpeg(false)),
        t(1, Fmt::Jpeg(true)),
        t(0, Fmt::Jpeg(true)),
    ]
}

impl Chain {
    fn new(tier: Tier) -> Chain {
        let stage2: Vec<Tgt> = targets(tier).into_iter().take(BASE_TARGETS).collect();
        Chain { tier, dims: chain_dims(), stage1: chain_stage1(), stage2, scratch: Scratch::new("c16chain") }
    }
    fn case(&self, i: u64) -> (Tgt, (u32, u32)) {
        let d = gen::mixed_radix(i, &[self.stage1.len() as u64, self.dims.len() as u64]);
        (self.stage1[d[0] as usize], self.dims[d[1] as usize])
    }
    fn mip_settings() -> [(bool, (&'static str, FilterType)); 3] {
        [(false, ("Nearest", FilterType::Nearest)), (true, ("Nearest", FilterType::Nearest)), (true, ("Triangle", FilterType::Triangle))]
    }
}

impl Space for Chain {
    fn len(&self) -> u64 {
        (self.stage1.len() * self.dims.len()) as u64
    }
    fn describe(&self, i: u64) -> Value {
        let (a, (w, h)) = self.case(i);
        json!({
            "chain": "image -> stage1 -> decode level -> every target",
            "stage1_version": a.ver_name(), "stage1_format": a.fmt_name(),
            "w": w, "h": h,
            "shape": if w == h { "square" } else { "nonsquare" },
            "pow2": w.is_power_of_two() && h.is_power_of_two(),
        })
    }
    fn run(&self, i: u64) -> CaseResult {
        let mut r = CaseResult::new();
        r.key = self.describe(i).to_string();
        let (a, (w, h)) = self.case(i);
        let mut outcomes: Vec<String> = vec![];
        let mut uniq = 0u64;
        for class in CHAIN_CLASSES {
            let (img, _) = make_image(w, h, class);
            // ---- stage 1 (its own correctness is judged in space `main`; here it only has to deliver a state)
            let stage1 = guarded(|| -> Result<BlpImage, String> {
                let t = image_to_blp(img.clone(), true, a.to_target(), FilterType::Triangle).map_err(|e| format!("convert: {e}"))?;
                if a.ver == 0 {
                    let e = encode_blp0(&t).map_err(|e| format!("encode: {e}"))?;
                    let ext = &e.blp_mipmaps;
                    parse_blp_with_externals(&e.blp_bytes, move |i| Ok(ext.get(i).map(|v| v.as_slice()))).map_err(|e| format!("parse: {e}"))
                } else {
                    parse_blp(&encode_blp(&t).map_err(|e| format!("encode: {e}"))?).map_err(|e| format!("parse: {e}"))
                }
            });
            let p1 = match stage1 {
                Ok(Ok(p)) => p,
                _ => {
                    r.count("stage1_unavailable", 1);
                    continue;
                }
            };
            for level in CHAIN_LEVELS {
                if level >= p1.image_count() {
                    continue;
                }
                let dec = match guarded(|| blp_to_image(&p1, level)) {
                    Ok(Ok(d)) => d,
                    _ => {
                        r.count("stage1_level_undecodable", 1);
                        continue;
                    }
                };
                r.count("stage1_states_reached", 1);
                let src2 = rgba_of(&dec);
                let (w2, h2) = (dec.width(), dec.height());
                let label = format!("decoded_level{level}_of_{}_{}_from_{}", a.ver_name(), a.fmt_name(), PIXEL_CLASSES_DEEP[class]);
                for &b in &self.stage2 {
                    for (mip, filter) in Chain::mip_settings() {
                        let c = Case { w: w2, h: h2, class, tgt: b, mip, filter };
                        let mut s = CaseResult::new();
                        let mut via: Option<BlpImage> = None;
                        uniq += 1;
                        guard_case(&mut s, "chained sub-evaluation", |s| via = judge_img(self.tier, &self.scratch, uniq, &c, &label, dec.clone(), &src2, s));
                        r.count("sub_evaluations", 1);
                        if s.nontrivial {
                            r.nontrivial = true;
                        }
                        if s.err_return {
                            r.count("stage2_refusals", 1);
                        }
                        for (k, n) in s.counters {
                            r.count(&k, n);
                        }
                        for v in s.viols {
                            if !r.viols.iter().any(|x| x.symptom == v.symptom) {
                                r.viols.push(v);
                            } else {
                                r.count("further_occurrences_of_reported_symptoms", 1);
                            }
                        }
                        let o = format!("{}>{}", a.class(), s.outcome);
                        if !outcomes.contains(&o) {
                            outcomes.push(o);
                        }
                        // A -> raw3 -> X versus A -> X (informational: equality additionally needs a deterministic converter,
                        // which the property does not state, so a difference is counted and not reported)
                        if a.fmt == Fmt::Raw3 && level == 0 {
                            if let (Some(via), Ok(Ok(direct))) = (via.as_ref(), guarded(|| image_to_blp(img.clone(), mip, b.to_target(), filter.1))) {
                                r.count(if *via == direct { "image_via_raw3_to_X_equals_image_to_X" } else { "image_via_raw3_to_X_differs_from_image_to_X" }, 1);
                            }
                        }
                    }
                }
            }
        }
        outcomes.sort();
        r.outcome = outcomes.join(",");
        r
    }
    fn case_timeout(&self) -> u64 {
        // thorough: the slowest case (512x512 DXT5 IterativeClusterFit, ~30 s on an idle core) must survive a heavily shared machine
        self.tier.pick(300, 1500)
    }
}

fn build(name: &str, _arg: &str, tier: Tier) -> Box<dyn Space> {
    match name {
        "main" => Box::new(Main::new(tier)),
        "chain" => Box::new(Chain::new(tier)),
        _ => panic!("space {name}"),
    }
}

/// `c16 --repro`: stand-alone demonstrations of the defects on minimal inputs, real API only.
fn repro() {
    install_panic_hook();
    let img = |w: u32, h: u32| DynamicImage::ImageRgba8(RgbaImage::from_fn(w, h, |x, y| image::Rgba([(x * 40) as u8, (y * 90) as u8, 7, 255])));
    println!("== R1 convert/mipmap.rs generate_mipmaps: chain of a non-square image never reaches 1x1");
    for (w, h) in [(4, 2), (8, 2), (256, 64), (1, 512)] {
        let t = image_to_blp(img(w, h), true, BlpTarget::Blp2(Blp2Format::Raw3), FilterType::Nearest).unwrap();
        let n = t.image_count();
        println!("   {w}x{h} raw3 mipmaps=on: image_count()={n}, last level {:?}; header.mipmaps_count()+1={} ", t.header.mipmap_size(n - 1), t.header.mipmaps_count() + 1);
    }
    println!("== R2 parser/direct/blp2.rs parse_dxtn: blocks = ceil(w*h/16) instead of ceil(w/4)*ceil(h/4)");
    for (w, h) in [(5, 5), (8, 2), (1, 5), (6, 6)] {
        let t = image_to_blp(img(w, h), false, BlpTarget::Blp2(Blp2Format::Dxt1 { has_alpha: false, compress_algorithm: DxtAlgorithm::RangeFit }), FilterType::Nearest).unwrap();
        let b = encode_blp(&t).unwrap();
        let p = parse_blp(&b).unwrap();
        println!("   {w}x{h} dxt1 mipmaps=off: written level 0 = {} bytes, parsed level 0 = {} bytes, parse(encode(t))==t: {}", level_len(&t, 0), level_len(&p, 0), p == t);
    }
    println!("== R3 parse_dxtn / parse_jpeg_content read mipmaps_count()+1 table entries even when size==0");
    for tgt in [BlpTarget::Blp2(Blp2Format::Dxt1 { has_alpha: false, compress_algorithm: DxtAlgorithm::RangeFit }), BlpTarget::Blp1(BlpOldFormat::Jpeg { has_alpha: false })] {
        let name = format!("{tgt}");
        let t = image_to_blp(img(4, 2), true, tgt, FilterType::Nearest).unwrap();
        let p = parse_blp(&encode_blp(&t).unwrap()).unwrap();
        println!("   4x2 {name} mipmaps=on: written {} levels, parsed {} levels (sizes of parsed: {:?}), equal: {}", t.image_count(), p.image_count(), (0..p.image_count()).map(|i| level_len(&p, i)).collect::<Vec<_>>(), p == t);
    }
    println!("== R4 BLP0: parser wants mipmaps_count()+1 external files, encode_blp0 produced fewer");
    let t = image_to_blp(img(4, 2), true, BlpTarget::Blp0(BlpOldFormat::Raw1 { alpha_bits: AlphaBits::Bit8 }), FilterType::Nearest).unwrap();
    let e = encode_blp0(&t).unwrap();
    let ext = &e.blp_mipmaps;
    let res = parse_blp_with_externals(&e.blp_bytes, move |i| Ok(ext.get(i).map(|v| v.as_slice())));
    println!("   4x2 BLP0 raw1 mipmaps=on: {} external buffers; parse: {}", e.blp_mipmaps.len(), match res { Ok(_) => "Ok".to_string(), Err(e) => format!("Err({e})") });
    println!("== N1 (third party, not a wow-blp defect): zune-jpeg 0.4.20 mcu.rs computes (width+7)/8 in u16; a JPEG level with a side > 65528 cannot be decoded");
    {
        let t = image_to_blp(img(65535, 1), false, BlpTarget::Blp2(Blp2Format::Jpeg { has_alpha: false }), FilterType::Nearest).unwrap();
        let p = parse_blp(&encode_blp(&t).unwrap()).unwrap();
        let res = guarded(|| blp_to_image(&p, 0).map(|i| (i.width(), i.height())).map_err(|e| e.to_string()));
        println!("   65535x1 BLP2 jpeg: parse(encode(t))==t: {}; blp_to_image(level 0): {:?}", p == t, res);
    }
    println!("== control: square 4x4 with mipmaps round-trips in every target");
    let t = image_to_blp(img(4, 4), true, BlpTarget::Blp2(Blp2Format::Dxt5 { has_alpha: true, compress_algorithm: DxtAlgorithm::RangeFit }), FilterType::Nearest).unwrap();
    println!("   4x4 dxt5 mipmaps=on: levels {} equal {}", t.image_count(), parse_blp(&encode_blp(&t).unwrap()).unwrap() == t);
}

fn main() {
    if std::env::args().any(|a| a == "--repro") {
        repro();
        return;
    }
    // texpresso is built with its rayon feature; the engine already runs one worker per core
    std::env::set_var("RAYON_NUM_THREADS", "1");
    let Mode::Supervisor(mut c) = start("C16", "exploration", build) else { return };
    let tier = c.tier;
    let (d, t, f) = (dims(tier), targets(tier), filters(tier));
    let cases = case_list(tier, &t, &d);
    let classes = class_names(tier);
    c.rule = match tier {
        Tier::Quick => format!(
            "full product: {} image sizes ({}) x {} pixel classes x {} targets (BLP2: raw3, raw1 a0/1/4/8, dxt1/3/5 +-alpha, jpeg +-alpha; BLP1 and BLP0: raw1 a0/1/4/8, jpeg +-alpha; DXT with RangeFit) x (mipmaps off | mipmaps on x {} filters). \
             One case = image_to_blp -> encode_blp/encode_blp0 -> parse_blp/parse_blp_with_externals (+ save_blp/load_blp for BLP0) -> blp_to_image, judged by PartialEq on BlpImage and by an independent byte-level walker. \
             One engine case = (target, image size); its inner loop runs every pixel class x mipmap setting (counter sub_evaluations), reporting each symptom class once per case. \
             A case is non-trivial when the converter accepted at least one image (bytes were produced); distinct by (target, size).",
            d.len(),
            DIMS_QUICK,
            classes.len(),
            t.len(),
            f.len()
        ),
        Tier::Thorough => format!(
            "space main = {} engine cases (target, image size): [25 RangeFit/non-DXT targets (BLP2: raw3, raw1 a0/1/4/8, dxt1/3/5 +-alpha, jpeg +-alpha; BLP1 and BLP0: raw1 a0/1/4/8, jpeg +-alpha) x all {} image sizes] \
             + [dxt1/3/5+alpha ClusterFit and dxt5+alpha IterativeClusterFit x (the {} sizes of the first thorough tier and every size with sides <= 48)] \
             + [the other 8 of the product {{dxt1,dxt3,dxt5}} x {{-alpha,+alpha}} x {{ClusterFit,IterativeClusterFit}} x every size with sides <= 33]. \
             Image sizes: {}. Inner loop of a case (counter sub_evaluations) = full product of pixel classes x (mipmaps off | mipmaps on x {} filters: {}); \
             the 25 base targets run all {} pixel classes ({}), the 12 ClusterFit/Iterative targets the first {}. \
             One sub-evaluation = image_to_blp -> encode_blp/encode_blp0 -> parse_blp/parse_blp_with_externals -> save_blp/load_blp (every version; BLP0 with its .bNN side files) -> load_blp_from_buf (BLP1/2) -> blp_to_image of every level, \
             judged by PartialEq on BlpImage and by an independent byte-level walker/decoder; with the Nearest filter every pixel (raw3) / stored alpha value (raw1) of a lower level must occur in level 0. \
             Sizes with a side of 65536 must be refused by the converter (Err) and count as error returns. \
             space chain = {} engine cases (first-stage target A, image size): {} first-stage targets (every blp_to_image decode path and container version) x {} sizes ({}); inner loop = 2 pixel classes x decoded level L in {{0,1,2}} of parse(encode(image_to_blp(image, mipmaps on, A, Triangle))) \
             x 25 second-stage targets B x (mipmaps off | Nearest | Triangle): the decoded level is converted to B and the whole main-space judgement is applied with the decoded pixels as source \
             (A->B->A for B=A, lossy->lossless, lossless->lossy, paletted RGB-only output as input); image->raw3->X vs image->X is counted, not judged. \
             Each symptom class is reported once per engine case. A case is non-trivial when the converter accepted at least one image; distinct by (target, size).",
            cases.len(),
            d.len(),
            dims_legacy_thorough().len(),
            DIMS_THOROUGH,
            f.len(),
            f.iter().map(|x| x.0).collect::<Vec<_>>().join("/"),
            classes.len(),
            classes.join(", "),
            PIXEL_CLASSES.len(),
            chain_stage1().len() * chain_dims().len(),
            chain_stage1().len(),
            chain_dims().len(),
            CHAIN_DIMS,
        ),
    };
    c.assume("the `image` crate (JPEG codec, resize) and `texpresso` are trusted third-party code; lossy encodings (JPEG, DXT) are judged on structure and dimensions only");
    c.assume("reference walker/decoder /verif/harness/props/c16/src/refblp.rs is written from /repo/docs/src/formats/graphics/blp.md and reads file bytes only");
    c.assume("alpha quantisation: 8 bit exact; 4 bit either round-to-nearest or truncation of the source alpha; 1 bit any monotone threshold with 0->0 and 255->1 (the property fixes the depth, not the rounding rule)");
    c.assume("palette byte order (R,G,B,x vs B,G,R,x) is not fixed by the property; either is accepted if used consistently (observed order is reported in the counters)");
    c.assume("pixel preservation is judged on level 0 (the source image); lower levels are judged on dimensions, sizes and library-vs-reference decode agreement");
    if tier == Tier::Thorough {
        c.assume("for inputs that are not 8-bit RGB(A) (LumaA8, Rgba16, Rgb32F) the source pixels of the property are the 8-bit RGBA view computed by the `image` crate (DynamicImage::to_rgba8)");
        c.assume("FilterType::Nearest of the `image` crate copies one source pixel per output pixel (no blending); used only for the lower-level subset oracle");
        c.assume("zune-jpeg 0.4.20 (JPEG decoder of the trusted `image` crate) overflows u16 in (side+7)/8 for sides above 65528: JPEG levels that large (only the 65535-wide/high strips) are judged on structure, offsets and sizes but are not decoded");
        c.assume("chained conversions: the decoded image returned by blp_to_image is the source of the second conversion; failures of the first stage itself are judged in space main, not in space chain");
    }
    c.run_space("main", "");
    if tier == Tier::Thorough {
        c.run_space("chain", "");
    }
    let mut axes = json!({"image_sizes": d.len(), "pixel_classes": classes.len(), "targets": t.len(), "mip_filter_settings": 1 + f.len(),
               "nonsquare_sizes": d.iter().filter(|(w, h)| w != h).count(), "non_pow2_sizes": d.iter().filter(|(w, h)| !(w.is_power_of_two() && h.is_power_of_two())).count()});
    if tier == Tier::Thorough {
        let m = axes.as_object_mut().unwrap();
        m.insert("main_engine_cases".into(), json!(cases.len()));
        m.insert("base_targets_on_every_size".into(), json!(BASE_TARGETS));
        m.insert("clusterfit_iterative_targets".into(), json!(t.len() - BASE_TARGETS));
        m.insert("pixel_classes_for_clusterfit_iterative_targets".into(), json!(PIXEL_CLASSES.len()));
        m.insert("sizes_with_a_side_over_512".into(), json!(d.iter().filter(|(w, h)| *w.max(h) > 512).count()));
        m.insert("sizes_that_must_be_refused".into(), json!(REFUSED.len()));
        m.insert("chain_stage1_targets".into(), json!(chain_stage1().len()));
        m.insert("chain_sizes".into(), json!(chain_dims().len()));
        m.insert("chain_source_classes".into(), json!(CHAIN_CLASSES.len()));
        m.insert("chain_decoded_levels".into(), json!(CHAIN_LEVELS.len()));
        m.insert("chain_stage2_targets".into(), json!(BASE_TARGETS));
        m.insert("chain_stage2_mip_settings".into(), json!(3));
    }
    c.extra_cov.insert("axes".into(), axes);
    c.finish();
}
