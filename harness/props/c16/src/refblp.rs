//! Independent byte-level BLP walker / decoder, written from /repo/docs/src/formats/graphics/blp.md
//! (header layouts at "Header Layout", "Additional Data Sections", "Alpha Storage by Format").
//! Shares no code with the wow-blp crate: it reads the *file bytes* only.

#[derive(Debug, Clone)]
pub struct RefHeader {
    pub version: u8, // 0,1,2
    pub content: u32,
    /// BLP2 only
    pub compression: Option<u8>,
    pub alpha_bits: u32,
    /// BLP2 only
    pub alpha_type: Option<u8>,
    pub has_mipmaps: u32,
    /// BLP0/1 only
    pub extra: Option<u32>,
    pub width: u32,
    pub height: u32,
    /// BLP1/2 only
    pub table: Option<([u32; 16], [u32; 16])>,
    pub header_len: usize,
}

fn u32_at(b: &[u8], o: usize) -> Result<u32, String> {
    if o + 4 > b.len() {
        return Err(format!("file too short for u32 at {o:#x} (len {})", b.len()));
    }
    Ok(u32::from_le_bytes([b[o], b[o + 1], b[o + 2], b[o + 3]]))
}

pub fn parse_header(b: &[u8]) -> Result<RefHeader, String> {
    if b.len() < 4 {
        return Err("file shorter than magic".into());
    }
    let version = match &b[0..4] {
        b"BLP0" => 0u8,
        b"BLP1" => 1,
        b"BLP2" => 2,
        m => return Err(format!("magic {:?}", m)),
    };
    let content = u32_at(b, 4)?;
    let (compression, alpha_bits, alpha_type, mut has_mipmaps);
    if version == 2 {
        if b.len() < 12 {
            return Err("file too short for BLP2 flags".into());
        }
        compression = Some(b[8]);
        alpha_bits = b[9] as u32;
        alpha_type = Some(b[10]);
        has_mipmaps = b[11] as u32;
    } else {
        compression = None;
        alpha_bits = u32_at(b, 8)?;
        alpha_type = None;
        has_mipmaps = 0;
    }
    let width = u32_at(b, 0x0C)?;
    let height = u32_at(b, 0x10)?;
    let mut pos = 0x14;
    let mut extra = None;
    if version < 2 {
        extra = Some(u32_at(b, 0x14)?);
        has_mipmaps = u32_at(b, 0x18)?;
        pos = 0x1C;
    }
    let mut table = None;
    if version >= 1 {
        let mut offs = [0u32; 16];
        let mut sizes = [0u32; 16];
        for i in 0..16 {
            offs[i] = u32_at(b, pos + 4 * i)?;
        }
        for i in 0..16 {
            sizes[i] = u32_at(b, pos + 64 + 4 * i)?;
        }
        table = Some((offs, sizes));
        pos += 128;
    }
    Ok(RefHeader { version, content, compression, alpha_bits, alpha_type, has_mipmaps, extra, width, height, table, header_len: pos })
}

/// For JPEG content: (jpeg header bytes without the 2 uncounted trailing bytes, offset of first byte after the header area)
pub fn jpeg_header(b: &[u8], h: &RefHeader) -> Result<(Vec<u8>, usize), String> {
    let stored = u32_at(b, h.header_len)? as usize;
    let start = h.header_len + 4;
    // docs: stored length = actual length - 2
    if start + stored + 2 > b.len() {
        return Err(format!("jpeg header area {}+2 bytes at {start:#x} exceeds file len {}", stored, b.len()));
    }
    Ok((b[start..start + stored].to_vec(), start + stored + 2))
}

/// For direct content: 256 palette entries as raw 4-byte groups, and the offset after the palette
pub fn palette(b: &[u8], h: &RefHeader) -> Result<(Vec<[u8; 4]>, usize), String> {
    let start = h.header_len;
    if start + 1024 > b.len() {
        return Err(format!("palette at {start:#x} exceeds file len {}", b.len()));
    }
    let p = (0..256).map(|i| [b[start + 4 * i], b[start + 4 * i + 1], b[start + 4 * i + 2], b[start + 4 * i + 3]]).collect();
    Ok((p, start + 1024))
}

pub fn ilog2_floor(mut v: u32) -> u32 {
    let mut n = 0;
    while v > 1 {
        v >>= 1;
        n += 1;
    }
    n
}

/// number of levels of a complete chain that halves down to 1x1
pub fn full_chain_levels(w: u32, h: u32) -> usize {
    ilog2_floor(w.max(h)) as usize + 1
}

pub fn level_dims(w: u32, h: u32, i: usize) -> (u32, u32) {
    ((w >> i).max(1), (h >> i).max(1))
}

#[derive(Clone, Copy, Debug, PartialEq, Eq)]
pub enum Kind {
    Raw1(u32),
    Raw3,
    Dxt(usize), // block bytes
    Jpeg,
}

/// byte size of one level of the given dimensions (None for JPEG: data dependent)
pub fn level_bytes(kind: Kind, w: u32, h: u32) -> Option<usize> {
    let n = w as usize * h as usize;
    match kind {
        Kind::Raw1(bits) => Some(n + (n * bits as usize + 7) / 8),
        Kind::Raw3 => Some(4 * n),
        Kind::Dxt(block) => Some(((w as usize + 3) / 4) * ((h as usize + 3) / 4) * block),
        Kind::Jpeg => None,
    }
}

/// Decode a RAW3 level: 4 bytes per pixel, B,G,R,A  ->  RGBA
pub fn decode_raw3(level: &[u8], w: u32, h: u32) -> Result<Vec<[u8; 4]>, String> {
    let n = w as usize * h as usize;
    if level.len() < 4 * n {
        return Err(format!("raw3 level has {} bytes, {} pixels need {}", level.len(), n, 4 * n));
    }
    Ok((0..n).map(|i| [level[4 * i + 2], level[4 * i + 1], level[4 * i], level[4 * i + 3]]).collect())
}

/// Decode a RAW1 level. Returns per pixel (palette index, alpha) where alpha is expanded to 8 bits:
/// 1 bit -> 0/255, 4 bit -> nibble*17, 8 bit -> as is, 0 bit -> 255.
/// Packing: pixel order, least significant bits first.
pub fn decode_raw1(level: &[u8], w: u32, h: u32, bits: u32) -> Result<Vec<(u8, u8)>, String> {
    let n = w as usize * h as usize;
    let an = (n * bits as usize + 7) / 8;
    if level.len() < n + an {
        return Err(format!("raw1 level has {} bytes, {} pixels at {} alpha bits need {}", level.len(), n, bits, n + an));
    }
    let a = &level[n..n + an];
    let mut out = Vec::with_capacity(n);
    for i in 0..n {
        let alpha = match bits {
            0 => 255,
            1 => {
                if (a[i / 8] >> (i % 8)) & 1 == 1 {
                    255
                } else {
                    0
                }
            }
            4 => {
                let nib = if i % 2 == 0 { a[i / 2] & 0x0F } else { a[i / 2] >> 4 };
                nib * 17
            }
            8 => a[i],
            _ => return Err(format!("alpha bits {bits}")),
        };
        out.push((level[i], alpha));
    }
    Ok(out)
}
