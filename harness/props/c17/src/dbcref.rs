//! Independent DBC emitter and reader.
//!
//! Written from the format description in /repo/docs/src/formats/database/dbc.md
//! ("File Structure": 20-byte header = magic "WDBC", record_count, field_count, record_size,
//! string_block_size, all little-endian u32; then record_count * record_size bytes of
//! fixed-size records; then the string block of NUL-terminated UTF-8 strings referenced by
//! byte offset, whose first byte is the empty string).  Shares no code with wow-cdbc.
//! Cells narrower than 32 bits (the crate's 8/16-bit field types) are laid out packed, in
//! field order, little-endian; an array field is its elements in order.
//!
//! The WDB2 header variants follow the layout stated in the doc comment of
//! `Wdb2Header` / wowdev.wiki DB2: 28 bytes up to build 12880, 48 bytes afterwards, followed
//! (when max_id != 0) by an u32 index array and an u16 string-length array of
//! max_id - min_id + 1 entries each, then records and string block as in WDBC.

use crate::model::*;
use std::collections::BTreeMap;

#[derive(Clone, Copy, PartialEq, Eq, Debug)]
pub enum HeaderKind {
    Wdbc,
    Wdb2Basic,
    Wdb2Ext,
    Wdb2ExtIndex,
    // ---- thorough tier only
    /// build == 12880: the last build with the 28-byte header
    Wdb2BasicAtThreshold,
    /// build == 12881: the first build with the 48-byte header
    Wdb2ExtAboveThreshold,
    /// index arrays of a single entry (min_id == max_id)
    Wdb2ExtIndexOne,
    /// index arrays of 256 entries (1536 bytes between header and records)
    Wdb2ExtIndexMany,
    /// 48-byte WDB5 header (wowdev.wiki DB2/WDB5) directly followed by the records, which is where the
    /// crate's eager parser looks for them (`Wdb5Header::SIZE`); no field-structure block is emitted
    Wdb5,
}
impl HeaderKind {
    pub fn name(self) -> &'static str {
        match self {
            HeaderKind::Wdbc => "WDBC",
            HeaderKind::Wdb2Basic => "WDB2 basic header",
            HeaderKind::Wdb2Ext => "WDB2 extended header",
            HeaderKind::Wdb2ExtIndex => "WDB2 extended header with index arrays",
            HeaderKind::Wdb2BasicAtThreshold => "WDB2 basic header at the build threshold",
            HeaderKind::Wdb2ExtAboveThreshold => "WDB2 extended header just above the build threshold",
            HeaderKind::Wdb2ExtIndexOne => "WDB2 extended header with one-entry index arrays",
            HeaderKind::Wdb2ExtIndexMany => "WDB2 extended header with 256-entry index arrays",
            HeaderKind::Wdb5 => "WDB5 header",
        }
    }
}

#[derive(Clone, Copy, PartialEq, Eq, Debug)]
pub enum Layout {
    /// every distinct string once, in lexicographic order, after the leading empty string
    Pooled,
    /// one private copy per cell in cell order (duplicates and empties are repeated);
    /// a table without string cells gets a zero-length block
    PerCell,
    // ---- thorough tier only
    /// longest strings first; a string that is a byte suffix of a stored string is not stored
    /// but referenced inside the longer one; the empty string is referenced at the terminator
    /// of the last stored string (block still starts with the empty string)
    SuffixShared,
    /// every distinct string once in reverse lexicographic order, with unreferenced filler
    /// strings before, between and after them
    Scattered,
}
impl Layout {
    pub fn name(self) -> &'static str {
        match self {
            Layout::Pooled => "pooled-sorted",
            Layout::PerCell => "copy-per-cell",
            Layout::SuffixShared => "suffix-shared",
            Layout::Scattered => "scattered-with-filler",
        }
    }
}

pub struct Emitted {
    pub bytes: Vec<u8>,
    pub header_len: usize,
}

fn put32(v: &mut Vec<u8>, x: u32) {
    v.extend_from_slice(&x.to_le_bytes());
}

fn collect_strings<'a>(c: &'a Cell, out: &mut Vec<&'a str>) {
    match c {
        Cell::Str(s) => out.push(s),
        Cell::Arr(v) => v.iter().for_each(|x| collect_strings(x, out)),
        _ => {}
    }
}

struct Strings {
    block: Vec<u8>,
    pooled: BTreeMap<String, u32>,
    layout: Layout,
}
impl Strings {
    fn offset(&mut self, s: &str) -> u32 {
        match self.layout {
            Layout::Pooled | Layout::SuffixShared | Layout::Scattered => self.pooled[s],
            Layout::PerCell => {
                let o = self.block.len() as u32;
                self.block.extend_from_slice(s.as_bytes());
                self.block.push(0);
                o
            }
        }
    }
}

fn put_cell(rec: &mut Vec<u8>, c: &Cell, st: &mut Strings) {
    match c {
        Cell::U32(x) => put32(rec, *x),
        Cell::I32(x) => put32(rec, *x as u32),
        Cell::F32(bits) => put32(rec, *bits),
        Cell::Str(s) => {
            let o = st.offset(s);
            put32(rec, o)
        }
        Cell::Ref(o) => put32(rec, *o),
        Cell::Bool(b) => put32(rec, *b as u32),
        Cell::U8(x) => rec.push(*x),
        Cell::I8(x) => rec.push(*x as u8),
        Cell::U16(x) => rec.extend_from_slice(&x.to_le_bytes()),
        Cell::I16(x) => rec.extend_from_slice(&x.to_le_bytes()),
        Cell::Arr(v) => v.iter().for_each(|x| put_cell(rec, x, st)),
    }
}

pub fn emit(fields: &[Kind], table: &Table, layout: Layout, hk: HeaderKind) -> Emitted {
    let record_size: usize = fields.iter().map(|k| k.size()).sum();
    let elements: usize = fields.iter().map(|k| k.elements()).sum();
    let mut all = vec![];
    for r in table {
        for c in r {
            collect_strings(c, &mut all);
        }
    }
    let mut st = Strings { block: vec![], pooled: BTreeMap::new(), layout };
    match layout {
        Layout::Pooled => {
            st.block.push(0);
            st.pooled.insert(String::new(), 0);
            let mut sorted: Vec<&str> = all.clone();
            sorted.sort();
            sorted.dedup();
            for s in sorted {
                if s.is_empty() {
                    continue;
                }
                st.pooled.insert(s.to_string(), st.block.len() as u32);
                st.block.extend_from_slice(s.as_bytes());
                st.block.push(0);
            }
        }
        Layout::PerCell => {
            if !all.is_empty() {
                st.block.push(0);
            }
        }
        Layout::SuffixShared => {
            st.block.push(0);
            let mut uniq: Vec<&str> = all.clone();
            uniq.sort();
            uniq.dedup();
            // longest first (ties in lexicographic order): a suffix is always placed after its host
            uniq.sort_by(|a, b| b.len().cmp(&a.len()).then(a.cmp(b)));
            let mut stored: Vec<(&str, u32)> = vec![];
            for s in uniq {
                if s.is_empty() {
                    continue;
                }
                let host = stored.iter().find(|(t, _)| t.as_bytes().ends_with(s.as_bytes()));
                match host {
                    Some((t, o)) => {
                        st.pooled.insert(s.to_string(), o + (t.len() - s.len()) as u32);
                    }
                    None => {
                        let o = st.block.len() as u32;
                        st.pooled.insert(s.to_string(), o);
                        stored.push((s, o));
                        st.block.extend_from_slice(s.as_bytes());
                        st.block.push(0);
                    }
                }
            }
            // "" = the last terminator of the block (offset 0 when nothing else is stored)
            st.pooled.insert(String::new(), st.block.len() as u32 - 1);
        }
        Layout::Scattered => {
            st.block.push(0);
            st.pooled.insert(String::new(), 0);
            let mut uniq: Vec<&str> = all.clone();
            uniq.sort();
            uniq.dedup();
            uniq.reverse();
            st.block.extend_from_slice("~filler-first\0".as_bytes());
            for (i, s) in uniq.into_iter().enumerate() {
                if s.is_empty() {
                    continue;
                }
                st.pooled.insert(s.to_string(), st.block.len() as u32);
                st.block.extend_from_slice(s.as_bytes());
                st.block.push(0);
                if i % 2 == 0 {
                    st.block.extend_from_slice("~f\u{fc}ller\0".as_bytes());
                }
            }
            st.block.extend_from_slice("~filler-last\0".as_bytes());
        }
    }
    let mut recs = Vec::with_capacity(record_size * table.len());
    for r in table {
        let before = recs.len();
        for c in r {
            put_cell(&mut recs, c, &mut st);
        }
        assert_eq!(recs.len() - before, record_size, "emitter: table does not fit the field list");
    }
    let mut out = vec![];
    let n = table.len() as u32;
    match hk {
        HeaderKind::Wdbc => out.extend_from_slice(b"WDBC"),
        HeaderKind::Wdb5 => out.extend_from_slice(b"WDB5"),
        _ => out.extend_from_slice(b"WDB2"),
    }
    put32(&mut out, n);
    put32(&mut out, elements as u32);
    put32(&mut out, record_size as u32);
    put32(&mut out, st.block.len() as u32);
    match hk {
        HeaderKind::Wdbc => {}
        HeaderKind::Wdb2Basic | HeaderKind::Wdb2BasicAtThreshold => {
            put32(&mut out, 0x1234_5678); // table hash
            put32(&mut out, if hk == HeaderKind::Wdb2Basic { 12_000 } else { 12_880 }); // build <= 12880: 28-byte header
            put32(&mut out, 0x4D00_0000); // timestamp
        }
        HeaderKind::Wdb5 => {
            put32(&mut out, 0x1234_5678); // table hash
            put32(&mut out, 0x9ABC_DEF0); // layout hash
            put32(&mut out, 1); // min id
            put32(&mut out, 0x7FFF); // max id
            put32(&mut out, 0xFFFF_FFFF); // locale
            put32(&mut out, 0); // copy table size
            out.extend_from_slice(&0u16.to_le_bytes()); // flags
            out.extend_from_slice(&0u16.to_le_bytes()); // id index
        }
        HeaderKind::Wdb2Ext | HeaderKind::Wdb2ExtIndex | HeaderKind::Wdb2ExtAboveThreshold | HeaderKind::Wdb2ExtIndexOne | HeaderKind::Wdb2ExtIndexMany => {
            put32(&mut out, 0x1234_5678);
            put32(&mut out, if hk == HeaderKind::Wdb2ExtAboveThreshold { 12_881 } else { 15_595 });
            put32(&mut out, 0x4D00_0000);
            let (min_id, max_id) = match hk {
                HeaderKind::Wdb2ExtIndex => (1u32, 3u32),
                HeaderKind::Wdb2ExtIndexOne => (7, 7),
                HeaderKind::Wdb2ExtIndexMany => (5, 260),
                _ => (0, 0),
            };
            put32(&mut out, min_id);
            put32(&mut out, max_id);
            put32(&mut out, 0xFFFF_FFFF); // locale
            put32(&mut out, 0); // copy table size
            if max_id != 0 {
                let cnt = max_id - min_id + 1;
                for i in 0..cnt {
                    put32(&mut out, 0xA5A5_0000 | i); // index array (recognisable garbage if read as records)
                }
                for i in 0..cnt {
                    out.extend_from_slice(&(0xEE00u16 | i as u16).to_le_bytes());
                }
            }
        }
    }
    let header_len = out.len();
    out.extend_from_slice(&recs);
    out.extend_from_slice(&st.block);
    Emitted { bytes: out, header_len }
}

// ------------------------------------------------------------------ reader

pub struct Parsed<'a> {
    pub record_count: u32,
    pub field_count: u32,
    pub record_size: u32,
    pub records: &'a [u8],
    pub strings: &'a [u8],
}

pub enum ReadErr {
    Short,
    Magic,
    Length { expected: u64, actual: u64 },
}

fn get32(b: &[u8], o: usize) -> u32 {
    u32::from_le_bytes([b[o], b[o + 1], b[o + 2], b[o + 3]])
}

/// Parse a WDBC file; the file length must be exactly header + n * record_size + string block.
pub fn read(b: &[u8]) -> Result<Parsed<'_>, ReadErr> {
    if b.len() < 20 {
        return Err(ReadErr::Short);
    }
    if &b[0..4] != b"WDBC" {
        return Err(ReadErr::Magic);
    }
    let (n, fc, rs, sb) = (get32(b, 4), get32(b, 8), get32(b, 12), get32(b, 16));
    let expected = 20u64 + n as u64 * rs as u64 + sb as u64;
    if expected != b.len() as u64 {
        return Err(ReadErr::Length { expected, actual: b.len() as u64 });
    }
    let split = 20 + n as usize * rs as usize;
    Ok(Parsed { record_count: n, field_count: fc, record_size: rs, records: &b[20..split], strings: &b[split..] })
}

fn string_at(block: &[u8], off: u32) -> Result<String, String> {
    let o = off as usize;
    if o >= block.len() {
        return Err(format!("string offset {} outside the block of {} bytes", o, block.len()));
    }
    let end = block[o..].iter().position(|&c| c == 0).ok_or_else(|| format!("string at {} is not terminated", o))?;
    String::from_utf8(block[o..o + end].to_vec()).map_err(|_| format!("string at {} is not UTF-8", o))
}

fn take<'a>(rec: &'a [u8], pos: &mut usize, n: usize) -> Result<&'a [u8], String> {
    if *pos + n > rec.len() {
        return Err("record too short for the field list".into());
    }
    let s = &rec[*pos..*pos + n];
    *pos += n;
    Ok(s)
}

fn get_elem(rec: &[u8], pos: &mut usize, ty: Ty, block: &[u8]) -> Result<Cell, String> {
    Ok(match ty {
        Ty::U32 => Cell::U32(get32(take(rec, pos, 4)?, 0)),
        Ty::I32 => Cell::I32(get32(take(rec, pos, 4)?, 0) as i32),
        Ty::F32 => Cell::F32(get32(take(rec, pos, 4)?, 0)),
        Ty::Str => Cell::Str(string_at(block, get32(take(rec, pos, 4)?, 0))?),
        Ty::Bool => Cell::Bool(get32(take(rec, pos, 4)?, 0) != 0),
        Ty::U8 => Cell::U8(take(rec, pos, 1)?[0]),
        Ty::I8 => Cell::I8(take(rec, pos, 1)?[0] as i8),
        Ty::U16 => {
            let s = take(rec, pos, 2)?;
            Cell::U16(u16::from_le_bytes([s[0], s[1]]))
        }
        Ty::I16 => {
            let s = take(rec, pos, 2)?;
            Cell::I16(i16::from_le_bytes([s[0], s[1]]))
        }
    })
}

/// Decode every record with the field list; strings are resolved to text.
pub fn decode(p: &Parsed<'_>, fields: &[Kind]) -> Result<Table, String> {
    let rs = p.record_size as usize;
    let mut t = vec![];
    for r in 0..p.record_count as usize {
        let rec = &p.records[r * rs..(r + 1) * rs];
        let mut pos = 0;
        let mut row = vec![];
        for k in fields {
            match k.arr {
                None => row.push(get_elem(rec, &mut pos, k.ty, p.strings)?),
                Some(n) => {
                    let mut v = vec![];
                    for _ in 0..n {
                        v.push(get_elem(rec, &mut pos, k.ty, p.strings)?);
                    }
                    row.push(Cell::Arr(v));
                }
            }
        }
        if pos != rs {
            return Err("field list does not fill the record".into());
        }
        t.push(row);
    }
    Ok(t)
}

/// The strings stored in a block (a non-empty block must end with a terminator).
pub fn block_entries(block: &[u8]) -> Result<Vec<&[u8]>, String> {
    if block.is_empty() {
        return Ok(vec![]);
    }
    if *block.last().unwrap() != 0 {
        return Err("string block does not end with a NUL terminator".into());
    }
    Ok(block[..block.len() - 1].split(|&c| c == 0).collect())
}
