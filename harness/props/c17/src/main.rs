//! C17 — DBC tables survive write→parse and all access paths agree.
//!
//! Bounded exhaustive exploration: every schema of up to L fields over 36 field kinds
//! (9 types x {scalar, [1], [2], [3]}), every admissible key position, a fixed family of
//! record sets per schema (counts, key order classes, two string-block layouts).  Each table
//! enters the library as bytes produced by the independent emitter in `dbcref`, is parsed,
//! written by `DbcWriter`, the output is judged by the independent reader, parsed back, and
//! read through the eager, lazy, memory-mapped and parallel (real rayon) paths.
//!
//! The quick tier runs the spaces main (L = 3), extra and versions.  The thorough tier runs main
//! with L = 4 and all four reference string layouts for schemas with String cells, a larger
//! versions space, and the spaces deep / deep4 / five / ladder / tables (see `Treat`,
//! `deep_extras`, `check_raw`, `Tables`); everything specific to it sits behind `Tier::Thorough`
//! so that the quick tier enumerates exactly the cases it always did.
mod dbcref;
mod model;

use dbcref::{HeaderKind, Layout};
use model::*;
use serde_json::{json, Value as J};
use std::collections::{BTreeSet, HashSet};
use std::io::Cursor;
use std::sync::{Arc, OnceLock};
use vcore::*;
use wow_cdbc::{
    DbcParser, DbcWriter, FieldType, LazyDbcParser, MmapDbcFile, Record, RecordSet, Schema, SchemaField, StringRef,
    Value,
};

// ------------------------------------------------------------------ library glue

fn ft(t: Ty) -> FieldType {
    match t {
        Ty::U32 => FieldType::UInt32,
        Ty::I32 => FieldType::Int32,
        Ty::F32 => FieldType::Float32,
        Ty::Str => FieldType::String,
        Ty::Bool => FieldType::Bool,
        Ty::U8 => FieldType::UInt8,
        Ty::I8 => FieldType::Int8,
        Ty::U16 => FieldType::UInt16,
        Ty::I16 => FieldType::Int16,
    }
}

fn lib_schema(s: &Sch) -> Schema {
    let mut sc = Schema::new("T");
    for (i, k) in s.fields.iter().enumerate() {
        let name = format!("f{i}");
        match k.arr {
            None => sc.add_field(SchemaField::new(name, ft(k.ty))),
            Some(n) => sc.add_field(SchemaField::new_array(name, ft(k.ty), n)),
        };
    }
    if let Some(k) = s.key {
        sc.set_key_field_index(k);
    }
    sc
}

fn raw(v: &Value) -> Cell {
    match v {
        Value::Int32(x) => Cell::I32(*x),
        Value::UInt32(x) => Cell::U32(*x),
        Value::Float32(x) => Cell::F32(x.to_bits()),
        Value::StringRef(r) => Cell::Ref(r.offset()),
        Value::Bool(b) => Cell::Bool(*b),
        Value::UInt8(x) => Cell::U8(*x),
        Value::Int8(x) => Cell::I8(*x),
        Value::UInt16(x) => Cell::U16(*x),
        Value::Int16(x) => Cell::I16(*x),
        Value::Array(v) => Cell::Arr(v.iter().map(raw).collect()),
    }
}
fn raw_rec(r: &Record) -> Vec<Cell> {
    r.values().iter().map(raw).collect()
}

fn resolve(c: &Cell, get: &dyn Fn(u32) -> Result<String, String>) -> Result<Cell, String> {
    Ok(match c {
        Cell::Ref(o) => Cell::Str(get(*o)?),
        Cell::Arr(v) => Cell::Arr(v.iter().map(|x| resolve(x, get)).collect::<Result<Vec<_>, _>>()?),
        o => o.clone(),
    })
}

fn short(c: &Cell) -> String {
    let s = format!("{:?}", c);
    if s.len() > 90 {
        let mut cut = 90;
        while !s.is_char_boundary(cut) {
            cut -= 1;
        }
        format!("{}…", &s[..cut])
    } else {
        s
    }
}

// ------------------------------------------------------------------ rayon pools

/// thread classes for the parallel path: 0 = the global pool (4 threads), else a private pool
const THREAD_CLASSES: [usize; 4] = [0, 1, 2, 3];
/// thorough tier, deep treatment: additionally a private pool of 7 threads (more threads than
/// most of the small record counts, so that chunks of one record and idle workers occur)
const THREAD_CLASSES_DEEP: [usize; 5] = [0, 1, 2, 3, 4];
const POOL_SIZES: [usize; 4] = [1, 2, 3, 7];
static POOLS: OnceLock<Vec<rayon::ThreadPool>> = OnceLock::new();
static POOL_COUNT: std::sync::atomic::AtomicUsize = std::sync::atomic::AtomicUsize::new(3);

fn pools() -> &'static Vec<rayon::ThreadPool> {
    POOLS.get_or_init(|| {
        let _ = rayon::ThreadPoolBuilder::new().num_threads(4).build_global();
        let k = POOL_COUNT.load(std::sync::atomic::Ordering::Relaxed);
        POOL_SIZES[..k].iter().map(|&n| rayon::ThreadPoolBuilder::new().num_threads(n).build().expect("rayon pool")).collect()
    })
}

fn in_pool<T: Send>(class: usize, f: impl FnOnce() -> T + Send) -> T {
    let p = pools();
    if class == 0 {
        f()
    } else {
        p[class - 1].install(f)
    }
}

fn thread_class_name(c: usize) -> String {
    if c == 0 {
        "global pool of 4".into()
    } else {
        format!("pool of {}", POOL_SIZES[c - 1])
    }
}

// ------------------------------------------------------------------ per-case context

static T_SEC: [std::sync::atomic::AtomicU64; 6] = [const { std::sync::atomic::AtomicU64::new(0) }; 6];
fn lap(t: &mut std::time::Instant, k: usize) {
    let now = std::time::Instant::now();
    T_SEC[k].fetch_add((now - *t).as_nanos() as u64, std::sync::atomic::Ordering::Relaxed);
    *t = now;
}

struct Cx<'a> {
    r: &'a mut CaseResult,
    seen: HashSet<String>,
    flags: BTreeSet<&'static str>,
    sc: &'a Scratch,
    /// run every rayon thread class on every file (else: a reduced, rotating selection)
    all_classes: bool,
    /// rotation counter for the reduced selection
    rot: usize,
    /// put the field type class into path-comparison symptoms
    typed: bool,
    /// thorough tier, deep treatment of a table: every thread class on every file, access by field
    /// name, writer fed from every record-set state, second write, schema-less access
    deep: bool,
}
impl Cx<'_> {
    /// at most one violation per symptom class and case
    fn viol(&mut self, sym: String, detail: String) {
        if self.seen.insert(sym.clone()) {
            self.r.viol(sym, detail);
        }
    }
}

/// What the records of an access path are compared with.
enum Want<'a> {
    /// an independent table (ground truth of the emitter, or the independent reader's decode of a written file)
    Table(&'a Table, &'a str),
    /// the eager path's result on the same file: raw cells (string offsets included) and, when the
    /// eager references resolved, the resolved texts
    Eager(&'a [Vec<Cell>], Option<&'a Table>),
}

/// Compare the records of one access path (strings resolved through that path's string block).
#[allow(clippy::too_many_arguments)]
fn compare_path(cx: &mut Cx, tag: &str, path: &str, got: &[Vec<Cell>], get: &dyn Fn(u32) -> Result<String, String>, sch: &Sch, want: Want, ctx: &str) {
    cx.r.count("path_comparisons", 1);
    let (want_len, want_name) = match &want {
        Want::Table(t, n) => (t.len(), n.to_string()),
        Want::Eager(e, _) => (e.len(), "eager path".to_string()),
    };
    if got.len() != want_len {
        cx.viol(
            format!("{tag}: {path} returns a different number of records than the {want_name}"),
            format!("{ctx}: got {} records, {want_name} has {}", got.len(), want_len),
        );
        return;
    }
    cx.r.count("cells_compared", (got.len() * sch.fields.len()) as u64);
    for (ri, rec) in got.iter().enumerate() {
        if rec.len() != sch.fields.len() {
            cx.viol(
                format!("{tag}: {path} record has a different number of values than the schema has fields"),
                format!("{ctx}: record {ri} has {} values, schema {} fields", rec.len(), sch.fields.len()),
            );
            return;
        }
        for (fi, c) in rec.iter().enumerate() {
            let kind = sch.fields[fi];
            let ty = if cx.typed { format!(" in a field of type {}", kind.class()) } else { String::new() };
            if let Want::Eager(e, _) = &want {
                if e[ri].get(fi) != Some(c) {
                    cx.viol(
                        format!("{tag}: {path} record differs from the eager record{ty}"),
                        format!("{ctx}: record {ri} field {fi} ({}): {} vs eager {:?}", kind.label(), short(c), e[ri].get(fi).map(short)),
                    );
                    return;
                }
            }
            let expected = match &want {
                Want::Table(t, _) => t[ri].get(fi),
                Want::Eager(_, Some(t)) => t[ri].get(fi),
                Want::Eager(_, None) => continue,
            };
            match resolve(c, get) {
                Err(e) => {
                    cx.viol(
                        format!("{tag}: {path} string reference does not resolve{ty}"),
                        format!("{ctx}: record {ri} field {fi} ({}): {} -> {e}", kind.label(), short(c)),
                    );
                    return;
                }
                Ok(v) => {
                    if Some(&v) != expected {
                        let sym = match &want {
                            Want::Table(..) => format!("{tag}: {path} record differs from the {want_name}{ty}"),
                            Want::Eager(..) => format!("{tag}: {path} resolves a string reference to a different text than the eager path{ty}"),
                        };
                        cx.viol(sym, format!("{ctx}: record {ri} field {fi} ({}): got {} want {:?}", kind.label(), short(&v), expected.map(short)));
                        return;
                    }
                }
            }
        }
    }
}

fn key_type_name(sch: &Sch) -> &'static str {
    sch.key.map(|k| sch.fields[k].ty.name()).unwrap_or("none")
}

fn probes(rs: &RecordSet, key: usize) -> (Vec<u32>, BTreeSet<u32>) {
    let present: BTreeSet<u32> = rs.records().iter().filter_map(|r| r.get_value(key).map(raw).as_ref().and_then(cell_key_bits)).collect();
    let mut p: Vec<u32> = present.iter().copied().collect();
    let mut absent: BTreeSet<u32> = [0u32, 1, 2, 4, 6, 0x7FFF_FFFE, 0x7FFF_FFFF, 0x8000_0000, 0x8000_0001, 0xFFFF_FFFE, 0xFFFF_FFFF].into_iter().collect();
    for k in present.iter().take(64) {
        absent.insert(k.wrapping_add(1));
        absent.insert(k.wrapping_sub(1));
    }
    p.extend(absent.into_iter().filter(|k| !present.contains(k)));
    (p, present)
}

/// `get_record_by_key`, `create_sorted_key_map`, `get_record_by_key_binary_search` on one record set.
fn check_keys(cx: &mut Cx, which: &str, rs: &RecordSet, sch: &Sch, ctx: &str) {
    let Some(key) = sch.key else { return };
    let kt = key_type_name(sch);
    let (pr, present) = probes(rs, key);
    cx.r.count("key_lookups", pr.len() as u64 * 4);
    let judge = |cx: &mut Cx, method: &str, k: u32, got: Option<&Record>| {
        match got {
            Some(rec) => {
                let carried = rec.get_value(key).map(raw).as_ref().and_then(cell_key_bits);
                if carried != Some(k) {
                    cx.viol(
                        format!("key lookup: {method} returns a record that does not carry the key ({kt} key field)"),
                        format!("{ctx}: {which}: key {:#x} -> record with key {:?}; present={}", k, carried, present.contains(&k)),
                    );
                }
            }
            None => {
                if present.contains(&k) {
                    cx.viol(
                        format!("key lookup: {method} misses a present key ({kt} key field)"),
                        format!("{ctx}: {which}: key {:#x} is carried by a record but the lookup returns None", k),
                    );
                }
            }
        }
    };
    for &k in &pr {
        judge(cx, "get_record_by_key", k, rs.get_record_by_key(k));
    }
    // without a sorted map the binary-search entry point falls back to the hashed map
    for &k in &pr {
        judge(cx, "get_record_by_key_binary_search (before create_sorted_key_map)", k, rs.get_record_by_key_binary_search(k));
    }
    let mut sorted = rs.clone();
    if let Err(e) = sorted.create_sorted_key_map() {
        cx.viol(
            format!("key lookup: create_sorted_key_map fails although the schema has a key field ({kt} key field)"),
            format!("{ctx}: {which}: {e}"),
        );
        return;
    }
    for &k in &pr {
        judge(cx, "get_record_by_key_binary_search", k, sorted.get_record_by_key_binary_search(k));
        judge(cx, "get_record_by_key (after create_sorted_key_map)", k, sorted.get_record_by_key(k));
    }
}

fn lib_get<'a>(rs: &'a RecordSet) -> impl Fn(u32) -> Result<String, String> + 'a {
    move |o| rs.get_string(StringRef::new(o)).map(|s| s.to_string()).map_err(|e| e.to_string())
}

/// The record sets the library built from one file.
struct Sets {
    eager: RecordSet,
    mmap: Option<RecordSet>,
    par: Option<RecordSet>,
}

/// deep treatment: `Record::get_value_by_name` must return what `get_value(index)` returns
fn check_by_name(cx: &mut Cx, tag: &str, path: &str, recs: &[Record], sch: &Sch, ctx: &str) {
    let names: Vec<String> = (0..sch.fields.len()).map(|i| format!("f{i}")).collect();
    for (ri, rec) in recs.iter().enumerate() {
        for (fi, name) in names.iter().enumerate() {
            cx.r.count("by_name_accesses", 1);
            let a = rec.get_value_by_name(name).map(raw);
            let b = rec.get_value(fi).map(raw);
            if a != b || a.is_none() {
                cx.viol(
                    format!("{tag}: {path} record access by field name differs from access by index"),
                    format!("{ctx}: record {ri} field {fi}: by name {:?}, by index {:?}", a.as_ref().map(short), b.as_ref().map(short)),
                );
                return;
            }
        }
        if rec.get_value_by_name("no such field").is_some() || rec.len() != sch.fields.len() || rec.schema().is_none() {
            cx.viol(format!("{tag}: {path} record metadata (len / schema / unknown field name) is inconsistent"), format!("{ctx}: record {ri}"));
            return;
        }
    }
}

/// All four access paths (+ cached strings, + key lookups) on one file.  The eager result is
/// judged against `want` (independent content of the file); every other path is judged against
/// the eager result on the same file.  Returns the record sets (eager, mmap, last parallel).
fn check_file(cx: &mut Cx, tag: &str, bytes: &[u8], sch: &Sch, want: &Table, want_name: &str, ctx: &str, classes: &[usize]) -> Option<Sets> {
    // ---- eager
    let mut tm = std::time::Instant::now();
    let parser = match DbcParser::parse_bytes(bytes) {
        Ok(p) => p,
        Err(e) => {
            if want_name.is_empty() {
                // no independent layout claim for this container: an eager refusal is not judged
                cx.r.err_return = true;
                cx.flags.insert("eager-refused(not judged)");
            } else {
                cx.viol(format!("{tag}: eager parse_bytes refuses a well-formed table"), format!("{ctx}: {e}"));
            }
            return None;
        }
    };
    let parser = match parser.with_schema(lib_schema(sch)) {
        Ok(p) => p,
        Err(e) => {
            if want_name.is_empty() {
                // no independent layout claim for this container: an eager refusal is not judged
                cx.r.err_return = true;
                cx.flags.insert("eager-refused(not judged)");
            } else {
                cx.viol(format!("{tag}: with_schema refuses the schema the table was built with"), format!("{ctx}: {e}"));
            }
            return None;
        }
    };
    let rs = match parser.parse_records() {
        Ok(r) => r,
        Err(e) => {
            if want_name.is_empty() {
                // no independent layout claim for this container: an eager refusal is not judged
                cx.r.err_return = true;
                cx.flags.insert("eager-refused(not judged)");
            } else {
                cx.viol(format!("{tag}: eager parse_records fails on a well-formed table"), format!("{ctx}: {e}"));
            }
            return None;
        }
    };
    let eager: Vec<Vec<Cell>> = rs.records().iter().map(raw_rec).collect();
    // an empty `want_name` means: no independent content to judge the eager parse against
    // (WDB2 containers: only agreement between the access paths is demanded)
    if !want_name.is_empty() {
        compare_path(cx, tag, "eager", &eager, &lib_get(&rs), sch, Want::Table(want, want_name), ctx);
    }
    let eager_res: Option<Table> = {
        let g = lib_get(&rs);
        eager.iter().map(|r| r.iter().map(|c| resolve(c, &g)).collect::<Result<Vec<_>, _>>()).collect::<Result<Vec<_>, _>>().ok()
    };
    let n = eager.len();
    // get_record(i) of the set
    let by_index: Vec<Vec<Cell>> = (0..rs.len()).filter_map(|i| rs.get_record(i)).map(raw_rec).collect();
    if by_index != eager {
        cx.viol(format!("{tag}: RecordSet::get_record(i) differs from records()[i]"), ctx.to_string());
    }
    if cx.deep {
        check_by_name(cx, tag, "eager", rs.records(), sch, ctx);
        if rs.is_empty() != (n == 0) || rs.get_record(n).is_some() || rs.schema().is_none() {
            cx.viol(format!("{tag}: RecordSet metadata (is_empty / get_record past the end / schema) is inconsistent"), ctx.to_string());
        }
    }
    // ---- cached string block
    {
        let mut c = rs.clone();
        c.enable_string_caching();
        compare_path(cx, tag, "eager with cached string block", &eager, &lib_get(&c), sch, Want::Eager(&eager, eager_res.as_ref()), ctx);
    }
    // ---- lazy
    lap(&mut tm, 0);
    let sb = Arc::new(rs.string_block().clone());
    {
        let lazy = LazyDbcParser::new(parser.data(), parser.header(), parser.schema(), Arc::clone(&sb));
        let lget = |o: u32| lazy.string_block().get_string(StringRef::new(o)).map(|s| s.to_string()).map_err(|e| e.to_string());
        let mut it = vec![];
        let mut ok = true;
        for (i, x) in lazy.record_iterator().enumerate() {
            match x {
                Ok(rec) => it.push(raw_rec(&rec)),
                Err(e) => {
                    cx.viol(format!("{tag}: lazy iterator returns Err on a well-formed table"), format!("{ctx}: record {i}: {e}"));
                    ok = false;
                    break;
                }
            }
        }
        if ok {
            compare_path(cx, tag, "lazy iterator", &it, &lget, sch, Want::Eager(&eager, eager_res.as_ref()), ctx);
        }
        let mut gr = vec![];
        let mut gr_recs = vec![];
        ok = true;
        for i in 0..n {
            match lazy.get_record(i as u32) {
                Ok(rec) => {
                    gr.push(raw_rec(&rec));
                    if cx.deep {
                        gr_recs.push(rec);
                    }
                }
                Err(e) => {
                    cx.viol(format!("{tag}: lazy get_record returns Err for an existing index"), format!("{ctx}: record {i}: {e}"));
                    ok = false;
                    break;
                }
            }
        }
        if ok {
            compare_path(cx, tag, "lazy get_record", &gr, &lget, sch, Want::Eager(&eager, eager_res.as_ref()), ctx);
        }
        // an index past the end must not produce a record (both tiers: the eager set has no such record)
        if lazy.get_record(n as u32).is_ok() {
            cx.viol(format!("{tag}: lazy get_record returns a record for an index past the end"), ctx.to_string());
        }
        if cx.deep {
            check_by_name(cx, tag, "lazy get_record", &gr_recs, sch, ctx);
        }
    }
    // ---- memory-mapped (file on disk in the scratch dir)
    lap(&mut tm, 1);
    let mut mm_rs: Option<RecordSet> = None;
    {
        let path = cx.sc.path("t.dbc");
        std::fs::write(&path, bytes).expect("scratch write");
        match MmapDbcFile::open(&path) {
            Err(e) => cx.viol(format!("{tag}: MmapDbcFile::open fails on a well-formed table"), format!("{ctx}: {e}")),
            Ok(mm) => {
                if mm.as_slice() != bytes {
                    cx.viol(format!("{tag}: mmap view differs from the file content"), ctx.to_string());
                }
                if mm.header() != parser.header() {
                    cx.viol(format!("{tag}: mmap header differs from the eager header"), format!("{ctx}: {:?} vs {:?}", mm.header(), parser.header()));
                }
                match mm.parser_with_schema(lib_schema(sch)).and_then(|p| p.parse_records()) {
                    Err(e) => cx.viol(format!("{tag}: mmap parser fails on a well-formed table"), format!("{ctx}: {e}")),
                    Ok(rs2) => {
                        let got: Vec<Vec<Cell>> = rs2.records().iter().map(raw_rec).collect();
                        compare_path(cx, tag, "mmap parser", &got, &lib_get(&rs2), sch, Want::Eager(&eager, eager_res.as_ref()), ctx);
                        match mm.string_block() {
                            Err(e) => cx.viol(format!("{tag}: MmapDbcFile::string_block fails on a well-formed table"), format!("{ctx}: {e}")),
                            Ok(b) => {
                                let g = |o: u32| b.get_string(StringRef::new(o)).map(|s| s.to_string()).map_err(|e| e.to_string());
                                compare_path(cx, tag, "mmap string_block", &got, &g, sch, Want::Eager(&eager, eager_res.as_ref()), ctx);
                            }
                        }
                        mm_rs = Some(rs2);
                    }
                }
            }
        }
        let _ = std::fs::remove_file(&path);
    }
    // ---- parallel (real rayon), every thread class
    lap(&mut tm, 2);
    let mut par_rs: Option<RecordSet> = None;
    for &tc in classes {
        // a panic on a rayon worker is re-raised here without the hook's thread-local record
        let res = guarded(|| in_pool(tc, || wow_cdbc::parse_records_parallel(bytes, parser.header(), parser.schema(), Arc::clone(&sb))));
        cx.r.count("parallel_runs", 1);
        let res = match res {
            Ok(r) => r,
            Err((file, line, msg)) => {
                cx.viol(format!("{tag}: parse_records_parallel panics"), format!("{ctx}: threads={}: {file}:{line}: {msg}", thread_class_name(tc)));
                continue;
            }
        };
        match res {
            Err(e) => cx.viol(
                format!("{tag}: parse_records_parallel returns Err on a well-formed table"),
                format!("{ctx}: threads={}: {e}", thread_class_name(tc)),
            ),
            Ok(prs) => {
                let got: Vec<Vec<Cell>> = prs.records().iter().map(raw_rec).collect();
                let c2 = format!("{ctx} threads={}", thread_class_name(tc));
                compare_path(cx, tag, "parallel", &got, &lib_get(&prs), sch, Want::Eager(&eager, eager_res.as_ref()), &c2);
                if cx.deep && par_rs.is_none() {
                    check_by_name(cx, tag, "parallel", prs.records(), sch, &c2);
                }
                par_rs = Some(prs);
            }
        }
    }
    // ---- key lookups on the record sets of every path that builds one
    lap(&mut tm, 3);
    if sch.key.is_some() {
        check_keys(cx, &format!("{tag}, eager record set"), &rs, sch, ctx);
        if let Some(m) = &mm_rs {
            check_keys(cx, &format!("{tag}, mmap record set"), m, sch, ctx);
        }
        if let Some(p) = &par_rs {
            check_keys(cx, &format!("{tag}, parallel record set"), p, sch, ctx);
        }
    }
    lap(&mut tm, 4);
    Some(Sets { eager: rs, mmap: mm_rs, par: par_rs })
}

const TAG_REF: &str = "reference-emitted table";
const TAG_LIB: &str = "library-written table";
const SYM_F1: &str = "write→parse: with_schema refuses the library's own output for a schema with array fields (header field_count counts fields, validation counts array elements)";

/// Output of one accepted write and the record sets of its parse-back.
struct Written {
    bytes: Vec<u8>,
    sets: Option<Sets>,
}

/// `DbcWriter::write_records` alone (explicit or record-set schema)
fn just_write(rs: &RecordSet, sch: &Sch, explicit: bool) -> Result<Vec<u8>, String> {
    let mut cur = Cursor::new(Vec::new());
    let mut w = DbcWriter::new(&mut cur);
    if explicit {
        w = w.with_schema(lib_schema(sch));
    }
    w.write_records(rs).map_err(|e| e.to_string())?;
    Ok(cur.into_inner())
}

/// DbcWriter on a parsed set; independent judgement of the bytes; parse back on all paths.
fn write_and_check(cx: &mut Cx, rs0: &RecordSet, sch: &Sch, truth: &Table, explicit: bool, ctx: &str, classes: &[usize]) -> Option<Written> {
    let mut cur = Cursor::new(Vec::new());
    {
        let mut w = DbcWriter::new(&mut cur);
        if explicit {
            w = w.with_schema(lib_schema(sch));
        }
        if let Err(e) = w.write_records(rs0) {
            // a refusal by the writer is allowed ("accepted by the writer")
            cx.r.err_return = true;
            cx.flags.insert("writer-refused");
            cx.r.count("writer_refusals", 1);
            let _ = e;
            return None;
        }
    }
    let out = cur.into_inner();
    cx.r.count("tables_written", 1);
    let n = truth.len();
    // ---- independent reader
    let p = match dbcref::read(&out) {
        Ok(p) => p,
        Err(dbcref::ReadErr::Short) => {
            cx.viol("write: output is shorter than a DBC header".into(), format!("{ctx}: {} bytes", out.len()));
            return None;
        }
        Err(dbcref::ReadErr::Magic) => {
            cx.viol("write: output does not start with the WDBC magic".into(), format!("{ctx}: {:?}", &out[..4]));
            return None;
        }
        Err(dbcref::ReadErr::Length { expected, actual }) => {
            cx.viol(
                "write: file size differs from header + records * record size + string block".into(),
                format!("{ctx}: header says {expected} bytes, file has {actual}"),
            );
            return None;
        }
    };
    if p.record_count as usize != n {
        cx.viol("write: header record_count differs from the number of records written".into(), format!("{ctx}: header {} records {}", p.record_count, n));
        return None;
    }
    if p.record_size as usize != sch.record_size() {
        cx.viol(
            "write: header record_size differs from the sum of the field sizes".into(),
            format!("{ctx}: header {} schema {}", p.record_size, sch.record_size()),
        );
        return None;
    }
    if out.len() != 20 + n * sch.record_size() + p.strings.len() {
        cx.viol("write: file size differs from header + records * record size + string block".into(), format!("{ctx}: {} bytes", out.len()));
    }
    match dbcref::block_entries(p.strings) {
        Err(e) => cx.viol("write: string block is malformed".into(), format!("{ctx}: {e}")),
        Ok(entries) => {
            let mut seen: BTreeSet<&[u8]> = BTreeSet::new();
            for e in &entries {
                if !seen.insert(e) {
                    cx.viol(
                        "write: string block stores an identical string more than once".into(),
                        format!("{ctx}: {:?} occurs twice in a block of {} bytes", String::from_utf8_lossy(&e[..e.len().min(20)]), p.strings.len()),
                    );
                    break;
                }
            }
            cx.r.count("string_block_entries_checked", entries.len() as u64);
        }
    }
    let decoded = dbcref::decode(&p, &sch.fields);
    match &decoded {
        Err(e) => cx.viol("write: records cannot be decoded by the independent reader".into(), format!("{ctx}: {e}")),
        Ok(t) => {
            'outer: for (ri, row) in t.iter().enumerate() {
                for (fi, c) in row.iter().enumerate() {
                    if *c != truth[ri][fi] {
                        cx.viol(
                            format!("write: independently decoded value differs from the source record in a field of type {}", sch.fields[fi].class()),
                            format!("{ctx}: record {ri} field {fi} ({}): file has {} source {}", sch.fields[fi].label(), short(c), short(&truth[ri][fi])),
                        );
                        break 'outer;
                    }
                }
            }
        }
    }
    // ---- parse back with the library
    let mut back = out.clone();
    let refused = DbcParser::parse_bytes(&back).and_then(|p| p.with_schema(lib_schema(sch))).err();
    if let Some(e) = refused {
        let fc = p.field_count as usize;
        if fc == sch.fields.len() && fc != sch.elements() {
            cx.viol(SYM_F1.into(), format!("{ctx}: header field_count={} schema fields={} array elements={}: {e}", fc, sch.fields.len(), sch.elements()));
            cx.flags.insert("own-output-refused(arrays)");
            // continue behind the defect: give the header the element count so that the rest
            // of the written file is still judged on every path
            back[8..12].copy_from_slice(&(sch.elements() as u32).to_le_bytes());
            cx.r.count("reparse_with_patched_field_count", 1);
        } else {
            cx.viol("write→parse: library refuses to parse its own output".into(), format!("{ctx}: {e}"));
            return Some(Written { bytes: out, sets: None });
        }
    }
    // the library's readers are judged against what the file really contains (independent
    // reader); whether that equals the source was judged above
    let sets = match &decoded {
        Ok(t) => check_file(cx, TAG_LIB, &back, sch, t, "content of the file (independent reader)", ctx, classes),
        Err(_) => check_file(cx, TAG_LIB, &back, sch, truth, "ground truth", ctx, classes),
    };
    Some(Written { bytes: out, sets })
}

/// One table: emit -> parse (all paths) -> write (explicit and inherited schema) -> parse (all paths).
fn run_table(cx: &mut Cx, sch: &Sch, n: usize, kc: KeyClass, layout: Layout) {
    run_table_sp(cx, sch, n, kc, layout, StrPool::Base)
}

fn run_table_sp(cx: &mut Cx, sch: &Sch, n: usize, kc: KeyClass, layout: Layout, sp: StrPool) {
    let truth = gen_table_with(sch, n, kc, n, sp);
    let ctx = if sp == StrPool::Base {
        format!("schema {} n={} keys={} layout={}", sch.render(), n, kc.name(), layout.name())
    } else {
        format!("schema {} n={} keys={} layout={} strings={}", sch.render(), n, kc.name(), layout.name(), sp.name())
    };
    let em = dbcref::emit(&sch.fields, &truth, layout, HeaderKind::Wdbc);
    cx.r.count("tables_emitted", 1);
    cx.r.count("records_emitted", n as u64);
    // thread classes of the parallel path (main space): on the reference file every class whose
    // chunking differs for this record count (once per record count; the other key orders take one
    // rotating class); on the written file (same shape) one rotating class for the 7-record tables
    cx.rot += 1;
    let rot = [THREAD_CLASSES[cx.rot % 4]];
    let full = kc == KeyClass::Unsorted;
    let (ce, cw): (&[usize], &[usize]) = if cx.deep {
        (&THREAD_CLASSES_DEEP, &THREAD_CLASSES_DEEP)
    } else if cx.all_classes {
        (&THREAD_CLASSES, &THREAD_CLASSES)
    } else if n <= 1 || !full {
        (&rot, if n >= 7 { &rot } else { &[] })
    } else if n == 2 {
        (&[1, 2], &[])
    } else {
        (&THREAD_CLASSES, &rot)
    };
    let Some(sets0) = check_file(cx, TAG_REF, &em.bytes, sch, &truth, "ground truth", &ctx, ce) else { return };
    let rs0 = &sets0.eager;
    let a = write_and_check(cx, rs0, sch, &truth, true, &format!("{ctx} writer=explicit-schema"), cw);
    // writer without its own schema takes the record set's
    let mut cur = Cursor::new(Vec::new());
    let inherited = DbcWriter::new(&mut cur).write_records(rs0).is_ok();
    let b = cur.into_inner();
    if inherited && a.as_ref().map(|w| &w.bytes[..]) == Some(&b[..]) {
        cx.r.count("inherited_schema_output_identical", 1);
    } else {
        write_and_check(cx, rs0, sch, &truth, false, &format!("{ctx} writer=record-set-schema"), cw);
    }
    if n > 0 && a.is_some() {
        cx.r.nontrivial = true;
    }
    if cx.deep {
        deep_extras(cx, sch, &truth, &em.bytes, &sets0, a.as_ref(), &ctx);
    }
}

/// Deep treatment of one table (thorough tier only).
/// (i) the writer is fed from every record-set state the library can build from the reference file
/// (cached strings, sorted key map, mmap, parallel) with explicit and record-set schema: an output
/// identical to the already judged output of the eager set needs no second judgement, any other
/// output is judged in full; (ii) second write: the record sets parsed back from the first output
/// are written again (write→parse→write→parse) and judged the same way; (iii) schema-less access on
/// the reference file and on the first output.
fn deep_extras(cx: &mut Cx, sch: &Sch, truth: &Table, ref_bytes: &[u8], s0: &Sets, a: Option<&Written>, ctx: &str) {
    cx.rot += 1;
    let rot = [THREAD_CLASSES_DEEP[cx.rot % THREAD_CLASSES_DEEP.len()]];
    if let Some(a) = a {
        let feed = |cx: &mut Cx, what: &str, rs: &RecordSet, both: bool| {
            for explicit in if both { &[true, false][..] } else { &[true][..] } {
                cx.r.count("writer_feeds", 1);
                match just_write(rs, sch, *explicit) {
                    Err(_) => {
                        cx.r.err_return = true;
                        cx.flags.insert("writer-refused");
                        cx.r.count("writer_refusals", 1);
                    }
                    Ok(b) if b == a.bytes => cx.r.count("writer_feed_output_identical_to_judged_output", 1),
                    Ok(_) => {
                        cx.r.count("writer_feed_output_differs(judged in full)", 1);
                        let c2 = format!("{ctx} writer fed from {what} ({})", if *explicit { "explicit schema" } else { "record-set schema" });
                        write_and_check(cx, rs, sch, truth, *explicit, &c2, &rot);
                    }
                }
            }
        };
        {
            let mut c = s0.eager.clone();
            c.enable_string_caching();
            feed(cx, "the eager record set with cached string block", &c, true);
        }
        if sch.key.is_some() {
            let mut k = s0.eager.clone();
            if k.create_sorted_key_map().is_ok() {
                feed(cx, "the eager record set after create_sorted_key_map", &k, true);
            }
        }
        if let Some(m) = &s0.mmap {
            feed(cx, "the mmap record set", m, true);
        }
        if let Some(p) = &s0.par {
            feed(cx, "the parallel record set", p, true);
        }
        // second write
        if let Some(sa) = &a.sets {
            feed(cx, "the eager parse of the first output (second write)", &sa.eager, true);
            if let Some(m) = &sa.mmap {
                feed(cx, "the mmap parse of the first output (second write)", m, false);
            }
            if let Some(p) = &sa.par {
                feed(cx, "the parallel parse of the first output (second write)", p, false);
            }
        }
    }
    check_raw(cx, TAG_REF, ref_bytes, sch, ctx);
    if let Some(a) = a {
        if a.sets.is_some() {
            check_raw(cx, TAG_LIB, &a.bytes, sch, &format!("{ctx} writer=explicit-schema"));
        }
    }
}

/// Schema-less access (every field a 32-bit word) on a table whose cells are all 32 bits wide:
/// eager, lazy, mmap and parallel must return the words of the records; the record set can be
/// written with a flat UInt32 schema and must survive that.
fn check_raw(cx: &mut Cx, tag: &str, bytes: &[u8], sch: &Sch, ctx: &str) {
    if sch.elements() == 0 || sch.fields.iter().any(|k| k.ty.size() != 4) {
        // a table with packed 8/16-bit cells has no schema-less reading; nothing is demanded
        cx.r.count("schemaless_not_applicable(packed or empty records)", 1);
        return;
    }
    let Ok(p) = dbcref::read(bytes) else { return };
    let el = sch.elements();
    let words: Vec<Vec<Cell>> = (0..p.record_count as usize)
        .map(|r| (0..el).map(|e| Cell::U32(u32::from_le_bytes(p.records[(r * el + e) * 4..(r * el + e) * 4 + 4].try_into().unwrap()))).collect())
        .collect();
    cx.r.count("schemaless_tables", 1);
    let cmp = |cx: &mut Cx, path: &str, got: &[Vec<Cell>], extra: &str| {
        cx.r.count("path_comparisons", 1);
        if got != &words[..] {
            let at = got.iter().zip(words.iter()).position(|(a, b)| a != b);
            cx.viol(
                format!("{tag}: schema-less {path} differs from the 32-bit words of the records"),
                format!("{ctx}{extra}: {} records vs {}; first differing record {:?}", got.len(), words.len(), at),
            );
        }
    };
    let parser = match DbcParser::parse_bytes(bytes) {
        Ok(p) => p,
        Err(e) => {
            cx.viol(format!("{tag}: schema-less eager parse fails on a well-formed table"), format!("{ctx}: {e}"));
            return;
        }
    };
    let rs = match parser.parse_records() {
        Ok(r) => r,
        Err(e) => {
            cx.viol(format!("{tag}: schema-less eager parse fails on a well-formed table"), format!("{ctx}: {e}"));
            return;
        }
    };
    let eager: Vec<Vec<Cell>> = rs.records().iter().map(raw_rec).collect();
    cmp(cx, "eager parse", &eager, "");
    let sb = Arc::new(rs.string_block().clone());
    {
        let lazy = LazyDbcParser::new(parser.data(), parser.header(), None, Arc::clone(&sb));
        let it: Result<Vec<Vec<Cell>>, String> = lazy.record_iterator().map(|x| x.map(|r| raw_rec(&r)).map_err(|e| e.to_string())).collect();
        match it {
            Ok(v) => cmp(cx, "lazy iterator", &v, ""),
            Err(e) => cx.viol(format!("{tag}: schema-less lazy iterator fails on a well-formed table"), format!("{ctx}: {e}")),
        }
        let gr: Result<Vec<Vec<Cell>>, String> = (0..words.len()).map(|i| lazy.get_record(i as u32).map(|r| raw_rec(&r)).map_err(|e| e.to_string())).collect();
        match gr {
            Ok(v) => cmp(cx, "lazy get_record", &v, ""),
            Err(e) => cx.viol(format!("{tag}: schema-less lazy get_record fails on a well-formed table"), format!("{ctx}: {e}")),
        }
    }
    {
        let path = cx.sc.path("r.dbc");
        std::fs::write(&path, bytes).expect("scratch write");
        match MmapDbcFile::open(&path) {
            Err(e) => cx.viol(format!("{tag}: MmapDbcFile::open fails on a well-formed table"), format!("{ctx}: {e}")),
            Ok(mm) => match mm.parser().parse_records() {
                Ok(m) => cmp(cx, "mmap parser", &m.records().iter().map(raw_rec).collect::<Vec<_>>(), ""),
                Err(e) => cx.viol(format!("{tag}: schema-less mmap parser fails on a well-formed table"), format!("{ctx}: {e}")),
            },
        }
        let _ = std::fs::remove_file(&path);
    }
    cx.rot += 1;
    for tc in [THREAD_CLASSES_DEEP[cx.rot % 5], THREAD_CLASSES_DEEP[(cx.rot + 2) % 5]] {
        let res = guarded(|| in_pool(tc, || wow_cdbc::parse_records_parallel(bytes, parser.header(), None, Arc::clone(&sb))));
        cx.r.count("parallel_runs", 1);
        match res {
            Err((file, line, msg)) => cx.viol(format!("{tag}: schema-less parse_records_parallel panics"), format!("{ctx}: threads={}: {file}:{line}: {msg}", thread_class_name(tc))),
            Ok(Err(e)) => cx.viol(format!("{tag}: schema-less parse_records_parallel fails on a well-formed table"), format!("{ctx}: threads={}: {e}", thread_class_name(tc))),
            Ok(Ok(prs)) => cmp(cx, "parallel parse", &prs.records().iter().map(raw_rec).collect::<Vec<_>>(), &format!(" threads={}", thread_class_name(tc))),
        }
    }
    // ---- writer: without any schema it has to refuse; with a flat UInt32 schema the words survive
    {
        let mut cur = Cursor::new(Vec::new());
        match DbcWriter::new(&mut cur).write_records(&rs) {
            Err(_) => cx.r.count("schemaless_write_refused(no schema)", 1),
            Ok(()) => cx.r.count("schemaless_write_accepted(not judged)", 1),
        }
    }
    let mut flat = Schema::new("R");
    for i in 0..el {
        flat.add_field(SchemaField::new(format!("c{i}"), FieldType::UInt32));
    }
    let mut cur = Cursor::new(Vec::new());
    if DbcWriter::new(&mut cur).with_schema(flat.clone()).write_records(&rs).is_err() {
        cx.r.err_return = true;
        cx.r.count("writer_refusals", 1);
        return;
    }
    let out = cur.into_inner();
    cx.r.count("tables_written", 1);
    match dbcref::read(&out) {
        Err(_) => cx.viol("schema-less write: file size differs from header + records * record size + string block (or no WDBC header)".into(), format!("{ctx}: {} bytes", out.len())),
        Ok(q) => {
            if q.record_count as usize != words.len() || q.record_size as usize != 4 * el {
                cx.viol("schema-less write: header record_count / record_size differ from the record set".into(), format!("{ctx}: {} x {}", q.record_count, q.record_size));
            } else if q.records != p.records {
                cx.viol("schema-less write: record bytes differ from the source records".into(), ctx.to_string());
            }
            if dbcref::block_entries(q.strings).is_err() {
                cx.viol("schema-less write: string block is malformed".into(), ctx.to_string());
            }
            match DbcParser::parse_bytes(&out).and_then(|x| x.with_schema(flat)).and_then(|x| x.parse_records()) {
                Err(e) => cx.viol("schema-less write→parse: library refuses to parse its own output".into(), format!("{ctx}: {e}")),
                Ok(back) => cmp(cx, "write→parse with a flat UInt32 schema", &back.records().iter().map(raw_rec).collect::<Vec<_>>(), ""),
            }
        }
    }
}

fn outcome(cx: &Cx) -> String {
    let mut o: Vec<&str> = cx.flags.iter().copied().collect();
    if cx.r.viols.iter().any(|v| v.symptom.contains("misses a present key")) {
        o.push("key-miss");
    }
    if o.is_empty() {
        o.push("all-paths-agree");
    }
    o.join("+")
}

/// record sets run for one (schema, key option)
fn sets_for(has_key: bool) -> Vec<(usize, KeyClass)> {
    let mut v = vec![(0, KeyClass::Unsorted), (1, KeyClass::Unsorted)];
    if has_key {
        for n in [2, 7] {
            for kc in [KeyClass::Sorted, KeyClass::Unsorted, KeyClass::Dup] {
                v.push((n, kc));
            }
        }
    } else {
        v.push((2, KeyClass::Unsorted));
        v.push((7, KeyClass::Unsorted));
    }
    v
}

// ------------------------------------------------------------------ space "main"

struct Main {
    maxlen: u32,
    treat: Treat,
}

/// How the tables of one schema are chosen and treated.
#[derive(Clone, Copy, PartialEq)]
enum Treat {
    /// quick tier (and space five): the record sets of `sets_for`, reference layouts alternating
    /// between pooled and copy-per-cell, rotating selection of rayon thread classes
    Base,
    /// thorough tier, space main: as `Base`, but a schema with String cells gets every record set
    /// under each of the four reference layouts
    BaseAllLayouts,
    /// thorough tier, spaces deep / deep4 / ladder: full product of the given record counts x key
    /// order x every distinguishable layout, deep treatment of every table
    Deep(&'static [usize]),
}

/// record counts of the deep treatment: with pools of 1, 2, 3, 4 and 7 threads the chunk size
/// max(1, n / threads) and the remainder n % chunk take every combination that occurs below 18
const N_DEEP: [usize; 14] = [0, 1, 2, 3, 4, 5, 6, 7, 8, 9, 12, 13, 16, 17];
/// record counts of the deep treatment of four-field schemas
const N_DEEP4: [usize; 7] = [0, 1, 2, 3, 5, 8, 13];
/// record counts of the field-count ladder
const N_LADDER: [usize; 7] = [0, 1, 2, 5, 9, 17, 40];

/// record sets of the deep treatment for one (schema, key option)
fn sets_deep(has_key: bool, ns: &[usize]) -> Vec<(usize, KeyClass)> {
    let mut v = vec![];
    for &n in ns {
        if has_key && n >= 2 {
            for kc in [KeyClass::Sorted, KeyClass::Unsorted, KeyClass::Dup] {
                v.push((n, kc));
            }
        } else {
            v.push((n, KeyClass::Unsorted));
        }
    }
    v
}

const LAYOUTS_ALL: [Layout; 4] = [Layout::Pooled, Layout::PerCell, Layout::SuffixShared, Layout::Scattered];

/// the reference layouts that produce different files for this schema
fn layouts_for(fields: &[Kind]) -> &'static [Layout] {
    if fields.iter().any(|k| k.ty == Ty::Str && k.elements() > 0) {
        &LAYOUTS_ALL
    } else {
        // no string cells: a one-byte block (Pooled) or no block at all (PerCell)
        &LAYOUTS_ALL[..2]
    }
}

/// One schema: all its key options and record sets (the case of spaces main / deep / five / ladder).
fn run_schema(fields: Vec<Kind>, treat: Treat) -> CaseResult {
    let mut r = CaseResult::new();
    r.key = format!("{:?}", fields.iter().map(|k| k.label()).collect::<Vec<_>>());
    let sc = Scratch::new("c17");
    let out;
    {
        let mut cx = Cx { r: &mut r, seen: HashSet::new(), flags: BTreeSet::new(), sc: &sc, all_classes: false, rot: 0, typed: true, deep: matches!(treat, Treat::Deep(_)) };
        let mut keys: Vec<Option<usize>> = vec![None];
        keys.extend((0..fields.len()).filter(|&p| fields[p].keyable()).map(Some));
        let mut t = 0usize;
        for key in keys {
            let sch = Sch { fields: fields.clone(), key };
            cx.r.count("schema_key_combinations", 1);
            match treat {
                Treat::Base => {
                    for (n, kc) in sets_for(key.is_some()) {
                        let layout = if t % 2 == 0 { Layout::Pooled } else { Layout::PerCell };
                        t += 1;
                        run_table(&mut cx, &sch, n, kc, layout);
                    }
                }
                Treat::BaseAllLayouts => {
                    for (n, kc) in sets_for(key.is_some()) {
                        if layouts_for(&fields).len() == 4 {
                            for &layout in &LAYOUTS_ALL {
                                run_table(&mut cx, &sch, n, kc, layout);
                            }
                        } else {
                            let layout = if t % 2 == 0 { Layout::Pooled } else { Layout::PerCell };
                            t += 1;
                            run_table(&mut cx, &sch, n, kc, layout);
                        }
                    }
                }
                Treat::Deep(ns) => {
                    for (n, kc) in sets_deep(key.is_some(), ns) {
                        for &layout in layouts_for(&fields) {
                            run_table(&mut cx, &sch, n, kc, layout);
                        }
                    }
                }
            }
        }
        // key on a field that cannot be a key: the library may refuse the schema; not judged
        for p in 0..fields.len() {
            if !fields[p].keyable() {
                let sch = Sch { fields: fields.clone(), key: Some(p) };
                let em = dbcref::emit(&sch.fields, &vec![], Layout::Pooled, HeaderKind::Wdbc);
                match DbcParser::parse_bytes(&em.bytes).and_then(|x| x.with_schema(lib_schema(&sch))) {
                    Ok(_) => cx.r.count("non_keyable_key_accepted", 1),
                    Err(_) => cx.r.count("non_keyable_key_refused", 1),
                }
            }
        }
        out = outcome(&cx);
    }
    r.outcome = out;
    r
}
impl Main {
    /// 36 kinds up to three fields; four-field schemas use 27 kinds (no one-element arrays)
    fn radix(len: u32) -> u64 {
        if len <= 3 {
            NKINDS
        } else {
            27
        }
    }
    fn schema(&self, mut i: u64) -> Vec<Kind> {
        let mut len = 1u32;
        loop {
            let c = Self::radix(len).pow(len);
            if i < c {
                break;
            }
            i -= c;
            len += 1;
        }
        let rx = Self::radix(len);
        // first field varies slowest so that neighbours differ in the last field
        let mut f = vec![Kind::from_index(0); len as usize];
        for p in (0..len as usize).rev() {
            let k = i % rx;
            // with 27 kinds: scalars, [2], [3]
            f[p] = Kind::from_index(if rx == 27 && k >= 9 { k + 9 } else { k });
            i /= rx;
        }
        f
    }
}
impl Space for Main {
    fn len(&self) -> u64 {
        (1..=self.maxlen).map(|l| Self::radix(l).pow(l)).sum()
    }
    fn describe(&self, i: u64) -> J {
        let f = self.schema(i);
        let s = Sch { fields: f, key: None };
        let keyable: Vec<usize> = (0..s.fields.len()).filter(|&p| s.fields[p].keyable()).collect();
        if let Treat::Deep(ns) = self.treat {
            return json!({"fields": s.labels(), "record_size": s.record_size(), "key_options": {"none": true, "positions": keyable}, "treatment": "deep",
               "record_sets": format!("n in {:?} x key order {{sorted,unsorted,duplicate}} x every distinguishable string layout", ns)});
        }
        if self.treat == Treat::BaseAllLayouts {
            return json!({"fields": s.labels(), "record_size": s.record_size(), "key_options": {"none": true, "positions": keyable},
               "record_sets": "n in {0,1,2,7} x key order {sorted,unsorted,duplicate} x string layout (all four when the schema has String cells)"});
        }
        json!({"fields": s.labels(), "record_size": s.record_size(), "key_options": {"none": true, "positions": keyable},
               "record_sets": "n in {0,1,2,7} x key order {sorted,unsorted,duplicate} x string layout"})
    }
    fn run(&self, i: u64) -> CaseResult {
        run_schema(self.schema(i), self.treat)
    }
    fn case_timeout(&self) -> u64 {
        if matches!(self.treat, Treat::Deep(_)) {
            120
        } else {
            60
        }
    }
}

// ------------------------------------------------------------------ space "five" (thorough)

/// five-field schemas over the nine scalar types and one two-element array per cell width
struct Five;
const FIVE_KINDS: u64 = 12;
impl Five {
    fn kind(k: u64) -> Kind {
        match k {
            0..=8 => Kind::from_index(k),
            9 => Kind { ty: Ty::U8, arr: Some(2) },
            10 => Kind { ty: Ty::U16, arr: Some(2) },
            _ => Kind { ty: Ty::Str, arr: Some(2) },
        }
    }
    fn schema(mut i: u64) -> Vec<Kind> {
        let mut f = vec![Kind::from_index(0); 5];
        for p in (0..5).rev() {
            f[p] = Self::kind(i % FIVE_KINDS);
            i /= FIVE_KINDS;
        }
        f
    }
}
impl Space for Five {
    fn len(&self) -> u64 {
        FIVE_KINDS.pow(5)
    }
    fn describe(&self, i: u64) -> J {
        let s = Sch { fields: Self::schema(i), key: None };
        let keyable: Vec<usize> = (0..s.fields.len()).filter(|&p| s.fields[p].keyable()).collect();
        json!({"fields": s.labels(), "record_size": s.record_size(), "key_options": {"none": true, "positions": keyable},
               "record_sets": "n in {0,1,2,7} x key order {sorted,unsorted,duplicate} x string layout"})
    }
    fn run(&self, i: u64) -> CaseResult {
        run_schema(Self::schema(i), Treat::Base)
    }
}

// ------------------------------------------------------------------ space "deep4" (thorough)

/// four-field schemas over the 12 kinds of space five, deep treatment
struct Deep4;
impl Deep4 {
    fn schema(mut i: u64) -> Vec<Kind> {
        let mut f = vec![Kind::from_index(0); 4];
        for p in (0..4).rev() {
            f[p] = Five::kind(i % FIVE_KINDS);
            i /= FIVE_KINDS;
        }
        f
    }
}
impl Space for Deep4 {
    fn len(&self) -> u64 {
        FIVE_KINDS.pow(4)
    }
    fn describe(&self, i: u64) -> J {
        let s = Sch { fields: Self::schema(i), key: None };
        let keyable: Vec<usize> = (0..s.fields.len()).filter(|&p| s.fields[p].keyable()).collect();
        json!({"fields": s.labels(), "record_size": s.record_size(), "key_options": {"none": true, "positions": keyable}, "treatment": "deep",
               "record_sets": format!("n in {:?} x key order {{sorted,unsorted,duplicate}} x every distinguishable string layout", N_DEEP4)})
    }
    fn run(&self, i: u64) -> CaseResult {
        run_schema(Self::schema(i), Treat::Deep(&N_DEEP4))
    }
    fn case_timeout(&self) -> u64 {
        120
    }
}

// ------------------------------------------------------------------ space "ladder" (thorough)

/// every field count 1..=24: type cycle started at each of the 9 types x 4 array patterns;
/// key at every keyable position; deep treatment
struct Ladder;
impl Ladder {
    fn schema(i: u64) -> Vec<Kind> {
        let d = gen::mixed_radix(i, &[24, 9, 4]);
        let (len, rot, pat) = (d[0] as usize + 1, d[1] as usize, d[2] as usize);
        (0..len)
            .map(|p| {
                let ty = match pat {
                    3 => TYS[(9 + rot - p % 9) % 9],
                    2 => TYS[(p * 2 + rot) % 9],
                    _ => TYS[(p + rot) % 9],
                };
                let arr = match pat {
                    0 => None,
                    1 => (p % 3 == 2).then_some(2),
                    2 => (p % 2 == 1).then_some(if p % 4 == 1 { 1 } else { 3 }),
                    _ => (p % 5 == 2).then_some(4),
                };
                Kind { ty, arr }
            })
            .collect()
    }
}
impl Space for Ladder {
    fn len(&self) -> u64 {
        24 * 9 * 4
    }
    fn describe(&self, i: u64) -> J {
        let s = Sch { fields: Self::schema(i), key: None };
        let keyable: Vec<usize> = (0..s.fields.len()).filter(|&p| s.fields[p].keyable()).collect();
        json!({"field_count": s.fields.len(), "fields": s.labels(), "record_size": s.record_size(), "key_options": {"none": true, "positions": keyable}, "treatment": "deep",
               "record_sets": format!("n in {:?} x key order {{sorted,unsorted,duplicate}} x every distinguishable string layout", N_LADDER)})
    }
    fn run(&self, i: u64) -> CaseResult {
        run_schema(Self::schema(i), Treat::Deep(&N_LADDER))
    }
    fn case_timeout(&self) -> u64 {
        240
    }
}

// ------------------------------------------------------------------ space "tables" (thorough)

/// One schema with an explicit list of tables, deep treatment: array lengths, string pools, record counts.
struct TCase {
    group: &'static str,
    sch: Sch,
    sets: Vec<(usize, KeyClass, Layout, StrPool)>,
}

struct Tables {
    cases: Vec<TCase>,
}

const ARRAY_LENS: [usize; 12] = [0, 1, 2, 3, 4, 5, 8, 16, 64, 255, 256, 1000];
const COUNT_LADDER: [usize; 28] = [3, 4, 5, 6, 8, 9, 15, 16, 17, 31, 32, 33, 63, 64, 65, 100, 255, 256, 257, 1000, 1023, 1024, 1025, 4095, 4096, 4097, 9999, 10_000];
const STRING_COUNTS: [usize; 7] = [1, 2, 7, 13, 100, 1000, 10_000];

fn string_schemas() -> Vec<Sch> {
    let k = |ty, arr| Kind { ty, arr };
    vec![
        Sch { fields: vec![k(Ty::Str, None)], key: None },
        Sch { fields: vec![k(Ty::Str, Some(3))], key: None },
        Sch { fields: vec![k(Ty::U8, None), k(Ty::Str, None), k(Ty::U16, None), k(Ty::Str, Some(2))], key: None },
        Sch { fields: vec![k(Ty::U32, None), k(Ty::Str, None), k(Ty::Str, None)], key: Some(0) },
    ]
}

impl Tables {
    fn new() -> Tables {
        let k = |ty, arr| Kind { ty, arr };
        let mut cases = vec![];
        // ---- array lengths: element type x length x shape
        for &ty in TYS.iter() {
            for &len in ARRAY_LENS.iter() {
                for shape in 0..4 {
                    let sch = match shape {
                        0 => Sch { fields: vec![k(ty, Some(len))], key: None },
                        1 => Sch { fields: vec![k(Ty::U8, None), k(ty, Some(len)), k(Ty::U16, None)], key: None },
                        2 => Sch { fields: vec![k(Ty::U32, None), k(ty, Some(len)), k(Ty::Str, None)], key: Some(0) },
                        _ => Sch { fields: vec![k(ty, Some(len)), k(ty, Some(len / 2 + 1)), k(Ty::I32, None)], key: Some(2) },
                    };
                    let mut sets = vec![];
                    for n in [0usize, 1, 2, 7] {
                        // records of zero bytes are not a table the format can hold
                        if n > 0 && sch.record_size() == 0 {
                            continue;
                        }
                        let kcs: &[KeyClass] = if sch.key.is_some() && n == 7 { &[KeyClass::Unsorted, KeyClass::Dup] } else { &[KeyClass::Unsorted] };
                        for &kc in kcs {
                            for &layout in layouts_for(&sch.fields) {
                                sets.push((n, kc, layout, StrPool::Base));
                            }
                        }
                    }
                    cases.push(TCase { group: "array lengths", sch, sets });
                }
            }
        }
        // ---- string pools: schema x pool x record count, every layout
        for sch in string_schemas() {
            for sp in STR_POOLS_THOROUGH {
                for n in STRING_COUNTS {
                    if sp == StrPool::Long && n > 13 {
                        continue;
                    }
                    let sets = LAYOUTS_ALL.iter().map(|&l| (n, KeyClass::Unsorted, l, sp)).collect();
                    cases.push(TCase { group: "string pools", sch: sch.clone(), sets });
                }
            }
        }
        // ---- record counts: the three 24-field schemas and a 24-field schema of 32-bit cells x key x count ladder x key order x every layout
        for w in [0, 1, 3, 2] {
            for key in [false, true] {
                for n in COUNT_LADDER {
                    let kcs: &[KeyClass] = if key { &[KeyClass::Sorted, KeyClass::Unsorted, KeyClass::Dup] } else { &[KeyClass::Unsorted] };
                    for &kc in kcs {
                        for layout in LAYOUTS_ALL {
                            cases.push(TCase { group: "record counts", sch: wide_schema(w, key), sets: vec![(n, kc, layout, StrPool::Base)] });
                        }
                    }
                }
            }
        }
        Tables { cases }
    }
}
impl Space for Tables {
    fn len(&self) -> u64 {
        self.cases.len() as u64
    }
    fn describe(&self, i: u64) -> J {
        let c = &self.cases[i as usize];
        let sets: Vec<J> = c.sets.iter().map(|(n, kc, l, sp)| json!({"records": n, "keys": kc.name(), "layout": l.name(), "strings": sp.name()})).collect();
        json!({"group": c.group, "fields": c.sch.labels(), "record_size": c.sch.record_size(), "key": c.sch.key, "treatment": "deep", "tables": sets})
    }
    fn case_timeout(&self) -> u64 {
        300
    }
    fn run(&self, i: u64) -> CaseResult {
        let c = &self.cases[i as usize];
        let mut r = CaseResult::new();
        r.key = format!("t{i}");
        let sc = Scratch::new("c17");
        let out;
        {
            let mut cx = Cx { r: &mut r, seen: HashSet::new(), flags: BTreeSet::new(), sc: &sc, all_classes: true, rot: i as usize, typed: true, deep: true };
            for &(n, kc, layout, sp) in &c.sets {
                run_table_sp(&mut cx, &c.sch, n, kc, layout, sp);
            }
            out = outcome(&cx);
        }
        r.outcome = out;
        r
    }
}

// ------------------------------------------------------------------ space "extra"

#[derive(Clone, Copy, Debug)]
enum Extra {
    Wide { w: usize, key: bool, n: usize, kc: KeyClass, layout: Layout },
    /// schema the library is entitled to refuse (key on a non-32-bit / array field)
    Refuse { kind: u64 },
    /// string-focused single-column tables
    Strings { arr: usize, n: usize, layout: Layout },
}

struct ExtraSpace {
    cases: Vec<Extra>,
}
impl ExtraSpace {
    fn new(tier: Tier) -> ExtraSpace {
        let mut cases = vec![];
        for k in 0..NKINDS {
            cases.push(Extra::Refuse { kind: k });
        }
        for arr in 0..4 {
            for n in [1usize, 2, 6, 7, 12, 13] {
                for layout in [Layout::Pooled, Layout::PerCell] {
                    cases.push(Extra::Strings { arr, n, layout });
                }
            }
        }
        for w in 0..3 {
            for key in [false, true] {
                for n in [0usize, 1, 2, 7, 10_000] {
                    let kcs: &[KeyClass] = if key && n >= 2 { &[KeyClass::Sorted, KeyClass::Unsorted, KeyClass::Dup] } else { &[KeyClass::Unsorted] };
                    for &kc in kcs {
                        for layout in [Layout::Pooled, Layout::PerCell] {
                            // quick: the 10^4-record table twice per wide schema (keyed; unsorted/pooled, duplicate/per-cell)
                            if n == 10_000 && tier == Tier::Quick {
                                let keep = key && ((kc == KeyClass::Unsorted && layout == Layout::Pooled) || (kc == KeyClass::Dup && layout == Layout::PerCell));
                                if !keep {
                                    continue;
                                }
                            }
                            cases.push(Extra::Wide { w, key, n, kc, layout });
                        }
                    }
                }
            }
        }
        ExtraSpace { cases }
    }
}
impl Space for ExtraSpace {
    fn len(&self) -> u64 {
        self.cases.len() as u64
    }
    fn describe(&self, i: u64) -> J {
        match self.cases[i as usize] {
            Extra::Wide { w, key, n, kc, layout } => {
                let s = wide_schema(w, key);
                json!({"wide_schema": w, "fields": s.labels(), "key": s.key, "records": n, "keys": kc.name(), "layout": layout.name()})
            }
            Extra::Refuse { kind } => json!({"refusable_schema": [Kind::from_index(kind).label()], "key": 0}),
            Extra::Strings { arr, n, layout } => json!({"fields": [Kind { ty: Ty::Str, arr: ARRS[arr] }.label()], "records": n, "layout": layout.name()}),
        }
    }
    fn case_timeout(&self) -> u64 {
        120
    }
    fn run(&self, i: u64) -> CaseResult {
        let mut r = CaseResult::new();
        r.key = format!("x{i}");
        let sc = Scratch::new("c17");
        let out;
        {
            let mut cx = Cx { r: &mut r, seen: HashSet::new(), flags: BTreeSet::new(), sc: &sc, all_classes: true, rot: 0, typed: true, deep: false };
            match self.cases[i as usize] {
                Extra::Wide { w, key, n, kc, layout } => {
                    let sch = wide_schema(w, key);
                    run_table(&mut cx, &sch, n, kc, layout);
                }
                Extra::Strings { arr, n, layout } => {
                    let sch = Sch { fields: vec![Kind { ty: Ty::Str, arr: ARRS[arr] }], key: None };
                    run_table(&mut cx, &sch, n, KeyClass::Unsorted, layout);
                }
                Extra::Refuse { kind } => {
                    let k = Kind::from_index(kind);
                    let sch = Sch { fields: vec![k], key: Some(0) };
                    if k.keyable() {
                        run_table(&mut cx, &sch, 2, KeyClass::Unsorted, Layout::Pooled);
                    } else {
                        let truth = gen_table(&sch, 2, KeyClass::Unsorted, 0);
                        let em = dbcref::emit(&sch.fields, &truth, Layout::Pooled, HeaderKind::Wdbc);
                        match DbcParser::parse_bytes(&em.bytes).and_then(|x| x.with_schema(lib_schema(&sch))) {
                            Err(_) => {
                                cx.r.err_return = true;
                                cx.flags.insert("schema-refused(non-32-bit or array key)");
                            }
                            Ok(_) => {
                                cx.flags.insert("non-keyable-key-accepted");
                            }
                        }
                    }
                }
            }
            out = outcome(&cx);
        }
        r.outcome = out;
        r
    }
}

// ------------------------------------------------------------------ space "versions"

const VERSION_KINDS: [HeaderKind; 3] = [HeaderKind::Wdb2Basic, HeaderKind::Wdb2Ext, HeaderKind::Wdb2ExtIndex];

fn version_schemas() -> Vec<Sch> {
    let k = |ty, arr| Kind { ty, arr };
    vec![
        Sch { fields: vec![k(Ty::U32, None), k(Ty::Str, None)], key: Some(0) },
        Sch { fields: vec![k(Ty::U8, None), k(Ty::I16, None), k(Ty::Str, Some(2)), k(Ty::I32, None)], key: None },
        Sch { fields: vec![k(Ty::F32, Some(3)), k(Ty::Bool, None), k(Ty::U16, None)], key: None },
    ]
}

/// thorough tier: the build threshold from both sides, index arrays of 1 and 256 entries, WDB5
const VERSION_KINDS_THOROUGH: [HeaderKind; 8] = [
    HeaderKind::Wdb2Basic,
    HeaderKind::Wdb2Ext,
    HeaderKind::Wdb2ExtIndex,
    HeaderKind::Wdb2BasicAtThreshold,
    HeaderKind::Wdb2ExtAboveThreshold,
    HeaderKind::Wdb2ExtIndexOne,
    HeaderKind::Wdb2ExtIndexMany,
    HeaderKind::Wdb5,
];
const VERSION_COUNTS_THOROUGH: [usize; 7] = [0, 1, 2, 7, 8, 33, 1000];

fn version_schemas_thorough() -> Vec<Sch> {
    let k = |ty, arr| Kind { ty, arr };
    let mut v = version_schemas();
    v.push(Sch { fields: vec![k(Ty::Str, None)], key: None });
    v.push(Sch { fields: vec![k(Ty::I32, None), k(Ty::Str, Some(3)), k(Ty::I8, None), k(Ty::F32, None), k(Ty::Str, None)], key: Some(0) });
    v.push(wide_schema(1, true));
    v
}

struct Versions {
    thorough: bool,
}
impl Versions {
    fn case(&self, i: u64) -> (HeaderKind, Sch, usize) {
        if self.thorough {
            let d = gen::mixed_radix(i, &[7, 6, 8]);
            return (VERSION_KINDS_THOROUGH[d[2] as usize], version_schemas_thorough()[d[1] as usize].clone(), VERSION_COUNTS_THOROUGH[d[0] as usize]);
        }
        let d = gen::mixed_radix(i, &[4, 3, 3]);
        let n = [0usize, 1, 2, 7][d[0] as usize];
        (VERSION_KINDS[d[2] as usize], version_schemas()[d[1] as usize].clone(), n)
    }
}
impl Space for Versions {
    fn len(&self) -> u64 {
        if self.thorough {
            7 * 6 * 8
        } else {
            36
        }
    }
    fn describe(&self, i: u64) -> J {
        let (hk, s, n) = self.case(i);
        json!({"container": hk.name(), "fields": s.labels(), "key": s.key, "records": n})
    }
    fn run(&self, i: u64) -> CaseResult {
        let (hk, sch, n) = self.case(i);
        let mut r = CaseResult::new();
        r.key = format!("v{i}");
        r.nontrivial = n > 0;
        let sc = Scratch::new("c17");
        let out;
        {
            let mut cx = Cx { r: &mut r, seen: HashSet::new(), flags: BTreeSet::new(), sc: &sc, all_classes: true, rot: 0, typed: false, deep: false };
            let truth = gen_table(&sch, n, KeyClass::Unsorted, n);
            let em = dbcref::emit(&sch.fields, &truth, Layout::Pooled, hk);
            let ctx = format!("{} (emitted header length {}) schema {} n={}", hk.name(), em.header_len, sch.render(), n);
            let tag = match hk {
                HeaderKind::Wdb2Basic | HeaderKind::Wdb2BasicAtThreshold => "WDB2 table (basic header)",
                HeaderKind::Wdb2Ext | HeaderKind::Wdb2ExtAboveThreshold => "WDB2 table (extended header)",
                HeaderKind::Wdb5 => "WDB5 table",
                _ => "WDB2 table (extended header + index arrays)",
            };
            // judged: agreement of lazy / mmap / parallel / cached strings with the library's own eager
            // parse of the same file; NOT judged: the eager parse against the emitter's table
            check_file(&mut cx, tag, &em.bytes, &sch, &truth, "", &ctx, if self.thorough { &THREAD_CLASSES_DEEP } else { &THREAD_CLASSES });
            cx.r.count("tables_emitted", 1);
            out = if hk == HeaderKind::Wdb5 {
                if cx.r.viols.is_empty() { "wdb5-all-paths-agree".to_string() } else { "wdb5-paths-disagree".to_string() }
            } else if cx.r.viols.is_empty() {
                "wdb2-all-paths-agree".to_string()
            } else {
                "wdb2-paths-disagree".to_string()
            };
        }
        r.outcome = out;
        r
    }
}

// ------------------------------------------------------------------ stand-alone reproductions

/// `--repro wdb5-offsets`: the lazy / parallel / mmap-string-block paths on a WDB5 container
/// (public API only; the table is two records of [UInt32, String])
fn repro_wdb5() {
    println!("== WDB5 container: lazy / parallel / mmap string_block assume the 20-byte WDBC header");
    let mut sch = Schema::new("T");
    sch.add_field(SchemaField::new("id", FieldType::UInt32));
    sch.add_field(SchemaField::new("name", FieldType::String));
    let mut f = b"WDB5".to_vec();
    // record_count, field_count, record_size, string_block_size, table hash, layout hash, min id, max id, locale, copy table size
    for x in [2u32, 2, 8, 5, 0x1234_5678, 0x9ABC_DEF0, 1, 2, 0xFFFF_FFFF, 0] {
        f.extend_from_slice(&x.to_le_bytes());
    }
    f.extend_from_slice(&[0, 0, 0, 0]); // flags, id index: 48 bytes of header
    for (id, name) in [(0x11u32, 1u32), (0x22, 3)] {
        f.extend_from_slice(&id.to_le_bytes());
        f.extend_from_slice(&name.to_le_bytes());
    }
    f.extend_from_slice(b"\0a\0b\0");
    let p = DbcParser::parse_bytes(&f).unwrap().with_schema(sch.clone()).unwrap();
    let rs = p.parse_records().unwrap();
    println!("   eager   : {:?}", rs.records().iter().map(raw_rec).collect::<Vec<_>>());
    let sb = Arc::new(rs.string_block().clone());
    let lazy = LazyDbcParser::new(p.data(), p.header(), p.schema(), sb.clone());
    println!("   lazy    : {:?}", lazy.record_iterator().map(|x| x.map(|r| raw_rec(&r)).map_err(|e| e.to_string())).collect::<Vec<_>>());
    println!("   lazy[1] : {:?}", lazy.get_record(1).map(|r| raw_rec(&r)).map_err(|e| e.to_string()));
    let pr = wow_cdbc::parse_records_parallel(&f, p.header(), p.schema(), sb);
    println!("   parallel: {:?}", pr.map(|s| s.records().iter().map(raw_rec).collect::<Vec<_>>()).map_err(|e| e.to_string()));
    let sc = Scratch::new("c17-repro");
    let path = sc.path("t.db2");
    std::fs::write(&path, &f).unwrap();
    let mm = MmapDbcFile::open(&path).unwrap();
    println!("   eager string block {:?}, mmap string_block() {:?}", rs.string_block().data(), mm.string_block().map(|b| b.data().to_vec()).map_err(|e| e.to_string()));
    println!("   expected: all four lines show [[U32(17), Ref(1)], [U32(34), Ref(3)]] and both string blocks are [0, 97, 0, 98, 0]");
}

fn repro() {
    use std::sync::Arc;
    println!("== F1: DbcWriter output for a schema with an array field is refused by with_schema");
    let mut sch = Schema::new("T");
    sch.add_field(SchemaField::new_array("a", FieldType::UInt32, 2));
    // a 1-record table, 8 bytes per record, header field_count = 2 (array elements)
    let mut f = b"WDBC".to_vec();
    for x in [1u32, 2, 8, 1] {
        f.extend_from_slice(&x.to_le_bytes());
    }
    f.extend_from_slice(&[7, 0, 0, 0, 9, 0, 0, 0, 0]);
    let rs = DbcParser::parse_bytes(&f).unwrap().with_schema(sch.clone()).unwrap().parse_records().unwrap();
    let mut cur = Cursor::new(Vec::new());
    DbcWriter::new(&mut cur).with_schema(sch.clone()).write_records(&rs).unwrap();
    let out = cur.into_inner();
    println!("   input  header field_count = {}", u32::from_le_bytes(f[8..12].try_into().unwrap()));
    println!("   output header field_count = {}", u32::from_le_bytes(out[8..12].try_into().unwrap()));
    match DbcParser::parse_bytes(&out).unwrap().with_schema(sch) {
        Ok(_) => println!("   parse back: accepted (defect not present)"),
        Err(e) => println!("   parse back: REFUSED: {e}"),
    }

    println!("== F2: key lookups on an Int32 key field never find a record");
    let mut sch = Schema::new("T");
    sch.add_field(SchemaField::new("id", FieldType::Int32));
    sch.set_key_field("id");
    let mut f = b"WDBC".to_vec();
    for x in [1u32, 1, 4, 1] {
        f.extend_from_slice(&x.to_le_bytes());
    }
    f.extend_from_slice(&[5, 0, 0, 0, 0]);
    let mut rs = DbcParser::parse_bytes(&f).unwrap().with_schema(sch).unwrap().parse_records().unwrap();
    println!("   with_schema accepted the Int32 key; record 0 = {:?}", rs.get_record(0).unwrap().values());
    println!("   get_record_by_key(5) = {:?}", rs.get_record_by_key(5).map(|r| r.values().to_vec()));
    println!("   create_sorted_key_map() = {:?}", rs.create_sorted_key_map().is_ok());
    println!("   get_record_by_key_binary_search(5) = {:?}", rs.get_record_by_key_binary_search(5).map(|r| r.values().to_vec()));

    println!("== F4: DbcWriter loses the text of strings that sit in a String array field");
    let mut sch = Schema::new("T");
    sch.add_field(SchemaField::new_array("names", FieldType::String, 1));
    let mut f = b"WDBC".to_vec();
    for x in [1u32, 1, 4, 3] {
        f.extend_from_slice(&x.to_le_bytes());
    }
    f.extend_from_slice(&[1, 0, 0, 0]); // names[0] -> offset 1
    f.extend_from_slice(b"\0a\0");
    let rs = DbcParser::parse_bytes(&f).unwrap().with_schema(sch.clone()).unwrap().parse_records().unwrap();
    println!("   source : names[0] = {:?}", rs.get_string(StringRef::new(1)));
    let mut cur = Cursor::new(Vec::new());
    DbcWriter::new(&mut cur).with_schema(sch.clone()).write_records(&rs).unwrap();
    let out = cur.into_inner();
    println!("   written: record bytes {:?}, string block {:?}", &out[20..24], &out[24..]);
    let back = DbcParser::parse_bytes(&out).unwrap().with_schema(sch).unwrap().parse_records().unwrap();
    if let Some(Value::Array(v)) = back.get_record(0).unwrap().get_value(0) {
        if let Value::StringRef(r) = &v[0] {
            println!("   parsed back: names[0] = {:?}", back.get_string(*r));
        }
    }

    println!("== F3/F5: lazy / parallel / mmap string_block ignore the WDB2 header length; basic header length off by 4");
    let sch = Sch { fields: vec![Kind { ty: Ty::U32, arr: None }, Kind { ty: Ty::Str, arr: None }], key: None };
    let truth = vec![vec![Cell::U32(0x11), Cell::Str("a".into())], vec![Cell::U32(0x22), Cell::Str("b".into())]];
    let em = dbcref::emit(&sch.fields, &truth, Layout::Pooled, HeaderKind::Wdb2Basic);
    let p = DbcParser::parse_bytes(&em.bytes).unwrap().with_schema(lib_schema(&sch)).unwrap();
    let rs = p.parse_records().unwrap();
    println!("   eager   : {:?}", rs.records().iter().map(raw_rec).collect::<Vec<_>>());
    let sb = Arc::new(rs.string_block().clone());
    let lazy = LazyDbcParser::new(p.data(), p.header(), p.schema(), sb.clone());
    println!("   lazy    : {:?}", lazy.record_iterator().map(|x| x.map(|r| raw_rec(&r)).map_err(|e| e.to_string())).collect::<Vec<_>>());
    let pr = wow_cdbc::parse_records_parallel(&em.bytes, p.header(), p.schema(), sb);
    println!("   parallel: {:?}", pr.map(|s| s.records().iter().map(raw_rec).collect::<Vec<_>>()).map_err(|e| e.to_string()));
    let sc = Scratch::new("c17-repro");
    let path = sc.path("t.db2");
    std::fs::write(&path, &em.bytes).unwrap();
    let mm = MmapDbcFile::open(&path).unwrap();
    println!("   eager string block {:?}, mmap string_block() {:?}", rs.string_block().data(), mm.string_block().map(|b| b.data().to_vec()).map_err(|e| e.to_string()));
}

// ------------------------------------------------------------------ driver

fn build(name: &str, _arg: &str, tier: Tier) -> Box<dyn Space> {
    // the pool of 7 threads exists in the thorough tier only
    POOL_COUNT.store(tier.pick(3, 4), std::sync::atomic::Ordering::Relaxed);
    pools();
    match name {
        "main" => Box::new(Main { maxlen: tier.pick(3, 4), treat: tier.pick(Treat::Base, Treat::BaseAllLayouts) }),
        "extra" => Box::new(ExtraSpace::new(tier)),
        "versions" => Box::new(Versions { thorough: tier == Tier::Thorough }),
        // thorough tier only
        "deep" => Box::new(Main { maxlen: 3, treat: Treat::Deep(&N_DEEP) }),
        "deep4" => Box::new(Deep4),
        "five" => Box::new(Five),
        "ladder" => Box::new(Ladder),
        "tables" => Box::new(Tables::new()),
        _ => panic!("space {name}"),
    }
}

fn sweep_stale_scratch() {
    // worker processes that died inside a case cannot remove their scratch dir
    if let Ok(rd) = std::fs::read_dir("/dev/shm") {
        for e in rd.flatten() {
            let name = e.file_name().to_string_lossy().to_string();
            if let Some(pid) = name.strip_prefix("verif-c17-") {
                if pid.chars().all(|c| c.is_ascii_digit()) && !std::path::Path::new(&format!("/proc/{pid}")).exists() {
                    let _ = std::fs::remove_dir_all(e.path());
                }
            }
        }
    }
}

fn main() {
    if let Some(p) = std::env::args().position(|a| a == "--repro") {
        // --repro [name]: stand-alone reproductions against the public API
        match std::env::args().nth(p + 1).as_deref() {
            Some("wdb5-offsets") => repro_wdb5(),
            _ => {
                repro();
                repro_wdb5();
            }
        }
        return;
    }
    if std::env::args().any(|a| a == "--bench") {
        // timing aid: run a slice of the main space in-process
        install_panic_hook();
        let sp = build("main", "", Tier::Thorough);
        for (lo, hi) in [(0u64, 36u64), (36, 36 + 1296), (1332, 1332 + 2000), (47988, 47988 + 2000)] {
            let t = std::time::Instant::now();
            let mut v = 0;
            for i in lo..hi {
                v += sp.run(i).viols.len();
            }
            eprintln!("cases {lo}..{hi}: {:.3} ms/case, {v} viols", t.elapsed().as_secs_f64() * 1000.0 / (hi - lo) as f64);
            let names = ["eager+cached", "lazy", "mmap", "parallel", "keys", ""];
            for k in 0..5 {
                eprintln!("    {:14} {:.3} ms/case", names[k], T_SEC[k].swap(0, std::sync::atomic::Ordering::Relaxed) as f64 / 1e6 / (hi - lo) as f64);
            }
        }
        return;
    }
    let Mode::Supervisor(mut c) = start("C17", "exploration", build) else { return };
    let maxlen = c.tier.pick(3, 4);
    c.rule = format!(
        "space main: EVERY schema of 1..={maxlen} fields over 36 field kinds (9 types x {{scalar,[1],[2],[3]}}; four-field schemas over the 27 kinds without [1]); per schema every key option (none + each scalar UInt32/Int32 position) x record sets n in {{0,1,2,7}} (with a key: x key order {{sorted,unsorted,duplicate}}, keys straddling the sign bit) x alternating reference string layouts; cell values cycle per-type boundary pools, strings cycle {{\"\",a,ü,300z,ab,b}} so that duplicates occur inside and across columns. Each table: independent emitter -> parse (eager checked against ground truth) -> DbcWriter (explicit and record-set schema) -> independent reader (size identity, record_size, no string stored twice, values) -> parse back -> eager / cached strings / lazy iterator / lazy get_record / mmap (file in scratch dir) / parse_records_parallel under rayon pools of 4(global),1,2,3 threads -> hashed and binary-search key lookups for every present key and a set of absent keys on the eager, mmap and parallel record sets. space extra: three 24-field schemas x n in {{0,1,2,7,10000}} x key classes x layouts; single String column tables; 36 one-field schemas with the key on field 0 (refusable). space versions: 3 schemas x n in {{0,1,2,7}} x 3 WDB2 header variants: only agreement of the lazy / mmap / parallel / cached-string paths with the library's own eager parse of the same file is judged (the eager parse is not compared with the emitter's table). A case (= one schema, all its key options and record sets) is non-trivial when at least one table with n>=1 was written and parsed back; distinct by field list."
    );
    c.assume("ground truth, emitter and reader (props/c17/src/dbcref.rs) are written from /repo/docs/src/formats/database/dbc.md and share no code with wow-cdbc");
    c.assume("RecordSet has no public constructor: the writer's input is the library's own parse of the reference-emitted file, and that parse is itself judged against the ground truth first");
    c.assume("field_count of a reference-emitted header counts array elements (each 32-bit column is a field in the format doc; this is also what Schema::validate demands)");
    c.assume("Bool cells are emitted as 0/1 only; floats are compared by bit pattern (quiet NaN with payload included, no signalling NaN)");
    c.assume("key lookups: a lookup must return a record whose key field equals the probe for every present key; for an absent key it must not return a record; with duplicate keys any carrier is accepted; an Int32 key k is looked up as k as u32 (Key = u32)");
    c.assume("a key on a non-32-bit or array field may be refused by with_schema (counted, not judged); out-of-range indices are not probed");
    c.assume("the parallel path runs on the real rayon (no schedule exploration; the loom stand-in of DESIGN.md is out of scope of this binary)");
    c.assume("after the known refusal of array schemas the written header's field_count is patched to the element count so that the remaining content of the written file is still judged");
    let thorough = c.tier == Tier::Thorough;
    if thorough {
        c.rule.push_str(&format!(
            " THOROUGH TIER ADDITIONS. In space main a schema with String cells gets every record set under each of the four reference string layouts (other schemas: alternating pooled / copy-per-cell as in the quick tier). The versions space becomes 8 containers (WDB2 basic/extended/index arrays of 3, build threshold 12880 and 12881, index arrays of 1 and of 256 entries, WDB5) x 6 schemas x n in {:?} with pools of 4(global),1,2,3,7 threads. Deep treatment of a table (spaces deep, ladder, tables) = the steps above with parse_records_parallel under all five pools on both files, plus: Record::get_value_by_name against get_value on the eager, lazy and parallel records; lazy get_record past the end; the writer fed with explicit and record-set schema from every record-set state (cached string block, after create_sorted_key_map, mmap set, parallel set) and, as second write, from the eager / mmap / parallel parse of its own first output (write->parse->write->parse): an output byte-identical to the judged first output is accepted, any other output is judged in full like the first; schema-less access (tables whose cells are all 32 bits wide): eager, lazy iterator, lazy get_record, mmap parser and parallel parse without schema must return the 32-bit words of the records (independent reader) on the reference file and on the first output, DbcWriter with a flat UInt32 schema must reproduce the record bytes, size identity and parse back to the same words. Four reference string layouts: pooled-sorted, copy-per-cell, suffix-shared (a string that is a byte suffix of another is referenced inside it; \"\" is referenced at the last terminator), scattered (reverse order with unreferenced filler strings). space deep: EVERY schema of 1..=3 fields over the 36 kinds x every key option x n in {:?} x key order (keyed, n>=2: sorted, unsorted, duplicate) x every layout that yields a different file (4 with a String cell, else 2). space deep4: EVERY four-field schema over 12 kinds (9 scalar types, UInt8[2], UInt16[2], String[2]) x every key option x n in {:?} x key order x every distinguishable layout, deep treatment. space five: EVERY five-field schema over 12 kinds (9 scalar types, UInt8[2], UInt16[2], String[2]) with the record sets of space main. space ladder: field counts 1..=24 x type cycle started at each of the 9 types x 4 array patterns (none; [2] on every third field; [1]/[3] on odd fields with type stride 2; reverse cycle with [4] on every fifth field), key at none and every keyable position, n in {:?}. space tables (one schema, listed tables): array lengths {:?} x 9 element types x 4 shapes (alone; between UInt8 and UInt16; after a UInt32 key and before a String; two arrays before an Int32 key) x n in {{0,1,2,7}}; string pools (1-4 byte UTF-8 / DEL / space / 255 and 256 byte strings; strings of 65535, 65536, 70000 bytes and 65534 bytes + a two-byte sequence; all cells equal; all cells distinct) x 4 string schemas x n in {:?} (64KiB pool: n<=13) x 4 layouts; record counts {:?} x four 24-field schemas (the three of space extra and one of 32-bit cells only) x (no key | key x sorted, unsorted, duplicate with keys straddling the sign bit and guaranteed duplicates) x 4 layouts.",
            VERSION_COUNTS_THOROUGH, N_DEEP, N_DEEP4, N_LADDER, ARRAY_LENS, STRING_COUNTS, COUNT_LADDER
        ));
        c.assume("schema-less access is judged only on tables whose cells are all 32 bits wide (record_size = 4 x header field_count); for packed 8/16-bit tables the schema-less paths are not exercised. A schema-less record set written without any schema is expected to be refused (counted, not judged)");
        c.assume("writer outputs from different record-set states of the same table need not be byte-identical: a differing output is judged in full against the ground truth instead");
        c.assume("array fields of length 0 are legal schema fields (zero elements, zero bytes); tables whose records would be zero bytes long are only built with zero records");
        c.assume("a string reference may point at any byte of the string block and denotes the bytes up to the next terminator (suffix-shared reference layout)");
    }
    let spaces: &[&str] = if thorough { &["main", "extra", "versions", "deep", "deep4", "five", "ladder", "tables"] } else { &["main", "extra", "versions"] };
    // development aid (timing of single spaces); such a run is marked in the evidence
    let only = std::env::var("C17_ONLY_SPACES").ok();
    if let Some(o) = &only {
        c.assume(format!("DEVELOPMENT RUN restricted to the spaces {o}: NOT a complete run of the tier"));
    }
    for s in spaces {
        if only.as_ref().is_some_and(|o| !o.split(',').any(|x| x == *s)) {
            continue;
        }
        c.run_space(s, "");
    }
    sweep_stale_scratch();
    if thorough {
        let t = Tables::new();
        let grp = |g: &str| t.cases.iter().filter(|c| c.group == g).count();
        c.extra_cov.insert(
            "axes_thorough".into(),
            json!({
                "main": {"string_layouts_for_schemas_with_string_cells": 4},
                "deep4": {"schemas": Deep4.len(), "field_kinds": FIVE_KINDS, "fields": 4, "record_counts": N_DEEP4},
                "deep": {"schemas": Main { maxlen: 3, treat: Treat::Deep(&N_DEEP) }.len(), "record_counts": N_DEEP, "key_order_classes": 3, "string_layouts": ["pooled-sorted", "copy-per-cell", "suffix-shared", "scattered-with-filler"],
                         "rayon_thread_classes": [4, 1, 2, 3, 7], "writer_feed_states": ["eager", "eager+cached strings", "eager+sorted key map", "mmap", "parallel", "second write from eager", "second write from mmap", "second write from parallel"],
                         "writer_schema_sources": 2, "schemaless_paths": ["eager", "lazy iterator", "lazy get_record", "mmap parser", "parallel", "write with flat UInt32 schema -> parse"]},
                "five": {"schemas": Five.len(), "field_kinds": FIVE_KINDS, "fields": 5},
                "ladder": {"cases": Ladder.len(), "field_counts": 24, "type_rotations": 9, "array_patterns": 4, "record_counts": N_LADDER},
                "tables": {"array_length_cases": grp("array lengths"), "array_lengths": ARRAY_LENS, "array_element_types": 9, "array_shapes": 4,
                           "string_pool_cases": grp("string pools"), "string_pools": STR_POOLS_THOROUGH.iter().map(|p| p.name()).collect::<Vec<_>>(), "string_schemas": 4, "string_record_counts": STRING_COUNTS,
                           "record_count_cases": grp("record counts"), "record_count_ladder": COUNT_LADDER, "wide_schemas": 4, "key_options": 4},
                "versions": {"containers": VERSION_KINDS_THOROUGH.iter().map(|k| k.name()).collect::<Vec<_>>(), "schemas": 6, "record_counts": VERSION_COUNTS_THOROUGH},
            }),
        );
    }
    c.extra_cov.insert(
        "axes".into(),
        json!({
            "field_types": 9, "array_options": 4, "field_kinds": 36, "max_fields_exhaustive": maxlen,
            "schemas_exhaustive": (1..=maxlen).map(|l| Main::radix(l).pow(l)).sum::<u64>(), "field_kinds_four_field_schemas": 27,
            "record_counts": [0, 1, 2, 7], "record_counts_wide": [0, 1, 2, 7, 10000],
            "key_order_classes": 3, "string_layouts": 2, "string_pool": 6, "wide_schemas": 3,
            "access_paths": ["eager", "eager+cached strings", "lazy iterator", "lazy get_record", "mmap parser", "mmap string_block", "parallel"],
            "rayon_thread_classes": [4, 1, 2, 3], "lookup_methods": ["get_record_by_key", "binary_search(before sort)", "binary_search", "get_record_by_key(after sort)"],
            "wdb2_header_variants": 3,
        }),
    );
    c.finish();
}
