//! Finite alphabet of C17: field kinds, schemas, ground-truth tables (values + texts).
//! Everything here is a pure function of its arguments (no randomness, no hash-map order).

#[derive(Clone, Copy, PartialEq, Eq, Debug)]
pub enum Ty {
    U32,
    I32,
    F32,
    Str,
    Bool,
    U8,
    I8,
    U16,
    I16,
}

/// simplest first
pub const TYS: [Ty; 9] = [Ty::U32, Ty::I32, Ty::F32, Ty::Str, Ty::Bool, Ty::U8, Ty::I8, Ty::U16, Ty::I16];

impl Ty {
    /// on-disk width of one element (format doc: 32-bit cells; the crate adds 8/16-bit cells)
    pub fn size(self) -> usize {
        match self {
            Ty::U8 | Ty::I8 => 1,
            Ty::U16 | Ty::I16 => 2,
            _ => 4,
        }
    }
    pub fn name(self) -> &'static str {
        match self {
            Ty::U32 => "UInt32",
            Ty::I32 => "Int32",
            Ty::F32 => "Float32",
            Ty::Str => "String",
            Ty::Bool => "Bool",
            Ty::U8 => "UInt8",
            Ty::I8 => "Int8",
            Ty::U16 => "UInt16",
            Ty::I16 => "Int16",
        }
    }
}

/// One schema field: element type and `None` (scalar) or `Some(len)` (array field).
#[derive(Clone, Copy, PartialEq, Eq, Debug)]
pub struct Kind {
    pub ty: Ty,
    pub arr: Option<usize>,
}

pub const ARRS: [Option<usize>; 4] = [None, Some(1), Some(2), Some(3)];
pub const NKINDS: u64 = 36;

impl Kind {
    /// kind index 0..36: scalars first (0..9), then [1], [2], [3]
    pub fn from_index(k: u64) -> Kind {
        Kind { ty: TYS[(k % 9) as usize], arr: ARRS[(k / 9) as usize] }
    }
    pub fn elements(self) -> usize {
        self.arr.unwrap_or(1)
    }
    pub fn size(self) -> usize {
        self.ty.size() * self.elements()
    }
    /// exact rendering for descriptors
    pub fn label(self) -> String {
        match self.arr {
            None => self.ty.name().to_string(),
            Some(n) => format!("{}[{}]", self.ty.name(), n),
        }
    }
    /// class rendering for symptom strings (no numbers)
    pub fn class(self) -> String {
        match self.arr {
            None => self.ty.name().to_string(),
            Some(_) => format!("{}[array]", self.ty.name()),
        }
    }
    pub fn keyable(self) -> bool {
        self.arr.is_none() && matches!(self.ty, Ty::U32 | Ty::I32)
    }
}

#[derive(Clone, Debug)]
pub struct Sch {
    pub fields: Vec<Kind>,
    pub key: Option<usize>,
}

impl Sch {
    pub fn record_size(&self) -> usize {
        self.fields.iter().map(|k| k.size()).sum()
    }
    pub fn elements(&self) -> usize {
        self.fields.iter().map(|k| k.elements()).sum()
    }
    pub fn labels(&self) -> Vec<String> {
        self.fields.iter().map(|k| k.label()).collect()
    }
    pub fn render(&self) -> String {
        format!("[{}] key={:?}", self.labels().join(","), self.key)
    }
}

/// A value of the ground truth (strings as text) or of a library record (`Ref` = raw offset).
#[derive(Clone, PartialEq, Debug)]
pub enum Cell {
    U32(u32),
    I32(i32),
    /// float by bit pattern (NaN payloads and -0.0 are compared exactly)
    F32(u32),
    Str(String),
    Ref(u32),
    Bool(bool),
    U8(u8),
    I8(i8),
    U16(u16),
    I16(i16),
    Arr(Vec<Cell>),
}

pub type Table = Vec<Vec<Cell>>;

pub const STR_POOL_LEN: usize = 6;
/// "", "a", non-ASCII, long, and a pair where one string is a suffix of the other.
/// With 7 records the 7th cell of a column repeats the 1st (duplicate inside one column).
pub fn str_pool(i: usize) -> String {
    match i % STR_POOL_LEN {
        0 => String::new(),
        1 => "a".to_string(),
        2 => "\u{fc}".to_string(),
        3 => "z".repeat(300),
        4 => "ab".to_string(),
        _ => "b".to_string(),
    }
}

/// String pools of the thorough tier (the quick tier uses `Base` = `str_pool` only).
#[derive(Clone, Copy, PartialEq, Eq, Debug)]
pub enum StrPool {
    /// `str_pool`
    Base,
    /// 1/2/3/4-byte UTF-8 sequences, DEL, space, suffix pairs, 255- and 256-byte strings
    Utf8,
    /// strings around 2^16 bytes (65535, 65536, 70000; one ends in a two-byte sequence)
    Long,
    /// every cell carries the same text
    Equal,
    /// every cell carries its own text
    Distinct,
}
pub const STR_POOLS_THOROUGH: [StrPool; 4] = [StrPool::Utf8, StrPool::Long, StrPool::Equal, StrPool::Distinct];
impl StrPool {
    pub fn name(self) -> &'static str {
        match self {
            StrPool::Base => "base",
            StrPool::Utf8 => "utf8-widths",
            StrPool::Long => "around-64KiB",
            StrPool::Equal => "all-equal",
            StrPool::Distinct => "all-distinct",
        }
    }
    /// text of cell (record r, field f, element e) whose pool index is `i`
    pub fn text(self, i: usize, r: usize, f: usize, e: usize) -> String {
        match self {
            StrPool::Base => str_pool(i),
            StrPool::Utf8 => match i % 11 {
                0 => String::new(),
                1 => "\u{e9}".to_string(),
                2 => "\u{20ac}".to_string(),
                3 => "\u{1d11e}".to_string(),
                4 => "a\u{20ac}b".to_string(),
                5 => "ab".to_string(),
                6 => "b".to_string(),
                7 => "\u{7f}".to_string(),
                8 => " ".to_string(),
                9 => "a".repeat(255),
                _ => "a".repeat(256),
            },
            StrPool::Long => match i % 5 {
                0 => "x".repeat(65535),
                1 => String::new(),
                2 => "y".repeat(65536),
                3 => "x".repeat(70000),
                _ => format!("{}\u{e9}", "z".repeat(65534)),
            },
            StrPool::Equal => "same text".to_string(),
            StrPool::Distinct => format!("s{r}.{f}.{e}"),
        }
    }
}

const U32P: [u32; 7] = [0, 1, 0x7FFF_FFFF, 0x8000_0000, 0xFFFF_FFFF, 0x0102_0304, 256];
const I32P: [i32; 7] = [0, 1, -1, i32::MIN, i32::MAX, 0x0102_0304, -256];
/// 0.0, -0.0, 1.0, -1.5, MAX, smallest subnormal, +inf, quiet NaN with payload
const F32P: [u32; 8] = [0, 0x8000_0000, 0x3F80_0000, 0xBFC0_0000, 0x7F7F_FFFF, 1, 0x7F80_0000, 0x7FC1_2345];
const U8P: [u8; 5] = [0, 1, 0x7F, 0x80, 0xFF];
const I8P: [i8; 5] = [0, 1, -1, -128, 127];
const U16P: [u16; 7] = [0, 1, 0x00FF, 0x0100, 0x7FFF, 0x8000, 0xFFFF];
const I16P: [i16; 7] = [0, 1, -1, i16::MIN, i16::MAX, 0x0102, -256];

pub fn pool(ty: Ty, i: usize) -> Cell {
    match ty {
        Ty::U32 => Cell::U32(U32P[i % U32P.len()]),
        Ty::I32 => Cell::I32(I32P[i % I32P.len()]),
        Ty::F32 => Cell::F32(F32P[i % F32P.len()]),
        Ty::Str => Cell::Str(str_pool(i)),
        Ty::Bool => Cell::Bool(i % 2 == 1),
        Ty::U8 => Cell::U8(U8P[i % U8P.len()]),
        Ty::I8 => Cell::I8(I8P[i % I8P.len()]),
        Ty::U16 => Cell::U16(U16P[i % U16P.len()]),
        Ty::I16 => Cell::I16(I16P[i % I16P.len()]),
    }
}

#[derive(Clone, Copy, PartialEq, Eq, Debug)]
pub enum KeyClass {
    Sorted,
    Unsorted,
    Dup,
}
impl KeyClass {
    pub fn name(self) -> &'static str {
        match self {
            KeyClass::Sorted => "sorted",
            KeyClass::Unsorted => "unsorted",
            KeyClass::Dup => "duplicate",
        }
    }
}

/// small key lists straddle the sign bit so that a signed comparison or a signed sort is visible
const K_UNSORTED: [u32; 7] = [5, 0x8000_0000, 1, 0xFFFF_FFFF, 0, 0x7FFF_FFFF, 3];
const K_DUP: [u32; 7] = [5, 5, 0x8000_0000, 1, 5, 0x8000_0000, 1];

/// key (as 32 bits) of record `i` in a table of `n` records
pub fn key_bits(n: usize, class: KeyClass, i: usize) -> u32 {
    if n <= 7 {
        match class {
            KeyClass::Unsorted => K_UNSORTED[i],
            KeyClass::Dup => K_DUP[i],
            KeyClass::Sorted => {
                let mut v: Vec<u32> = K_UNSORTED[..n].to_vec();
                v.sort();
                v[i]
            }
        }
    } else if n < 10_000 {
        // medium tables (thorough tier): every class straddles the sign bit; duplicates are guaranteed
        let i = i as u64;
        match class {
            // ascending as unsigned numbers, the upper half has the top bit
            KeyClass::Sorted => (i * 3) as u32 | if i as usize >= n / 2 { 0x8000_0000 } else { 0 },
            // distinct (i < 10007), every third key has the top bit
            KeyClass::Unsorted => ((i * 7919 + 13) % 10007) as u32 | if i % 3 == 0 { 0x8000_0000 } else { 0 },
            // n/2 residues for n records; the top bit is a function of the residue
            KeyClass::Dup => {
                let k = ((i * 7919) % (n as u64 / 2)) as u32;
                if k % 4 == 3 {
                    k | 0x8000_0000
                } else {
                    k
                }
            }
        }
    } else {
        let i = i as u64;
        match class {
            KeyClass::Sorted => (i * 3) as u32,
            // 7919 is coprime to the prime 10007: distinct for i < 10007; every 1000th key has the top bit
            KeyClass::Unsorted => {
                let k = ((i * 7919 + 13) % 10007) as u32;
                if i % 1000 == 0 {
                    k | 0x8000_0000
                } else {
                    k
                }
            }
            KeyClass::Dup => ((i * 7919) % 5003) as u32,
        }
    }
}

/// Ground-truth table: cell (r, f, e) takes pool value number r + 3f + 5e + variant;
/// the key field (if any) takes the key sequence of the class.
pub fn gen_table(s: &Sch, n: usize, class: KeyClass, variant: usize) -> Table {
    gen_table_with(s, n, class, variant, StrPool::Base)
}

/// `gen_table` with the texts of String cells taken from `sp`
pub fn gen_table_with(s: &Sch, n: usize, class: KeyClass, variant: usize, sp: StrPool) -> Table {
    let cell = |ty: Ty, i: usize, r: usize, f: usize, e: usize| -> Cell {
        if ty == Ty::Str && sp != StrPool::Base {
            Cell::Str(sp.text(i, r, f, e))
        } else {
            pool(ty, i)
        }
    };
    let mut t = Vec::with_capacity(n);
    for r in 0..n {
        let mut rec = Vec::with_capacity(s.fields.len());
        for (f, k) in s.fields.iter().enumerate() {
            if s.key == Some(f) && k.keyable() {
                let b = key_bits(n, class, r);
                rec.push(if k.ty == Ty::U32 { Cell::U32(b) } else { Cell::I32(b as i32) });
                continue;
            }
            match k.arr {
                None => rec.push(cell(k.ty, r + 3 * f + variant, r, f, 0)),
                Some(len) => rec.push(Cell::Arr((0..len).map(|e| cell(k.ty, r + 3 * f + 5 * e + variant, r, f, e)).collect())),
            }
        }
        t.push(rec);
    }
    t
}

pub fn cell_key_bits(c: &Cell) -> Option<u32> {
    match c {
        Cell::U32(x) => Some(*x),
        Cell::I32(x) => Some(*x as u32),
        _ => None,
    }
}

/// the three 24-field schemas of the plan
pub fn wide_schema(w: usize, with_key: bool) -> Sch {
    let mut fields = vec![];
    let key;
    match w {
        0 => {
            // every scalar type, cycling; UInt32 key first
            for i in 0..24 {
                fields.push(Kind { ty: TYS[i % 9], arr: None });
            }
            key = 0;
        }
        1 => {
            // arrays of every length mixed with scalars; Int32 key in the middle
            for i in 0..24 {
                fields.push(Kind { ty: TYS[(i * 5) % 9], arr: ARRS[i % 4] });
            }
            fields[12] = Kind { ty: Ty::I32, arr: None };
            key = 12;
        }
        3 => {
            // thorough tier: 32-bit cells only (schema-less access applies), arrays of two; UInt32 key at 5
            for i in 0..24 {
                fields.push(Kind { ty: TYS[i % 5], arr: if i % 6 == 4 { Some(2) } else { None } });
            }
            key = 5;
        }
        _ => {
            // string-heavy with 8/16-bit cells so that nothing is 4-byte aligned; UInt32 key last
            for i in 0..24 {
                let ty = match i % 3 {
                    0 => Ty::Str,
                    1 => {
                        if i % 2 == 0 {
                            Ty::U8
                        } else {
                            Ty::I8
                        }
                    }
                    _ => {
                        if i % 2 == 0 {
                            Ty::U16
                        } else {
                            Ty::I16
                        }
                    }
                };
                fields.push(Kind { ty, arr: if i % 7 == 3 { Some(2) } else { None } });
            }
            fields[23] = Kind { ty: Ty::U32, arr: None };
            key = 23;
        }
    }
    Sch { fields, key: if with_key { Some(key) } else { None } }
}
