//! C18 — WDT and WDL map files survive write -> parse; tile <-> world coordinates invert.
//!
//! Bounded exhaustive exploration of map definitions (see `c.rule` in `main`), judged by
//!  * an independent chunk walker (`walker.rs`, written from /repo/docs) over the written bytes,
//!  * field-by-field comparison of `read(write(f))` with the definition,
//!  * byte identity of the second write,
//!  * tile-data preservation of `convert_wdt` / `convert_wdl_file` for all version pairs,
//!  * `world_to_tile(tile_to_world(x,y)) == (x,y)` for all 4096 tiles.
//!
//! `c18 --repro coords` prints a stand-alone reproduction of the coordinate finding.
mod walker;
mod wdl;
mod wdt;

use serde_json::{json, Value};
use vcore::*;

/// one case per tile
struct Coords;
const TILE: f64 = 533.33333; // docs/src/resources/coordinates.md, docs/src/formats/world-data/wdt.md
impl Space for Coords {
    fn len(&self) -> u64 {
        4096
    }
    fn describe(&self, i: u64) -> Value {
        json!({"space": "coords", "tile_x": i % 64, "tile_y": i / 64})
    }
    fn run(&self, i: u64) -> CaseResult {
        let (x, y) = ((i % 64) as u32, (i / 64) as u32);
        let mut r = CaseResult::new();
        r.key = format!("coords:{x},{y}");
        r.nontrivial = true;
        let (wx, wy) = wow_wdt::tile_to_world(x, y);
        // documented formula: world_x = (32 - tile_y) * TILE, world_y = (32 - tile_x) * TILE (corner of the tile)
        let (rx, ry) = ((32.0 - y as f64) * TILE, (32.0 - x as f64) * TILE);
        if (wx as f64 - rx).abs() > 0.05 || (wy as f64 - ry).abs() > 0.05 {
            r.viol("coords: tile_to_world differs from the documented formula (axis mapping / tile size)", format!("tile ({x},{y}) got ({wx},{wy}) documented ({rx:.3},{ry:.3})"));
        }
        let (tx, ty) = wow_wdt::world_to_tile(wx, wy);
        r.count("coords_inversions", 1);
        if (tx, ty) == (x, y) {
            r.outcome = "inverts".into();
        } else if (tx == x || tx + 1 == x) && (ty == y || ty + 1 == y) {
            r.outcome = "lands on lower neighbour".into();
            r.viol(
                "coords: world_to_tile(tile_to_world(x,y)) returns the adjacent lower tile index (f32 division truncated at the tile edge)",
                format!("tile ({x},{y}) -> world ({wx},{wy}) -> tile ({tx},{ty})"),
            );
        } else {
            r.outcome = "lands elsewhere".into();
            r.viol("coords: world_to_tile(tile_to_world(x,y)) returns a non-adjacent tile (axis swap / scale / offset)", format!("tile ({x},{y}) -> world ({wx},{wy}) -> tile ({tx},{ty})"));
        }
        // interior point of the tile (robust against edge rounding): separates formula defects from the edge defect
        let (cx, cy) = ((rx - TILE / 2.0) as f32, (ry - TILE / 2.0) as f32);
        let (mx, my) = wow_wdt::world_to_tile(cx, cy);
        if (mx, my) != (x, y) {
            r.viol("coords: world_to_tile(centre of tile) is not that tile (axis swap / scale / offset)", format!("tile ({x},{y}) centre ({cx},{cy}) -> ({mx},{my})"));
        }
        r
    }
}

fn build(name: &str, _arg: &str, tier: Tier) -> Box<dyn Space> {
    match name {
        "coords" => Box::new(Coords),
        "wdt_main" => Box::new(wdt::WdtRoundtrip::main(tier)),
        "wdt_single" => Box::new(wdt::WdtRoundtrip::single(tier)),
        "wdt_flags" => Box::new(wdt::WdtRoundtrip::flags(tier)),
        "wdt_conv" => Box::new(wdt::WdtConv::new(tier)),
        "wdl_main" => Box::new(wdl::WdlRoundtrip::main(tier)),
        "wdl_single" => Box::new(wdl::WdlRoundtrip::single(tier)),
        "wdl_pairs" => Box::new(wdl::WdlPairs::new(tier)),
        "wdl_conv" => Box::new(wdl::WdlConv::new(tier)),
        _ => panic!("space {name}"),
    }
}

fn repro_coords() {
    println!("// stand-alone reproduction: wow_wdt::world_to_tile(tile_to_world(x, y)) != (x, y)");
    let mut bad = 0;
    let mut first = None;
    for y in 0..64u32 {
        for x in 0..64u32 {
            let (wx, wy) = wow_wdt::tile_to_world(x, y);
            let t = wow_wdt::world_to_tile(wx, wy);
            if t != (x, y) {
                bad += 1;
                if first.is_none() {
                    first = Some((x, y, wx, wy, t));
                }
            }
        }
    }
    if let Some((x, y, wx, wy, t)) = first {
        println!("first: tile_to_world({x},{y}) = ({wx},{wy}); world_to_tile({wx},{wy}) = {:?}  (expected ({x},{y}))", t);
    }
    let bad_axis: Vec<u32> = (0..64u32).filter(|&k| wow_wdt::world_to_tile(0.0, wow_wdt::tile_to_world(k, 0).1).0 != k).collect();
    println!("{bad} of 4096 tiles do not invert; per-axis indices that come back as index-1: {:?}", bad_axis);
}

fn main() {
    let args: Vec<String> = std::env::args().collect();
    if args.get(1).map(|s| s.as_str()) == Some("--repro") {
        match args.get(2).map(|s| s.as_str()) {
            Some("coords") | None => repro_coords(),
            Some(o) => eprintln!("unknown repro {o}"),
        }
        return;
    }
    let Mode::Supervisor(mut c) = start("C18", "exploration", build) else { return };
    let tier = c.tier;
    c.rule = "WDT: case = (version Classic..BfA x MAID mode [BfA only: none / 8 sections+flag+header ids / 5 sections / chunk without flag / flag without chunk]) x tile grid (14 patterns: empty, full, rows, columns, checker, L-shape, corners, asymmetric pair, triangle, sparse; plus every single tile of the 4096) x value mode (plain / hashed flags+area ids also on absent tiles, distinct header words) x MPHD flag set (quick: none, each single bit, all, 2 alternating; thorough: + all bit pairs; space wdt_flags: quick all words with <=2 of the 16 bits, thorough all 65536 words) x object shape (8: terrain with no / empty / named MWMO, terrain+MODF, WMO-only with 0/1/3 names and placements, boundary floats). Each case: build through the public API, write, walk the bytes independently, read back, compare every field, write again. wdt_conv: every (from,to) of 8x8 versions (+BfA-with-MAID source) x grids x values x 4 flag sets x 8 object shapes: MAIN entries unchanged, converted file round-trips and its bytes hold the source tiles. WDL: versions Vanilla..Legion x tile set (same 14 patterns; every single tile; wdl_pairs: ordered pairs of tiles, first tile (with holes) from the 4 corners + an asymmetric lattice [quick 2x2, thorough 16x16], second tile (without holes) each of the other 4095) x heights (zeros / ramp with i16 extremes / hashed per tile) x holes (none / all default / hashed on all / hashed on a third of the tiles; versions with MAHO) x model shapes (names,placements in {0,1,3}; Legion ML chunks {0,1,3}); wdl_conv: 6x6 version pairs. coords: all 4096 tiles. A case is non-trivial unless it is the all-empty file; distinct by its axis tuple.".into();
    c.assume("content equality is judged field by field on bit patterns; fields the writer recomputes or the reader re-derives are excluded: WDL map_tile_offsets and chunks list, WDT version_config (the reader re-detects a version from chunk presence), and the MPHD something/unused <-> file-id aliasing (the 7 header dwords are compared under the interpretation selected by flag 0x200)");
    c.assume("WDT MWMO follows the documented version rule: a terrain map's MWMO list is not emitted from Cataclysm on; the definition's expected content after read is adjusted by that rule (non-empty terrain name lists dropped this way are counted, not judged)");
    c.assume("inputs are valid definitions: names are non-empty UTF-8 without NUL, no NaN floats, height vectors are 289+256 long, holes only on tiles with heights and only in versions with MAHO, WMO chunks only in Wotlk..Wod and with a non-empty name list when placements exist, ML chunks only in Legion, MPHD flags within the 16 named bits, MAID only in BfA");
    c.assume("conversion must preserve MAIN flags/area ids (WDT) and heights, and holes when both versions store them (WDL); MODF scale/unique id rewrites, added empty MAID and model-format conversions are not tile data; an Err from the converter counts as a refusal");
    c.assume("walker and layouts are taken from /repo/docs/src/formats/world-data/{wdt,wdl}.md and docs/src/resources/coordinates.md (tile size 533.33333, [y][x] row-major grids)");
    let spaces = ["coords", "wdt_main", "wdt_single", "wdt_flags", "wdt_conv", "wdl_main", "wdl_single", "wdl_pairs", "wdl_conv"];
    for s in spaces {
        c.run_space(s, "");
    }
    c.extra_cov.insert(
        "axes".into(),
        json!({
            "coords_tiles": 4096,
            "wdt_versions": 8, "wdt_version_x_maid_modes": 12, "wdt_grid_patterns": 14, "wdt_single_tiles": 4096, "wdt_value_modes": 2,
            "wdt_flag_sets_main": wdt::flagsets(tier == Tier::Thorough).len(), "wdt_flag_words_flags_space": tier.pick(138, 65536), "wdt_object_shapes": 8,
            "wdt_conv_version_pairs": 72,
            "wdl_versions": 6, "wdl_tile_patterns": 14, "wdl_single_tiles": 4096, "wdl_height_modes": 3, "wdl_hole_modes": 4, "wdl_model_shapes": 6,
            "wdl_pairs_first_tiles": tier.pick(8, 260), "wdl_pairs_second_tiles": 4095, "wdl_conv_version_pairs": 36
        }),
    );
    c.finish();
}
