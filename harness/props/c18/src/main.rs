//! C18 — WDT and WDL map files survive write -> parse; tile <-> world coordinates invert.
//!
//! Bounded exhaustive exploration of map definitions (see `c.rule` in `main`), judged by
//!  * an independent chunk walker (`walker.rs`, written from /repo/docs) over the written bytes,
//!  * field-by-field comparison of `read(write(f))` with the definition,
//!  * byte identity of the second write,
//!  * tile-data preservation of `convert_wdt` / `convert_wdl_file` for all version pairs,
//!  * `world_to_tile(tile_to_world(x,y)) == (x,y)` for all 4096 tiles.
//!
//! The thorough tier additionally runs the later versions the crates declare, full products of the
//! object / model-list shapes, lists with counts and name lengths around 255/256/65535/65536
//! (`wdt_objects`, `wdl_models`), every state of a 9-tile universe (`wdl_subsets`) and conversion
//! chains that start from parsed states (`wdt_chain`, `wdl_chain`); see `THOROUGH_RULE`.
//!
//! `c18 --repro coords` prints a stand-alone reproduction of the coordinate finding;
//! `c18 --repro autodetect` one of the (unjudged) observation that the auto-detecting WDL parser mislabels a file.
mod walker;
mod wdl;
mod wdt;

use serde_json::{json, Value};
use vcore::*;

/// one case per tile
struct Coords {
    /// thorough: also a 15x15 lattice of interior points per tile
    deep: bool,
}
const TILE: f64 = 533.33333; // docs/src/resources/coordinates.md, docs/src/formats/world-data/wdt.md
impl Space for Coords {
    fn len(&self) -> u64 {
        4096
    }
    fn describe(&self, i: u64) -> Value {
        json!({"space": "coords", "tile_x": i % 64, "tile_y": i / 64})
    }
    fn run(&self, i: u64) -> CaseResult {
        let (x, y) = ((i % 64) as u32, (i / 64) as u32);
        let mut r = CaseResult::new();
        r.key = format!("coords:{x},{y}");
        r.nontrivial = true;
        let (wx, wy) = wow_wdt::tile_to_world(x, y);
        // documented formula: world_x = (32 - tile_y) * TILE, world_y = (32 - tile_x) * TILE (corner of the tile)
        let (rx, ry) = ((32.0 - y as f64) * TILE, (32.0 - x as f64) * TILE);
        if (wx as f64 - rx).abs() > 0.05 || (wy as f64 - ry).abs() > 0.05 {
            r.viol("coords: tile_to_world differs from the documented formula (axis mapping / tile size)", format!("tile ({x},{y}) got ({wx},{wy}) documented ({rx:.3},{ry:.3})"));
        }
        let (tx, ty) = wow_wdt::world_to_tile(wx, wy);
        r.count("coords_inversions", 1);
        if (tx, ty) == (x, y) {
            r.outcome = "inverts".into();
        } else if (tx == x || tx + 1 == x) && (ty == y || ty + 1 == y) {
            r.outcome = "lands on lower neighbour".into();
            r.viol(
                "coords: world_to_tile(tile_to_world(x,y)) returns the adjacent lower tile index (f32 division truncated at the tile edge)",
                format!("tile ({x},{y}) -> world ({wx},{wy}) -> tile ({tx},{ty})"),
            );
        } else {
            r.outcome = "lands elsewhere".into();
            r.viol("coords: world_to_tile(tile_to_world(x,y)) returns a non-adjacent tile (axis swap / scale / offset)", format!("tile ({x},{y}) -> world ({wx},{wy}) -> tile ({tx},{ty})"));
        }
        // interior point of the tile (robust against edge rounding): separates formula defects from the edge defect
        let (cx, cy) = ((rx - TILE / 2.0) as f32, (ry - TILE / 2.0) as f32);
        let (mx, my) = wow_wdt::world_to_tile(cx, cy);
        if (mx, my) != (x, y) {
            r.viol("coords: world_to_tile(centre of tile) is not that tile (axis swap / scale / offset)", format!("tile ({x},{y}) centre ({cx},{cy}) -> ({mx},{my})"));
        }
        if self.deep {
            // every interior lattice point k/16 of the tile (k = 1..15 on both axes; >= 33 units away from every edge)
            'o: for a in 1..16u32 {
                for b in 1..16u32 {
                    let (px, py) = ((rx - TILE * a as f64 / 16.0) as f32, (ry - TILE * b as f64 / 16.0) as f32);
                    r.count("coords_interior_points", 1);
                    if wow_wdt::world_to_tile(px, py) != (x, y) {
                        r.viol("coords: world_to_tile(interior point of a tile) is not that tile (axis swap / scale / offset)", format!("tile ({x},{y}) point ({px},{py}) [{a}/16,{b}/16] -> {:?}", wow_wdt::world_to_tile(px, py)));
                        break 'o;
                    }
                }
            }
        }
        r
    }
}

const THOROUGH_RULE: &str = " THOROUGH TIER BOUNDS (supersede the thorough remarks above). WDT versions Classic..Dragonflight (10); (version, MAID mode) = 31: 10 without MAID + {BfA, Shadowlands, Dragonflight} x 7 modes (8 sections+flag+header ids / 5 / 8 without flag / flag without chunk / 0 sections / 1 section / 9 sections). Object shapes = full product map type {terrain, WMO-only} x MWMO {absent,0,1,3 names} x MODF {absent,0,1,3 records} (32; the first 8 are the quick shapes). wdt_main = block 1: 31 x 8 quick shapes x 109 flag sets (none, 14 single bits, all, 2 alternating, 91 bit pairs) x 2 value modes x 14 grids; block 2: 31 x the 24 other shapes x 18 non-pair flag sets x 2 x 14. wdt_single = 4096 single tiles x 31 x 4 shapes. wdt_flags = all 65536 MPHD words x 10 versions x every MAID mode consistent with bit 0x200 (BfA: 2 modes when clear, 6 when set; other versions 1) x 4 object shapes consistent with bit 0. wdt_objects = 11 (version, MAID) x {terrain, WMO-only} x 19 name-list shapes (absent; 0; 1 name of 1/2/255/256/257/65535/65536/70001 bytes; 2; 3; 255/256/257/1000/4096/65536 names; duplicates) x 13 MODF counts (absent,0,1,2,3,255,256,257,1023,1024,1025,4096,65536). wdt_conv = 22 sources (10 versions + 3 MAID versions x 4 MAID modes) x 10 targets x [block 1: all 32 shapes x 4 flag sets x 2 x 14 grids; block 2: 4 shapes x 128 flag sets (all subsets of the 6 bits the converter adds/removes x other bits all clear/all set) x 2 x 2 grids]; MAID ids must also survive between any two MAID versions. wdt_chain = 13 sources x 10 intermediate x 10 target versions x 8 shapes x 4 flag sets x 2 x 4 grids: build->write->read->convert->write->read->convert; MAIN entries (and MAID ids on all-MAID paths) equal the source after every step, every intermediate state round-trips, result agrees with the direct conversion in MAIN entries. Every WDT round trip also compares get_tile (flags, area id, has_adt) for all 4096 tiles and count_existing_tiles before write / after read. WDL versions Vanilla..Dragonflight + Latest (10). Model shapes: pre-Legion full product names {1,3} x MWID entries {0,n,n+2} x MODF {0,1,3} + empty (19); Legion+ full product {0,1,3}^4 of MLDD/MLDX/MLMD/MLMX record counts (81). wdl_main = 10 versions x 3 height modes x 4 hole modes x (11 sparse grids x full shape product + 3 dense grids x 6 quick shapes). wdl_single = 4096 tiles x 10 versions x 3 hole modes x 6 shapes. wdl_pairs = first tile from the corners + 16x16 asymmetric lattice + lattice (x+3y)%8==5 (about 770) x each of the 4095 other tiles, version Wotlk..Latest by first tile (8 cases per first tile). wdl_subsets = every state of a 9-tile universe (corners, 3 adjacent, 2 far; each tile absent / heights / heights+holes: 3^9, 2^9 in Vanilla) x 10 versions x 2 shapes. wdl_models = Legion+ (5 versions): record counts {0,1,2,3,255,256,257,1024}^4; pre-Legion (4 versions): 17 name-list shapes (as in wdt_objects) x MWID entries {0,n,n+1,1000} x MODF counts {0,1,2,3,255,256,257,1024,4096}; two tiles behind the lists. wdl_conv = 10x10 version pairs x 4 hole modes x (5 sparse grids x full shape product + 6 sparse grids x 6 quick shapes) + 3 dense grids x 2 shapes x 2 hole modes. wdl_chain = 10^3 version triples x 6 shapes x 4 hole modes x 3 grids (+ the 585-tile grid without models): build->write->parse->convert->write->parse->convert; heights (and hole masks on all-MAHO paths) equal the source after every step, every intermediate state round-trips, result agrees with the direct conversion in heights and (no record = no holes) hole masks, A->B->A returns the source tile data. Every WDL round trip also checks that no foreign chunk is written, one MAHO per tile with hole data, and that the parsed map_tile_offsets equal the MAOF table in the bytes. coords: additionally the 15x15 interior lattice points k/16 of every tile map back to that tile.";

fn build(name: &str, _arg: &str, tier: Tier) -> Box<dyn Space> {
    match name {
        "coords" => Box::new(Coords { deep: tier == Tier::Thorough }),
        "wdt_main" => Box::new(wdt::WdtRoundtrip::main(tier)),
        "wdt_single" => Box::new(wdt::WdtRoundtrip::single(tier)),
        "wdt_flags" => Box::new(wdt::WdtRoundtrip::flags(tier)),
        "wdt_conv" => Box::new(wdt::WdtConv::new(tier)),
        "wdl_main" => Box::new(wdl::WdlRoundtrip::main(tier)),
        "wdl_single" => Box::new(wdl::WdlRoundtrip::single(tier)),
        "wdl_pairs" => Box::new(wdl::WdlPairs::new(tier)),
        "wdl_conv" => Box::new(wdl::WdlConv::new(tier)),
        // thorough only
        "wdt_objects" => Box::new(wdt::WdtObjects::new(tier)),
        "wdt_chain" => Box::new(wdt::WdtChain::new(tier)),
        "wdl_subsets" => Box::new(wdl::WdlSubsets::new(tier)),
        "wdl_models" => Box::new(wdl::WdlModels::new(tier)),
        "wdl_chain" => Box::new(wdl::WdlChain::new(tier)),
        _ => panic!("space {name}"),
    }
}

fn repro_coords() {
    println!("// stand-alone reproduction: wow_wdt::world_to_tile(tile_to_world(x, y)) != (x, y)");
    let mut bad = 0;
    let mut first = None;
    for y in 0..64u32 {
        for x in 0..64u32 {
            let (wx, wy) = wow_wdt::tile_to_world(x, y);
            let t = wow_wdt::world_to_tile(wx, wy);
            if t != (x, y) {
                bad += 1;
                if first.is_none() {
                    first = Some((x, y, wx, wy, t));
                }
            }
        }
    }
    if let Some((x, y, wx, wy, t)) = first {
        println!("first: tile_to_world({x},{y}) = ({wx},{wy}); world_to_tile({wx},{wy}) = {:?}  (expected ({x},{y}))", t);
    }
    let bad_axis: Vec<u32> = (0..64u32).filter(|&k| wow_wdt::world_to_tile(0.0, wow_wdt::tile_to_world(k, 0).1).0 != k).collect();
    println!("{bad} of 4096 tiles do not invert; per-axis indices that come back as index-1: {:?}", bad_axis);
}

/// observation `wdl_rewrite_of_autodetected_parse_differs` (counted, not judged): public API only
fn repro_autodetect() {
    use std::io::Cursor;
    use wow_wdl::parser::WdlParser;
    use wow_wdl::types::{HeightMapTile, WdlFile};
    use wow_wdl::version::WdlVersion;
    println!("// a WotLK-family WDL with WMO names and no MAHO chunk, read back with the default (auto-detecting) parser and written again");
    let mut f = WdlFile::with_version(WdlVersion::Wotlk);
    f.wmo_filenames.push("a.wmo".to_string());
    f.wmo_indices.push(0);
    f.heightmap_tiles.insert((1, 0), HeightMapTile::new());
    f.map_tile_offsets[1] = 1;
    let mut c = Cursor::new(Vec::new());
    WdlParser::with_version(WdlVersion::Wotlk).write(&mut c, &f).unwrap();
    let bytes1 = c.into_inner();
    let p = WdlParser::new().parse(&mut Cursor::new(&bytes1)).unwrap();
    println!("written as Wotlk: {} bytes; auto-detected version: {:?}; names parsed: {:?}", bytes1.len(), p.version, p.wmo_filenames);
    let mut c = Cursor::new(Vec::new());
    WdlParser::new().write(&mut c, &p).unwrap();
    let bytes2 = c.into_inner();
    let q = WdlParser::new().parse(&mut Cursor::new(&bytes2)).unwrap();
    println!("second write: {} bytes; names after the second round: {:?}  (has_wmo_chunks({:?}) = {})", bytes2.len(), q.wmo_filenames, p.version, p.version.has_wmo_chunks());
}

fn main() {
    let args: Vec<String> = std::env::args().collect();
    if args.get(1).map(|s| s.as_str()) == Some("--repro") {
        match args.get(2).map(|s| s.as_str()) {
            Some("coords") | None => repro_coords(),
            Some("autodetect") => repro_autodetect(),
            Some(o) => eprintln!("unknown repro {o}"),
        }
        return;
    }
    let Mode::Supervisor(mut c) = start("C18", "exploration", build) else { return };
    let tier = c.tier;
    c.rule = "WDT: case = (version Classic..BfA x MAID mode [BfA only: none / 8 sections+flag+header ids / 5 sections / chunk without flag / flag without chunk]) x tile grid (14 patterns: empty, full, rows, columns, checker, L-shape, corners, asymmetric pair, triangle, sparse; plus every single tile of the 4096) x value mode (plain / hashed flags+area ids also on absent tiles, distinct header words) x MPHD flag set (quick: none, each single bit, all, 2 alternating; thorough: + all bit pairs; space wdt_flags: quick all words with <=2 of the 16 bits, thorough all 65536 words) x object shape (8: terrain with no / empty / named MWMO, terrain+MODF, WMO-only with 0/1/3 names and placements, boundary floats). Each case: build through the public API, write, walk the bytes independently, read back, compare every field, write again. wdt_conv: every (from,to) of 8x8 versions (+BfA-with-MAID source) x grids x values x 4 flag sets x 8 object shapes: MAIN entries unchanged, converted file round-trips and its bytes hold the source tiles. WDL: versions Vanilla..Legion x tile set (same 14 patterns; every single tile; wdl_pairs: ordered pairs of tiles, first tile (with holes) from the 4 corners + an asymmetric lattice [quick 2x2, thorough 16x16], second tile (without holes) each of the other 4095) x heights (zeros / ramp with i16 extremes / hashed per tile) x holes (none / all default / hashed on all / hashed on a third of the tiles; versions with MAHO) x model shapes (names,placements in {0,1,3}; Legion ML chunks {0,1,3}); wdl_conv: 6x6 version pairs. coords: all 4096 tiles. A case is non-trivial unless it is the all-empty file; distinct by its axis tuple.".into();
    c.assume("content equality is judged field by field on bit patterns; fields the writer recomputes or the reader re-derives are excluded: WDL map_tile_offsets and chunks list, WDT version_config (the reader re-detects a version from chunk presence), and the MPHD something/unused <-> file-id aliasing (the 7 header dwords are compared under the interpretation selected by flag 0x200)");
    c.assume("WDT MWMO follows the documented version rule: a terrain map's MWMO list is not emitted from Cataclysm on; the definition's expected content after read is adjusted by that rule (non-empty terrain name lists dropped this way are counted, not judged)");
    c.assume("inputs are valid definitions: names are non-empty UTF-8 without NUL, no NaN floats, height vectors are 289+256 long, holes only on tiles with heights and only in versions with MAHO, WMO chunks only in Wotlk..Wod and with a non-empty name list when placements exist, ML chunks only in Legion, MPHD flags within the 16 named bits, MAID only in BfA");
    c.assume("conversion must preserve MAIN flags/area ids (WDT) and heights, and holes when both versions store them (WDL); MODF scale/unique id rewrites, added empty MAID and model-format conversions are not tile data; an Err from the converter counts as a refusal");
    c.assume("walker and layouts are taken from /repo/docs/src/formats/world-data/{wdt,wdl}.md and docs/src/resources/coordinates.md (tile size 533.33333, [y][x] row-major grids)");
    let mut spaces = vec!["coords", "wdt_main", "wdt_single", "wdt_flags", "wdt_conv", "wdl_main", "wdl_single", "wdl_pairs", "wdl_conv"];
    if tier == Tier::Thorough {
        spaces.extend(["wdt_objects", "wdt_chain", "wdl_subsets", "wdl_models", "wdl_chain"]);
        c.rule.push_str(THOROUGH_RULE);
        c.assume("thorough tier: the versions beyond the property's list (WDT Shadowlands/Dragonflight; WDL Bfa/Shadowlands/Dragonflight/Latest) are judged by the same oracles; for WDL `Latest` (the auto-detecting placeholder) the version field itself is not compared because the parser replaces it by the detected version");
        c.assume("thorough tier: WDL MWID entry count and the MLDD/MLDX and MLMD/MLMX record counts are independent lists in the file format; definitions with unequal counts are valid inputs of the writer");
        c.assume("thorough tier, chains: tile data must survive write->parse->convert->write->parse->convert (WDT: MAIN entries, and MAID ids when every version on the path has the chunk; WDL: heights, and hole masks when every version on the path stores them); the chained result must agree with the direct conversion in tile data, where a WDL tile without a hole record and a tile with the all-ones mask (the converter's own default) both mean 'no holes'; differences in header flags / model lists between the two paths are counted, not judged");
    }
    for s in spaces {
        c.run_space(s, "");
    }
    let mut axes = json!({
        "coords_tiles": 4096,
        "wdt_versions": 8, "wdt_version_x_maid_modes": 12, "wdt_grid_patterns": 14, "wdt_single_tiles": 4096, "wdt_value_modes": 2,
        "wdt_flag_sets_main": wdt::flagsets(tier == Tier::Thorough).len(), "wdt_flag_words_flags_space": tier.pick(138, 65536), "wdt_object_shapes": 8,
        "wdt_conv_version_pairs": 72,
        "wdl_versions": 6, "wdl_tile_patterns": 14, "wdl_single_tiles": 4096, "wdl_height_modes": 3, "wdl_hole_modes": 4, "wdl_model_shapes": 6,
        "wdl_pairs_first_tiles": tier.pick(8, 260), "wdl_pairs_second_tiles": 4095, "wdl_conv_version_pairs": 36
    });
    if tier == Tier::Thorough {
        let a = axes.as_object_mut().unwrap();
        for (k, v) in [
            ("wdt_versions", json!(wdt::NV)),
            ("wdt_maid_modes", json!(wdt::MAID_MODES.len())),
            ("wdt_version_x_maid_modes", json!(wdt::vm_list_thorough().len())),
            ("wdt_object_shapes", json!(wdt::objs().len())),
            ("wdt_main_block1", json!({"version_x_maid": 31, "object_shapes": 8, "flag_sets": 109, "value_modes": 2, "grids": 14})),
            ("wdt_main_block2", json!({"version_x_maid": 31, "object_shapes": 24, "flag_sets": 18, "value_modes": 2, "grids": 14})),
            ("wdt_single", json!({"tiles": 4096, "version_x_maid": 31, "object_shapes": 4})),
            ("wdt_flags", json!({"flag_words": 65536, "versions": 10, "version_x_maid_per_word_bit9_clear": 11, "version_x_maid_per_word_bit9_set": 15, "object_shapes_per_word": 4})),
            ("wdt_conv_version_pairs", json!(100)),
            ("wdt_conv_sources", json!(22)),
            ("wdt_conv_block1", json!({"sources": 22, "targets": 10, "object_shapes": 32, "flag_sets": 4, "value_modes": 2, "grids": 14})),
            ("wdt_conv_block2", json!({"sources": 22, "targets": 10, "object_shapes": 4, "flag_sets": wdt::conv_flagsets().len(), "value_modes": 2, "grids": 2})),
            ("wdt_chain", json!({"sources": 13, "via": 10, "targets": 10, "object_shapes": 8, "flag_sets": 4, "value_modes": 2, "grids": 4})),
            ("wdt_objects", json!({"version_x_maid": 11, "map_types": 2, "name_list_shapes": wdt::NAME_SHAPES.len(), "modf_record_counts": wdt::MODF_COUNTS.len()})),
            ("wdl_versions", json!(wdl::NV)),
            ("wdl_model_shapes", json!({"pre_legion_names_x_mwid_x_modf": wdl::wmo_shapes().len(), "legion_plus_mldd_x_mldx_x_mlmd_x_mlmx": wdl::ml_shapes().len()})),
            ("wdl_main", json!({"versions": 10, "sparse_grids": 11, "dense_grids": 3, "height_modes": 3, "hole_modes": 4, "shapes_on_sparse_grids": "19 / 81", "shapes_on_dense_grids": 6})),
            ("wdl_single", json!({"tiles": 4096, "versions": 10, "hole_modes": 3, "shapes": 6})),
            ("wdl_pairs_first_tiles", json!(wdl::WdlPairs::new(tier).first_count())),
            ("wdl_pairs_versions", json!(9)),
            ("wdl_subsets", json!({"universe_tiles": wdl::UNIVERSE.len(), "states_per_tile": 3, "states": 19683, "versions": 10, "shapes": 2})),
            ("wdl_models", json!({"ml_versions": 5, "ml_record_counts_per_chunk": wdl::BIG_COUNTS.len(), "ml_chunks": 4, "wmo_versions": 4, "name_list_shapes": wdt::NAME_SHAPES.len() - 2, "mwid_modes": wdl::IDX_MODES.len(), "modf_record_counts": wdl::PLC_COUNTS.len()})),
            ("wdl_conv_version_pairs", json!(100)),
            ("wdl_conv", json!({"version_pairs": 100, "hole_modes_sparse": 4, "sparse_grids_with_full_shape_product": wdl::CONV_FULL_SHAPE_GRIDS.len(), "sparse_grids_with_6_shapes": 6, "dense_grids": 3, "shapes_dense": 2, "hole_modes_dense": 2})),
            ("wdl_chain", json!({"version_triples": 1000, "shapes": 6, "hole_modes": 4, "grids": 4})),
            ("coords_interior_points_per_tile", json!(225)),
        ] {
            a.insert(k.to_string(), v);
        }
    }
    c.extra_cov.insert("axes".into(), axes);
    c.finish();
}
