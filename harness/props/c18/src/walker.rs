//! Independent chunk walker and byte-level decoders for WDT / WDL files.
//!
//! Written from the format documentation in /repo/docs/src/formats/world-data/{wdt,wdl}.md
//! (chunk = 4 magic bytes stored reversed + u32 LE size + payload; MAIN/MAID/MAOF are 64x64
//! grids in [y][x] row-major order; MODF records are 64 bytes; MARE is 545 i16 = 17x17 outer
//! followed by 16x16 inner; MAHO is 16 u16).  It shares no code with the crates under test.

#[derive(Debug, Clone)]
pub struct RawChunk {
    /// readable name, i.e. the stored magic reversed ("REVM" on disk -> "MVER")
    pub name: String,
    pub hdr_off: usize,
    pub data_off: usize,
    pub size: usize,
}

pub fn u16le(b: &[u8], p: usize) -> u16 {
    u16::from_le_bytes([b[p], b[p + 1]])
}
pub fn i16le(b: &[u8], p: usize) -> i16 {
    i16::from_le_bytes([b[p], b[p + 1]])
}
pub fn u32le(b: &[u8], p: usize) -> u32 {
    u32::from_le_bytes([b[p], b[p + 1], b[p + 2], b[p + 3]])
}

fn chunk_at(b: &[u8], p: usize) -> Result<RawChunk, String> {
    if p + 8 > b.len() {
        return Err(format!("chunk header at {} overruns file of {} bytes", p, b.len()));
    }
    let name: String = b[p..p + 4].iter().rev().map(|&c| if c.is_ascii_graphic() { c as char } else { '?' }).collect();
    let size = u32le(b, p + 4) as usize;
    if p + 8 + size > b.len() {
        return Err(format!("chunk {} at {} with size {} overruns file of {} bytes", name, p, size, b.len()));
    }
    Ok(RawChunk { name, hdr_off: p, data_off: p + 8, size })
}

/// Walk the whole file; every byte must belong to exactly one chunk.
pub fn walk(b: &[u8]) -> Result<Vec<RawChunk>, String> {
    let mut v = vec![];
    let mut p = 0usize;
    while p < b.len() {
        let c = chunk_at(b, p)?;
        p = c.data_off + c.size;
        v.push(c);
    }
    Ok(v)
}

/// The chunk whose header starts exactly at `off` (used for MAOF targets).
pub fn chunk_starting_at(chunks: &[RawChunk], off: usize) -> Option<usize> {
    // header offsets are strictly increasing
    chunks.binary_search_by_key(&off, |c| c.hdr_off).ok()
}

pub fn find<'a>(chunks: &'a [RawChunk], name: &str) -> Vec<&'a RawChunk> {
    chunks.iter().filter(|c| c.name == name).collect()
}

/// NUL-terminated strings of a name chunk (raw bytes, no UTF-8 interpretation).
pub fn cstrings(data: &[u8]) -> Vec<Vec<u8>> {
    let mut out = vec![];
    let mut cur = vec![];
    for &c in data {
        if c == 0 {
            out.push(std::mem::take(&mut cur));
        } else {
            cur.push(c);
        }
    }
    if !cur.is_empty() {
        out.push(cur);
    }
    out
}

/// One 64-byte MODF record as documented (WDT and WDL share the layout):
/// u32 name index, u32 unique id, 12 x f32 (position, rotation, lower, upper), 4 x u16.
#[derive(Debug, Clone, PartialEq)]
pub struct RawModf {
    pub first: u32,
    pub second: u32,
    pub f: [u32; 12],
    pub h: [u16; 4],
}

pub fn modf_records(data: &[u8]) -> Result<Vec<RawModf>, String> {
    if data.len() % 64 != 0 {
        return Err(format!("MODF payload of {} bytes is not a multiple of 64", data.len()));
    }
    let mut v = vec![];
    for k in 0..data.len() / 64 {
        let p = k * 64;
        let mut f = [0u32; 12];
        for (j, x) in f.iter_mut().enumerate() {
            *x = u32le(data, p + 8 + 4 * j);
        }
        let mut h = [0u16; 4];
        for (j, x) in h.iter_mut().enumerate() {
            *x = u16le(data, p + 56 + 2 * j);
        }
        v.push(RawModf { first: u32le(data, p), second: u32le(data, p + 4), f, h });
    }
    Ok(v)
}
