//! WDL part of C18: low-resolution maps -> WdlParser::write -> independent walker (MAOF offsets land
//! on the tile's MARE chunk) + WdlParser::parse -> field comparison -> second write;
//! convert_wdl_file over all version pairs.
use crate::walker::*;
use crate::wdt::{brief, grid, mix, name_shape, GRIDS, NAME_SHAPES};
use serde_json::{json, Value};
use std::collections::BTreeMap;
use std::io::Cursor;
use std::sync::OnceLock;
use vcore::*;
use wow_wdl::conversion::convert_wdl_file;
use wow_wdl::parser::WdlParser;
use wow_wdl::types::{BoundingBox, HeightMapTile, HolesData, M2Placement, M2VisibilityInfo, ModelPlacement, Vec3d, WdlFile};
use wow_wdl::version::WdlVersion;

/// the first 6 (Vanilla..Legion) are the versions of the property text and of the quick tier; the thorough tier adds
/// the later versions the crate declares (same chunk set as Legion) and `Latest` (the auto-detecting default)
pub const VERSIONS: [WdlVersion; 10] = [
    WdlVersion::Vanilla,
    WdlVersion::Wotlk,
    WdlVersion::Cataclysm,
    WdlVersion::Mop,
    WdlVersion::Wod,
    WdlVersion::Legion,
    WdlVersion::Bfa,
    WdlVersion::Shadowlands,
    WdlVersion::Dragonflight,
    WdlVersion::Latest,
];
pub const VNAMES: [&str; 10] = ["Vanilla", "Wotlk", "Cataclysm", "Mop", "Wod", "Legion", "Bfa", "Shadowlands", "Dragonflight", "Latest"];
const LEGION: usize = 5;
/// versions of the quick tier / of the thorough tier
pub const NV_Q: usize = 6;
pub const NV: usize = 10;

fn vidx(v: WdlVersion) -> Option<usize> {
    VERSIONS.iter().position(|x| *x == v)
}
fn vname(v: WdlVersion) -> String {
    vidx(v).map(|i| VNAMES[i].to_string()).unwrap_or_else(|| format!("{:?}", v))
}
// which optional sections a version can hold (generator side; mirrors the crate's version table)
fn can_holes(vi: usize) -> bool {
    vi >= 1
}
fn can_wmo(vi: usize) -> bool {
    (1..=4).contains(&vi)
}
fn can_ml(vi: usize) -> bool {
    vi >= LEGION
}

#[derive(Clone, Debug, PartialEq)]
pub struct Plc {
    pub id: u32,
    pub wmo_id: u32,
    pub f: [u32; 12],
    pub flags: u16,
    pub dset: u16,
    pub nset: u16,
    pub pad: u16,
}
#[derive(Clone, Debug, PartialEq)]
pub struct M2 {
    pub id: u32,
    pub m2_id: u32,
    pub f: [u32; 6],
    pub scale: u32,
    pub flags: u32,
}
#[derive(Clone, Debug, PartialEq)]
pub struct Vis {
    pub f: [u32; 6],
    pub radius: u32,
}

#[derive(Clone, Debug, PartialEq)]
pub struct WdlModel {
    pub version: WdlVersion,
    pub version_number: u32,
    /// (x,y) -> 545 heights: 289 outer then 256 inner
    pub tiles: BTreeMap<(u32, u32), Vec<i16>>,
    pub holes: BTreeMap<(u32, u32), [u16; 16]>,
    pub names: Vec<String>,
    pub indices: Vec<u32>,
    pub placements: Vec<Plc>,
    pub m2: Vec<M2>,
    pub m2vis: Vec<Vis>,
    pub wmo2: Vec<M2>,
    pub wmo2vis: Vec<Vis>,
}

// ------------------------------------------------------------------ generators

pub const HEIGHT_MODES: [&str; 3] = ["zeros", "ramp (same for all tiles, i16::MIN/MAX at the ends, inner = -(outer))", "hashed per tile"];
fn heights(mode: usize, x: u32, y: u32) -> Vec<i16> {
    let mut v = Vec::with_capacity(545);
    match mode {
        0 => v.resize(545, 0),
        1 => {
            for i in 0..289i32 {
                v.push(match i {
                    0 => i16::MIN,
                    288 => i16::MAX,
                    _ => (i * 113 - 16000) as i16,
                });
            }
            for i in 0..256i32 {
                v.push((-(i * 101) - 1) as i16);
            }
        }
        _ => {
            for i in 0..545u32 {
                v.push(mix(x, y, 1000 + i) as i16);
            }
        }
    }
    v
}

pub const HOLE_MODES: [&str; 4] = ["none", "every tile, no holes (0xFFFF)", "every tile, hashed masks", "only tiles with (x+2y)%3==0, hashed masks"];
fn holes(mode: usize, x: u32, y: u32) -> Option<[u16; 16]> {
    match mode {
        0 => None,
        1 => Some([0xFFFF; 16]),
        2 | 3 => {
            if mode == 3 && (x + 2 * y) % 3 != 0 {
                return None;
            }
            let mut m = [0u16; 16];
            for (k, v) in m.iter_mut().enumerate() {
                *v = mix(x, y, 2000 + k as u32) as u16;
            }
            if (x + y) % 5 == 0 {
                m = [0; 16]; // all holes
            }
            Some(m)
        }
        _ => panic!("hole mode"),
    }
}

fn fb(v: f32) -> u32 {
    v.to_bits()
}
fn nn(b: u32) -> u32 {
    if f32::from_bits(b).is_nan() {
        fb(2.5)
    } else {
        b
    }
}
fn plc(k: u32, wmo_id: u32) -> Plc {
    match k {
        0 => Plc { id: 1, wmo_id, f: [fb(100.0), fb(200.0), fb(50.0), 0, 0, 0, fb(-10.0), fb(-10.5), fb(-11.0), fb(10.0), fb(10.5), fb(11.0)], flags: 0, dset: 0, nset: 0, pad: 0 },
        1 => Plc { id: u32::MAX, wmo_id, f: [fb(-0.0), fb(f32::MAX), fb(f32::MIN_POSITIVE), fb(f32::INFINITY), fb(f32::NEG_INFINITY), 1, fb(f32::MIN), fb(1e-40), fb(0.1), fb(-1.0e30), fb(3.0), fb(533.333_3)], flags: 0xFFFF, dset: 0x8000, nset: 1, pad: 0xABCD },
        _ => {
            let mut f = [0u32; 12];
            for (j, x) in f.iter_mut().enumerate() {
                *x = nn(mix(j as u32, k, 31));
            }
            Plc { id: 0x1234_5678, wmo_id, f, flags: 3, dset: 7, nset: 0xFFFF, pad: 0 }
        }
    }
}
fn m2(k: u32, base: u32) -> M2 {
    match k {
        0 => M2 { id: base + 1, m2_id: 1000 + base, f: [fb(1.0), fb(2.0), fb(3.0), 0, fb(1.5), 0], scale: fb(1.0), flags: 0 },
        1 => M2 { id: u32::MAX, m2_id: base, f: [fb(-0.0), fb(f32::MAX), fb(f32::MIN_POSITIVE), fb(f32::INFINITY), fb(f32::NEG_INFINITY), 1], scale: fb(0.0), flags: u32::MAX },
        _ => {
            let mut f = [0u32; 6];
            for (j, x) in f.iter_mut().enumerate() {
                *x = nn(mix(j as u32, k, 41 + base));
            }
            M2 { id: 7 + base, m2_id: 0x00AB_CDEF + base, f, scale: fb(2.5), flags: 0x8000_0001 }
        }
    }
}
fn vis(k: u32, base: u32) -> Vis {
    let mut f = [0u32; 6];
    for (j, x) in f.iter_mut().enumerate() {
        *x = nn(mix(j as u32, k, 51 + base));
    }
    Vis { f, radius: if k == 1 { fb(f32::INFINITY) } else { fb(17.32 + k as f32) } }
}

/// model shapes of the quick tier: pre-Legion (names, placements); Legion (m2 count, wmo count)
pub const MODEL_SHAPES: [(usize, usize); 6] = [(0, 0), (1, 0), (1, 1), (3, 1), (1, 3), (3, 3)];
pub const ML_SHAPES: [(usize, usize); 6] = [(0, 0), (1, 0), (0, 1), (3, 1), (1, 3), (3, 3)];
pub const SHAPES_Q: usize = 6;

/// pre-Legion shapes (names, MWID entries, placements).  The first 6 are the quick shapes (MWID count = name count);
/// the rest completes the product names {1,3} x MWID entries {0, names, names+2} x placements {0,1,3} (+ the empty shape): 19.
pub fn wmo_shapes() -> &'static [(usize, usize, usize)] {
    static S: OnceLock<Vec<(usize, usize, usize)>> = OnceLock::new();
    S.get_or_init(|| {
        let mut v: Vec<(usize, usize, usize)> = MODEL_SHAPES.iter().map(|&(n, p)| (n, n, p)).collect();
        for n in [1usize, 3] {
            for ni in [0, n, n + 2] {
                for p in [0usize, 1, 3] {
                    if !v.contains(&(n, ni, p)) {
                        v.push((n, ni, p));
                    }
                }
            }
        }
        assert_eq!(v.len(), 19);
        v
    })
}
/// Legion+ shapes (MLDD, MLDX, MLMD, MLMX record counts).  The first 6 are the quick shapes (placement count =
/// visibility count); the rest completes the product {0,1,3}^4: 81.
pub fn ml_shapes() -> &'static [[usize; 4]] {
    static S: OnceLock<Vec<[usize; 4]>> = OnceLock::new();
    S.get_or_init(|| {
        let mut v: Vec<[usize; 4]> = ML_SHAPES.iter().map(|&(a, b)| [a, a, b, b]).collect();
        for a in [0usize, 1, 3] {
            for av in [0usize, 1, 3] {
                for b in [0usize, 1, 3] {
                    for bv in [0usize, 1, 3] {
                        if !v.contains(&[a, av, b, bv]) {
                            v.push([a, av, b, bv]);
                        }
                    }
                }
            }
        }
        assert_eq!(v.len(), 81);
        v
    })
}

pub fn make_model(vi: usize, tiles: &dyn Fn(u32, u32) -> bool, hmode: usize, holemode: usize, shape: usize) -> WdlModel {
    let mut m = WdlModel {
        version: VERSIONS[vi],
        version_number: 18,
        tiles: BTreeMap::new(),
        holes: BTreeMap::new(),
        names: vec![],
        indices: vec![],
        placements: vec![],
        m2: vec![],
        m2vis: vec![],
        wmo2: vec![],
        wmo2vis: vec![],
    };
    for y in 0..64u32 {
        for x in 0..64u32 {
            if tiles(x, y) {
                m.tiles.insert((x, y), heights(hmode, x, y));
                if can_holes(vi) {
                    if let Some(h) = holes(holemode, x, y) {
                        m.holes.insert((x, y), h);
                    }
                }
            }
        }
    }
    if can_wmo(vi) {
        let (n, ni, p) = wmo_shapes()[shape];
        let pool = ["World\\wmo\\Azeroth\\Buildings\\Human_Farm\\Farm.wmo".to_string(), "b".to_string(), format!("{}\\T\u{00fc}r.wmo", "y".repeat(270))];
        let mut off = 0u32;
        let mut offs = vec![];
        for s in pool.iter().take(n) {
            m.names.push(s.clone());
            offs.push(off); // MWID: offsets into the MWMO data
            off += s.len() as u32 + 1;
        }
        for k in 0..ni {
            // entries beyond the name count are raw dwords (the format does not tie the two counts together)
            m.indices.push(if k < n { offs[k] } else { mix(k as u32, 5, 91) });
        }
        for k in 0..p {
            m.placements.push(plc(k as u32, (k % n.max(1)) as u32));
        }
    }
    if can_ml(vi) {
        let [a, av, b, bv] = ml_shapes()[shape];
        for k in 0..a {
            m.m2.push(m2(k as u32, 0));
        }
        for k in 0..av {
            m.m2vis.push(vis(k as u32, 0));
        }
        for k in 0..b {
            m.wmo2.push(m2(k as u32, 100));
        }
        for k in 0..bv {
            m.wmo2vis.push(vis(k as u32, 100));
        }
    }
    m
}

fn v3(f: &[u32]) -> Vec3d {
    Vec3d::new(f32::from_bits(f[0]), f32::from_bits(f[1]), f32::from_bits(f[2]))
}
fn bits3(v: &Vec3d) -> [u32; 3] {
    [v.x.to_bits(), v.y.to_bits(), v.z.to_bits()]
}

pub fn build(m: &WdlModel) -> WdlFile {
    let mut f = WdlFile::with_version(m.version);
    for (&(x, y), h) in &m.tiles {
        f.heightmap_tiles.insert((x, y), HeightMapTile { outer_values: h[..289].to_vec(), inner_values: h[289..].to_vec() });
        f.map_tile_offsets[(y * 64 + x) as usize] = 1; // placeholder as in the crate's own tests; the writer recomputes
    }
    for (&k, h) in &m.holes {
        f.holes_data.insert(k, HolesData { hole_masks: *h });
    }
    f.wmo_filenames = m.names.clone();
    f.wmo_indices = m.indices.clone();
    for p in &m.placements {
        f.wmo_placements.push(ModelPlacement { id: p.id, wmo_id: p.wmo_id, position: v3(&p.f[0..3]), rotation: v3(&p.f[3..6]), bounds: BoundingBox::new(v3(&p.f[6..9]), v3(&p.f[9..12])), flags: p.flags, doodad_set: p.dset, name_set: p.nset, padding: p.pad });
    }
    let mk = |p: &M2| M2Placement { id: p.id, m2_id: p.m2_id, position: v3(&p.f[0..3]), rotation: v3(&p.f[3..6]), scale: f32::from_bits(p.scale), flags: p.flags };
    let mv = |p: &Vis| M2VisibilityInfo { bounds: BoundingBox::new(v3(&p.f[0..3]), v3(&p.f[3..6])), radius: f32::from_bits(p.radius) };
    f.m2_placements = m.m2.iter().map(mk).collect();
    f.m2_visibility = m.m2vis.iter().map(mv).collect();
    f.wmo_legion_placements = m.wmo2.iter().map(mk).collect();
    f.wmo_legion_visibility = m.wmo2vis.iter().map(mv).collect();
    f
}

pub fn extract(f: &WdlFile) -> WdlModel {
    let mut tiles = BTreeMap::new();
    for (&k, h) in &f.heightmap_tiles {
        let mut v = h.outer_values.clone();
        v.extend_from_slice(&h.inner_values);
        tiles.insert(k, v);
    }
    let holes = f.holes_data.iter().map(|(&k, h)| (k, h.hole_masks)).collect();
    let cat = |a: [u32; 3], b: [u32; 3]| [a[0], a[1], a[2], b[0], b[1], b[2]];
    let em = |p: &M2Placement| M2 { id: p.id, m2_id: p.m2_id, f: cat(bits3(&p.position), bits3(&p.rotation)), scale: p.scale.to_bits(), flags: p.flags };
    let ev = |p: &M2VisibilityInfo| Vis { f: cat(bits3(&p.bounds.min), bits3(&p.bounds.max)), radius: p.radius.to_bits() };
    WdlModel {
        version: f.version,
        version_number: f.version_number,
        tiles,
        holes,
        names: f.wmo_filenames.clone(),
        indices: f.wmo_indices.clone(),
        placements: f
            .wmo_placements
            .iter()
            .map(|p| {
                let mut a = [0u32; 12];
                a[0..3].copy_from_slice(&bits3(&p.position));
                a[3..6].copy_from_slice(&bits3(&p.rotation));
                a[6..9].copy_from_slice(&bits3(&p.bounds.min));
                a[9..12].copy_from_slice(&bits3(&p.bounds.max));
                Plc { id: p.id, wmo_id: p.wmo_id, f: a, flags: p.flags, dset: p.doodad_set, nset: p.name_set, pad: p.padding }
            })
            .collect(),
        m2: f.m2_placements.iter().map(em).collect(),
        m2vis: f.m2_visibility.iter().map(ev).collect(),
        wmo2: f.wmo_legion_placements.iter().map(em).collect(),
        wmo2vis: f.wmo_legion_visibility.iter().map(ev).collect(),
    }
}

fn write_wdl(v: WdlVersion, f: &WdlFile) -> Result<Vec<u8>, String> {
    let mut cur = Cursor::new(Vec::new());
    WdlParser::with_version(v).write(&mut cur, f).map_err(|e| e.to_string())?;
    Ok(cur.into_inner())
}

// ------------------------------------------------------------------ oracle 1: walker

/// Returns the payload offset of the MAOF chunk (None when the bytes are not walkable that far).
pub fn walk_check(bytes: &[u8], m: &WdlModel, pre: &str, r: &mut CaseResult) -> Option<usize> {
    let chunks = match walk(bytes) {
        Ok(c) => c,
        Err(e) => {
            r.viol(format!("{pre}: written bytes are not a well-formed chunk sequence"), e);
            return None;
        }
    };
    let vi = vidx(m.version);
    let mver = find(&chunks, "MVER");
    if mver.len() != 1 || mver[0].hdr_off != 0 || mver[0].size != 4 || u32le(bytes, mver[0].data_off) != 18 {
        r.viol(format!("{pre}: MVER chunk in written bytes is not a leading version-18 chunk"), format!("{:?}", mver));
    }
    let maof = find(&chunks, "MAOF");
    if maof.len() != 1 || maof[0].size != 16384 {
        r.viol(format!("{pre}: MAOF chunk in written bytes missing, duplicated or not 16384 bytes"), format!("{:?}", maof));
        return None;
    }
    let mo = maof[0].data_off;
    let with_holes = vi.map(can_holes).unwrap_or(true);
    let mut used = 0usize;
    for y in 0..64u32 {
        for x in 0..64u32 {
            let off = u32le(bytes, mo + ((y * 64 + x) * 4) as usize) as usize;
            match m.tiles.get(&(x, y)) {
                None => {
                    if off != 0 {
                        r.viol(format!("{pre}: MAOF entry at y*64+x is non-zero for a tile without heights"), format!("tile (x={x},y={y}) offset={off}"));
                        return Some(mo);
                    }
                }
                Some(h) => {
                    let Some(ci) = chunk_starting_at(&chunks, off) else {
                        r.viol(format!("{pre}: MAOF entry at y*64+x does not point at a chunk header"), format!("tile (x={x},y={y}) offset={off}"));
                        return Some(mo);
                    };
                    let c = &chunks[ci];
                    if c.name != "MARE" || c.size != 1090 {
                        r.viol(format!("{pre}: MAOF entry at y*64+x points at a chunk that is not a 1090-byte MARE"), format!("tile (x={x},y={y}) offset={off} chunk={} size={}", c.name, c.size));
                        return Some(mo);
                    }
                    for (k, &want) in h.iter().enumerate() {
                        let got = i16le(bytes, c.data_off + 2 * k);
                        if got != want {
                            r.viol(
                                format!("{pre}: MARE chunk reached through MAOF[y*64+x] holds other heights than the tile's (tile order / offset / outer-inner layout)"),
                                format!("tile (x={x},y={y}) value #{k} ({}) written={got} definition={want}", if k < 289 { "outer" } else { "inner" }),
                            );
                            return Some(mo);
                        }
                    }
                    used += 1;
                    let next = chunks.get(ci + 1);
                    let want_holes = if with_holes { m.holes.get(&(x, y)) } else { None };
                    match (want_holes, next) {
                        (Some(hm), Some(nc)) if nc.name == "MAHO" => {
                            let ok = nc.size == 32 && (0..16).all(|k| u16le(bytes, nc.data_off + 2 * k) == hm[k]);
                            if !ok {
                                r.viol(format!("{pre}: MAHO chunk following the tile's MARE holds other hole masks than the tile's"), format!("tile (x={x},y={y}) size={}", nc.size));
                                return Some(mo);
                            }
                        }
                        (Some(_), _) => {
                            r.viol(format!("{pre}: no MAHO chunk follows the MARE of a tile that has hole data"), format!("tile (x={x},y={y}) next chunk={:?}", next.map(|c| c.name.clone())));
                            return Some(mo);
                        }
                        (None, Some(nc)) if nc.name == "MAHO" => {
                            r.viol(format!("{pre}: a MAHO chunk follows the MARE of a tile that has no hole data"), format!("tile (x={x},y={y})"));
                            return Some(mo);
                        }
                        _ => {}
                    }
                }
            }
        }
    }
    r.count("wdl_walker_maof_targets_checked", used as u64);
    let n_mare = find(&chunks, "MARE").len();
    if n_mare != m.tiles.len() {
        r.viol(format!("{pre}: number of MARE chunks in written bytes differs from the number of tiles with heights"), format!("MARE={} tiles={}", n_mare, m.tiles.len()));
    }
    // name / placement chunks (documented layouts); the writer emits MWMO/MWID/MODF only together with a non-empty name list
    let want_wmo = !m.names.is_empty();
    for nm in ["MWMO", "MWID", "MODF"] {
        let c = find(&chunks, nm);
        if c.len() != usize::from(want_wmo) {
            r.viol(format!("{pre}: {nm} chunk presence in written bytes differs from the definition (names present <=> chunk present)"), format!("found {} names={}", c.len(), m.names.len()));
            return Some(mo);
        }
    }
    if want_wmo {
        let c = find(&chunks, "MWMO")[0];
        let got = cstrings(&bytes[c.data_off..c.data_off + c.size]);
        let want: Vec<Vec<u8>> = m.names.iter().map(|s| s.as_bytes().to_vec()).collect();
        if got != want {
            r.viol(format!("{pre}: MWMO name list in written bytes differs from the definition"), format!("written {} names, definition {}", got.len(), want.len()));
        }
        let c = find(&chunks, "MWID")[0];
        let got: Vec<u32> = (0..c.size / 4).map(|k| u32le(bytes, c.data_off + 4 * k)).collect();
        if c.size % 4 != 0 || got != m.indices {
            r.viol(format!("{pre}: MWID offsets in written bytes differ from the definition"), format!("written={} definition={}", brief(&got), brief(&m.indices)));
        }
        let c = find(&chunks, "MODF")[0];
        let want: Vec<RawModf> = m.placements.iter().map(|p| RawModf { first: p.wmo_id, second: p.id, f: p.f, h: [p.flags, p.dset, p.nset, p.pad] }).collect();
        match modf_records(&bytes[c.data_off..c.data_off + c.size]) {
            Ok(got) => {
                if got != want {
                    r.viol(format!("{pre}: MODF placement records in written bytes differ from the definition"), format!("written={} definition={}", brief(&got), brief(&want)));
                }
            }
            Err(e) => r.viol(format!("{pre}: MODF chunk in written bytes is not a whole number of 64-byte records"), e),
        }
    }
    for (nm, n, rec) in [("MLDD", m.m2.len(), 40usize), ("MLDX", m.m2vis.len(), 28), ("MLMD", m.wmo2.len(), 40), ("MLMX", m.wmo2vis.len(), 28)] {
        let c = find(&chunks, nm);
        let total: usize = c.iter().map(|c| c.size).sum();
        if c.len() != usize::from(n > 0) || total != n * rec {
            r.viol(format!("{pre}: {nm} chunk presence/size in written bytes differs from the definition's record count"), format!("chunks={} bytes={} records={}", c.len(), total, n));
        }
    }
    // nothing but the documented chunks, and exactly one MAHO per tile with hole data
    if let Some(c) = chunks.iter().find(|c| !matches!(c.name.as_str(), "MVER" | "MWMO" | "MWID" | "MODF" | "MLDD" | "MLDX" | "MLMD" | "MLMX" | "MAOF" | "MARE" | "MAHO")) {
        r.viol(format!("{pre}: written bytes contain a chunk that is not part of the WDL format"), format!("chunk {} at {}", c.name, c.hdr_off));
    }
    let want_maho = if with_holes { m.holes.keys().filter(|k| m.tiles.contains_key(k)).count() } else { 0 };
    if find(&chunks, "MAHO").len() != want_maho {
        r.viol(format!("{pre}: number of MAHO chunks in written bytes differs from the number of tiles with hole data"), format!("MAHO={} tiles with holes={}", find(&chunks, "MAHO").len(), want_maho));
    }
    Some(mo)
}


// ------------------------------------------------------------------ oracle 2: field comparison

pub fn compare(exp: &WdlModel, got: &WdlModel, pre: &str, judge_version: bool, r: &mut CaseResult) {
    if judge_version && (got.version != exp.version || got.version_number != exp.version_number) {
        r.viol(format!("{pre}: differs in version / version number"), format!("got {} ({}) want {} ({})", vname(got.version), got.version_number, vname(exp.version), exp.version_number));
    }
    let ka: Vec<_> = exp.tiles.keys().collect();
    let kb: Vec<_> = got.tiles.keys().collect();
    if ka != kb {
        let miss: Vec<_> = ka.iter().filter(|k| !got.tiles.contains_key(k)).take(3).collect();
        let extra: Vec<_> = kb.iter().filter(|k| !exp.tiles.contains_key(k)).take(3).collect();
        r.viol(format!("{pre}: differs in the set of tiles that have heights (MARE)"), format!("want {} tiles got {}; missing (x,y) {:?} unexpected (x,y) {:?}", ka.len(), kb.len(), miss, extra));
    } else {
        for (k, h) in &exp.tiles {
            let g = &got.tiles[k];
            if g != h {
                let p = h.iter().zip(g.iter()).position(|(a, b)| a != b).unwrap_or(h.len().min(g.len()));
                r.viol(format!("{pre}: differs in the heights of a tile (MARE outer/inner values)"), format!("tile (x={},y={}) lengths {}/{} first difference at value #{}", k.0, k.1, g.len(), h.len(), p));
                break;
            }
        }
    }
    if got.holes != exp.holes {
        let bad = exp.holes.iter().find(|(k, v)| got.holes.get(k) != Some(v)).map(|(k, _)| *k).or_else(|| got.holes.keys().find(|k| !exp.holes.contains_key(k)).copied());
        r.viol(format!("{pre}: differs in hole masks (MAHO) of a tile"), format!("want {} tiles with holes got {}; first differing tile (x,y)={:?}", exp.holes.len(), got.holes.len(), bad));
    }
    if got.names != exp.names {
        r.viol(format!("{pre}: differs in WMO names (MWMO)"), format!("got {} want {}", got.names.len(), exp.names.len()));
    }
    if got.indices != exp.indices {
        r.viol(format!("{pre}: differs in WMO name offsets (MWID)"), format!("got {} want {}", brief(&got.indices), brief(&exp.indices)));
    }
    if got.placements != exp.placements {
        r.viol(format!("{pre}: differs in WMO placements (MODF)"), format!("got {} want {}", brief(&got.placements), brief(&exp.placements)));
    }
    if got.m2 != exp.m2 {
        r.viol(format!("{pre}: differs in M2 placements (MLDD)"), format!("got {} want {}", brief(&got.m2), brief(&exp.m2)));
    }
    if got.m2vis != exp.m2vis {
        r.viol(format!("{pre}: differs in M2 visibility (MLDX)"), format!("got {} want {}", brief(&got.m2vis), brief(&exp.m2vis)));
    }
    if got.wmo2 != exp.wmo2 {
        r.viol(format!("{pre}: differs in Legion WMO placements (MLMD)"), format!("got {} want {}", brief(&got.wmo2), brief(&exp.wmo2)));
    }
    if got.wmo2vis != exp.wmo2vis {
        r.viol(format!("{pre}: differs in Legion WMO visibility (MLMX)"), format!("got {} want {}", brief(&got.wmo2vis), brief(&exp.wmo2vis)));
    }
}

/// `light`: skip the auto-detecting second parse (used in the all-pairs inner loop)
pub fn roundtrip(f: &WdlFile, m: &WdlModel, pre: &str, light: bool, r: &mut CaseResult) -> String {
    let bytes1 = match write_wdl(m.version, f) {
        Ok(b) => b,
        Err(e) => {
            r.err_return = true;
            r.count("wdl_writer_refusals", 1);
            return format!("writer refused: {}", e.chars().take(40).collect::<String>());
        }
    };
    r.count("wdl_roundtrips", 1);
    r.count("wdl_bytes_written", bytes1.len() as u64);
    let maof = walk_check(&bytes1, m, pre, r);
    let parsed = match WdlParser::with_version(m.version).parse(&mut Cursor::new(&bytes1)) {
        Ok(p) => p,
        Err(e) => {
            r.viol(format!("{pre}: parser rejects the writer's output"), format!("{e}"));
            return "parser rejected".into();
        }
    };
    // `Latest` is the auto-detecting placeholder: the parser replaces it by what it detects, so the version field is not judged there
    compare(m, &extract(&parsed), &format!("{pre}: parse(write(f))"), m.version != WdlVersion::Latest, r);
    // the offset table the parser hands out must be the one in the bytes
    if let Some(mo) = maof {
        if let Some(i) = (0..4096usize).find(|&i| parsed.map_tile_offsets[i] != u32le(&bytes1, mo + 4 * i)) {
            r.viol(format!("{pre}: parse(write(f)): map_tile_offsets differ from the MAOF table in the bytes"), format!("entry y*64+x={} parsed={} bytes={}", i, parsed.map_tile_offsets[i], u32le(&bytes1, mo + 4 * i)));
        }
    }
    match write_wdl(m.version, &parsed) {
        Ok(bytes2) => {
            if bytes2 != bytes1 {
                let p = bytes1.iter().zip(bytes2.iter()).position(|(a, b)| a != b).unwrap_or(bytes1.len().min(bytes2.len()));
                r.viol(format!("{pre}: second write (write(parse(write(f)))) is not byte-identical"), format!("len1={} len2={} first difference at byte {}", bytes1.len(), bytes2.len(), p));
            }
        }
        Err(e) => r.viol(format!("{pre}: writer refuses the file it produced itself on the second write"), e),
    }
    let mut auto = "skipped".to_string();
    if !light {
        // the default parser (version auto-detection) must see the same content
        match WdlParser::new().parse(&mut Cursor::new(&bytes1)) {
            Ok(p) => {
                auto = vname(p.version);
                if vidx(p.version).is_none() {
                    auto = format!("{:?}", p.version);
                }
                compare(m, &extract(&p), &format!("{pre}: auto-detecting parse(write(f))"), false, r);
                // observation (not judged): writing what the auto-detecting parser returned, under the version it guessed
                if let Ok(b3) = write_wdl(p.version, &p) {
                    if b3 != bytes1 {
                        r.count("wdl_rewrite_of_autodetected_parse_differs", 1);
                    }
                }
            }
            Err(e) => r.viol(format!("{pre}: auto-detecting parser rejects the writer's output"), format!("{e}")),
        }
    }
    format!("ok holes={} wmo={} ml={} autodetected={}", !m.holes.is_empty(), !m.names.is_empty(), !(m.m2.is_empty() && m.wmo2.is_empty()), auto)
}

// ------------------------------------------------------------------ spaces

#[derive(Clone, Copy)]
enum TileSel {
    Pat(usize),
    Single(u32, u32),
}
impl TileSel {
    fn has(&self, x: u32, y: u32) -> bool {
        match *self {
            TileSel::Pat(p) => grid(p, x, y),
            TileSel::Single(a, b) => a == x && b == y,
        }
    }
    fn describe(&self) -> Value {
        match *self {
            TileSel::Pat(p) => json!(GRIDS[p]),
            TileSel::Single(x, y) => json!({"single_tile": {"x": x, "y": y}}),
        }
    }
    fn key(&self) -> String {
        match *self {
            TileSel::Pat(p) => format!("g{p}"),
            TileSel::Single(x, y) => format!("s{x},{y}"),
        }
    }
}

#[derive(Clone, Copy)]
struct WCase {
    vi: usize,
    t: TileSel,
    hmode: usize,
    holemode: usize,
    shape: usize,
}
fn shape_name(vi: usize, shape: usize) -> String {
    if can_wmo(vi) {
        let (n, ni, p) = wmo_shapes()[shape];
        if ni == n {
            format!("{} WMO names, {} MODF placements", n, p)
        } else {
            format!("{} WMO names, {} MWID entries, {} MODF placements", n, ni, p)
        }
    } else if can_ml(vi) {
        let [a, av, b, bv] = ml_shapes()[shape];
        if a == av && b == bv {
            format!("{} MLDD/MLDX, {} MLMD/MLMX", a, b)
        } else {
            format!("{} MLDD, {} MLDX, {} MLMD, {} MLMX", a, av, b, bv)
        }
    } else {
        "no model chunks in this version".into()
    }
}
/// the shapes of the quick tier
fn shapes_for(vi: usize) -> Vec<usize> {
    if can_wmo(vi) || can_ml(vi) {
        (0..SHAPES_Q).collect()
    } else {
        vec![0]
    }
}
/// the full shape products (thorough)
fn all_shapes_for(vi: usize) -> Vec<usize> {
    if can_wmo(vi) {
        (0..wmo_shapes().len()).collect()
    } else if can_ml(vi) {
        (0..ml_shapes().len()).collect()
    } else {
        vec![0]
    }
}
fn holes_for(vi: usize, all: &[usize]) -> Vec<usize> {
    if can_holes(vi) {
        all.to_vec()
    } else {
        vec![0]
    }
}
fn wmodel(c: &WCase) -> WdlModel {
    let t = c.t;
    make_model(c.vi, &move |x, y| t.has(x, y), c.hmode, c.holemode, c.shape)
}
fn wdesc(space: &str, c: &WCase) -> Value {
    json!({"space": space, "format": "WDL", "version": VNAMES[c.vi], "tiles": c.t.describe(), "heights": HEIGHT_MODES[c.hmode], "holes": HOLE_MODES[c.holemode], "models": shape_name(c.vi, c.shape)})
}
fn wkey(space: &str, c: &WCase) -> String {
    format!("{space}:v{}{}h{}o{}m{}", c.vi, c.t.key(), c.hmode, c.holemode, c.shape)
}
/// the three dense grids (full, checker, triangle: 2k-4k tiles, MBs per file)
fn dense(p: usize) -> bool {
    matches!(p, 1 | 8 | 12)
}

pub struct WdlRoundtrip {
    name: &'static str,
    cases: Vec<WCase>,
}
impl WdlRoundtrip {
    pub fn single(tier: Tier) -> Self {
        let mut cases = vec![];
        let holem: Vec<usize> = tier.pick(vec![2], vec![0, 1, 2]);
        let shapes: Vec<usize> = tier.pick(vec![3], (0..SHAPES_Q).collect());
        for vi in 0..tier.pick(NV_Q, NV) {
            for &holemode in &holes_for(vi, &holem) {
                for &shape in &shapes {
                    if !(can_wmo(vi) || can_ml(vi)) && shape != shapes[0] {
                        continue;
                    }
                    for t in 0..4096u32 {
                        cases.push(WCase { vi, t: TileSel::Single(t % 64, t / 64), hmode: 2, holemode, shape });
                    }
                }
            }
        }
        WdlRoundtrip { name: "wdl_single", cases }
    }
    pub fn main(tier: Tier) -> Self {
        let mut cases = vec![];
        for vi in 0..tier.pick(NV_Q, NV) {
            for shape in tier.pick(shapes_for(vi), all_shapes_for(vi)) {
                for holemode in holes_for(vi, &[0, 1, 2, 3]) {
                    for hmode in 0..3 {
                        for p in 0..GRIDS.len() {
                            // quick: the three dense grids only with hashed heights and two model shapes
                            if tier == Tier::Quick && dense(p) && (hmode != 2 || !matches!(shape, 0 | 3)) {
                                continue;
                            }
                            // thorough: the dense grids with the 6 quick shapes, the 11 others with the full shape product
                            if tier == Tier::Thorough && dense(p) && shape >= SHAPES_Q {
                                continue;
                            }
                            cases.push(WCase { vi, t: TileSel::Pat(p), hmode, holemode, shape });
                        }
                    }
                }
            }
        }
        WdlRoundtrip { name: "wdl_main", cases }
    }
}
impl Space for WdlRoundtrip {
    fn len(&self) -> u64 {
        self.cases.len() as u64
    }
    fn describe(&self, i: u64) -> Value {
        wdesc(self.name, &self.cases[i as usize])
    }
    fn run(&self, i: u64) -> CaseResult {
        let c = &self.cases[i as usize];
        let m = wmodel(c);
        let mut r = CaseResult::new();
        r.key = wkey(self.name, c);
        r.nontrivial = !m.tiles.is_empty() || !m.names.is_empty() || !m.m2.is_empty() || !m.wmo2.is_empty() || !m.m2vis.is_empty() || !m.wmo2vis.is_empty();
        let f = build(&m);
        if extract(&f) != m {
            r.viol("harness: extract(build(definition)) != definition for WDL", "");
        }
        r.outcome = roundtrip(&f, &m, "wdl", false, &mut r);
        r
    }
}

/// every ordered pair of tiles (a has hole data, b has none): the second tile's offset depends on the first
pub struct WdlPairs {
    firsts: Vec<u32>,
    /// the 4096 second tiles are split into this many cases per first tile (1 in the quick tier)
    nblocks: u32,
    nver: usize,
}
impl WdlPairs {
    pub fn new(tier: Tier) -> Self {
        // first tiles: the four corners plus an asymmetric lattice (x and y steps differ, never on the diagonal twice)
        let n: u32 = tier.pick(2, 16);
        let mut firsts: Vec<u32> = vec![0, 63, 63 * 64, 4095];
        for j in 0..n {
            for i in 0..n {
                let x = (i * (64 / n) + (j % 3) + 1) % 64;
                let y = (j * (64 / n) + (i % 2) + 2) % 64;
                firsts.push(y * 64 + x);
            }
        }
        if tier == Tier::Thorough {
            // + a second lattice that meets every row and every column: (x + 3y) % 8 == 5
            for y in 0..64u32 {
                for x in 0..64u32 {
                    if (x + 3 * y) % 8 == 5 {
                        firsts.push(y * 64 + x);
                    }
                }
            }
        }
        firsts.sort();
        firsts.dedup();
        // quick: versions Wotlk..Legion by first tile; thorough: Wotlk..Latest
        WdlPairs { firsts, nblocks: tier.pick(1, 8), nver: tier.pick(5, 9) }
    }
    fn decode(&self, i: u64) -> (u32, u32) {
        (self.firsts[(i / self.nblocks as u64) as usize], (i % self.nblocks as u64) as u32)
    }
    pub fn first_count(&self) -> usize {
        self.firsts.len()
    }
}
impl Space for WdlPairs {
    fn len(&self) -> u64 {
        self.firsts.len() as u64 * self.nblocks as u64
    }
    fn describe(&self, i: u64) -> Value {
        let (a, blk) = self.decode(i);
        let second = if self.nblocks == 1 { "each of the other 4095 tiles".to_string() } else { format!("each other tile with index y*64+x in {}..{}", blk * (4096 / self.nblocks), (blk + 1) * (4096 / self.nblocks)) };
        json!({"space": "wdl_pairs", "format": "WDL", "version": VNAMES[1 + (a as usize % self.nver)], "tiles": {"first_tile_with_holes": {"x": a % 64, "y": a / 64}, "second_tile_without_holes": second}, "heights": HEIGHT_MODES[2]})
    }
    fn run(&self, i: u64) -> CaseResult {
        let (a, blk) = self.decode(i);
        let vi = 1 + (a as usize % self.nver);
        let mut r = CaseResult::new();
        r.key = if self.nblocks == 1 { format!("wdl_pairs:{a}") } else { format!("wdl_pairs:{a}/{blk}") };
        r.nontrivial = true;
        let (ax, ay) = (a % 64, a / 64);
        let mut n = 0u64;
        let per = 4096 / self.nblocks;
        for b in blk * per..(blk + 1) * per {
            if b == a {
                continue;
            }
            let (bx, by) = (b % 64, b / 64);
            let mut m = make_model(vi, &|x, y| (x, y) == (ax, ay) || (x, y) == (bx, by), 2, 2, 0);
            m.holes.remove(&(bx, by));
            let f = build(&m);
            roundtrip(&f, &m, "wdl", true, &mut r);
            n += 1;
            if !r.viols.is_empty() {
                r.viols.truncate(3);
                let last = r.viols.len() - 1;
                r.viols[last].detail.push_str(&format!(" [second tile (x={bx},y={by})]"));
                break;
            }
        }
        r.count("wdl_tile_pairs", n);
        r.outcome = "pairs ok".into();
        r
    }
    fn case_timeout(&self) -> u64 {
        300
    }
}

/// Every state of a 9-tile universe (thorough only): each tile absent / heights / heights + hole data.
/// The offset of a tile depends on every tile before it in row-major order and on which of them carry a MAHO chunk.
pub struct WdlSubsets {
    cases: Vec<(usize, u32, usize)>,
}
/// corners, two horizontally adjacent tiles, one below them, and an asymmetric far pair
pub const UNIVERSE: [(u32, u32); 9] = [(0, 0), (63, 0), (0, 63), (63, 63), (31, 31), (32, 31), (31, 32), (5, 40), (40, 5)];
impl WdlSubsets {
    pub fn new(_tier: Tier) -> Self {
        let mut cases = vec![];
        for vi in 0..NV {
            let states: u32 = if can_holes(vi) { 3u32.pow(9) } else { 2u32.pow(9) };
            for st in 0..states {
                for shape in [0usize, 5] {
                    if shape != 0 && !(can_wmo(vi) || can_ml(vi)) {
                        continue;
                    }
                    cases.push((vi, st, shape));
                }
            }
        }
        WdlSubsets { cases }
    }
    /// per universe tile: 0 absent, 1 heights, 2 heights + holes
    fn digits(vi: usize, st: u32) -> [u32; 9] {
        let base = if can_holes(vi) { 3 } else { 2 };
        let mut d = [0u32; 9];
        let mut s = st;
        for x in d.iter_mut() {
            *x = s % base;
            s /= base;
        }
        d
    }
}
impl Space for WdlSubsets {
    fn len(&self) -> u64 {
        self.cases.len() as u64
    }
    fn describe(&self, i: u64) -> Value {
        let (vi, st, shape) = self.cases[i as usize];
        let d = Self::digits(vi, st);
        let show: Vec<String> = UNIVERSE.iter().zip(d.iter()).filter(|(_, &s)| s != 0).map(|(&(x, y), &s)| format!("({x},{y}){}", if s == 2 { "+holes" } else { "" })).collect();
        json!({"space": "wdl_subsets", "format": "WDL", "version": VNAMES[vi], "tiles": {"subset_of_9": show}, "heights": HEIGHT_MODES[2], "models": shape_name(vi, shape)})
    }
    fn run(&self, i: u64) -> CaseResult {
        let (vi, st, shape) = self.cases[i as usize];
        let d = Self::digits(vi, st);
        let state = |x: u32, y: u32| UNIVERSE.iter().position(|&t| t == (x, y)).map(|k| d[k]).unwrap_or(0);
        let mut m = make_model(vi, &|x, y| state(x, y) != 0, 2, 2, shape);
        m.holes.retain(|&(x, y), _| state(x, y) == 2);
        let mut r = CaseResult::new();
        r.key = format!("wdl_subsets:v{vi}s{st}m{shape}");
        r.nontrivial = st != 0 || shape != 0;
        let f = build(&m);
        r.outcome = roundtrip(&f, &m, "wdl", false, &mut r);
        r
    }
}

// ---- generated records for the large-list space
fn gen_plc(k: usize, nidx: usize) -> Plc {
    let k32 = k as u32;
    let mut f = [0u32; 12];
    for (j, x) in f.iter_mut().enumerate() {
        *x = nn(mix(k32, j as u32, 61));
    }
    Plc { id: k32 ^ 0x4000_0000, wmo_id: if nidx == 0 { mix(k32, 0, 62) } else { k32 % nidx as u32 }, f, flags: mix(k32, 1, 62) as u16, dset: mix(k32, 2, 62) as u16, nset: mix(k32, 3, 62) as u16, pad: mix(k32, 4, 62) as u16 }
}
fn gen_m2(k: usize, salt: u32) -> M2 {
    let k32 = k as u32;
    let mut f = [0u32; 6];
    for (j, x) in f.iter_mut().enumerate() {
        *x = nn(mix(k32, j as u32, 63 + salt));
    }
    M2 { id: k32 ^ salt.rotate_left(20), m2_id: mix(k32, 7, 64 + salt), f, scale: nn(mix(k32, 8, 64 + salt)), flags: mix(k32, 9, 64 + salt) }
}
fn gen_vis(k: usize, salt: u32) -> Vis {
    let k32 = k as u32;
    let mut f = [0u32; 6];
    for (j, x) in f.iter_mut().enumerate() {
        *x = nn(mix(k32, j as u32, 65 + salt));
    }
    Vis { f, radius: nn(mix(k32, 6, 66 + salt)) }
}
fn records<T>(n: usize, small: impl Fn(u32) -> T, big: impl Fn(usize) -> T) -> Vec<T> {
    (0..n).map(|k| if n <= 3 { small(k as u32) } else { big(k) }).collect()
}

/// Large lists (thorough only): record counts / name lengths around 255/256/65535/65536 in front of the offset table.
pub struct WdlModels {
    cases: Vec<(usize, [usize; 4])>,
}
pub const BIG_COUNTS: [usize; 8] = [0, 1, 2, 3, 255, 256, 257, 1024];
pub const PLC_COUNTS: [usize; 9] = [0, 1, 2, 3, 255, 256, 257, 1024, 4096];
/// MWID entry-count modes relative to the name count n
pub const IDX_MODES: [&str; 4] = ["0 entries", "n entries", "n+1 entries", "1000 entries"];
impl WdlModels {
    pub fn new(_tier: Tier) -> Self {
        let mut cases = vec![];
        for vi in 0..NV {
            if can_wmo(vi) {
                // name shapes 2.. (a non-empty list: the writer emits the three WMO chunks only together with names)
                for ns in 2..NAME_SHAPES.len() {
                    for im in 0..IDX_MODES.len() {
                        for pc in 0..PLC_COUNTS.len() {
                            cases.push((vi, [ns, im, pc, 0]));
                        }
                    }
                }
            } else if can_ml(vi) {
                for a in 0..BIG_COUNTS.len() {
                    for av in 0..BIG_COUNTS.len() {
                        for b in 0..BIG_COUNTS.len() {
                            for bv in 0..BIG_COUNTS.len() {
                                cases.push((vi, [a, av, b, bv]));
                            }
                        }
                    }
                }
            }
        }
        WdlModels { cases }
    }
    fn model(vi: usize, k: [usize; 4]) -> WdlModel {
        // two tiles (one with holes) behind the lists: their offsets move with the list sizes
        let mut m = make_model(vi, &|x, y| (x, y) == (63, 0) || (x, y) == (1, 0), 2, 3, 0);
        if can_wmo(vi) {
            let names = name_shape(k[0]).expect("name shape");
            let n = names.len();
            let mut off = 0u32;
            let mut offs = vec![];
            for s in &names {
                offs.push(off);
                off += s.len() as u32 + 1;
            }
            let ni = [0, n, n + 1, 1000][k[1]];
            m.indices = (0..ni).map(|j| if j < n { offs[j] } else { mix(j as u32, 5, 92) }).collect();
            m.names = names;
            m.placements = records(PLC_COUNTS[k[2]], |j| plc(j, j % n.max(1) as u32), |j| gen_plc(j, ni));
        } else {
            m.m2 = records(BIG_COUNTS[k[0]], |j| m2(j, 0), |j| gen_m2(j, 0));
            m.m2vis = records(BIG_COUNTS[k[1]], |j| vis(j, 0), |j| gen_vis(j, 0));
            m.wmo2 = records(BIG_COUNTS[k[2]], |j| m2(j, 100), |j| gen_m2(j, 100));
            m.wmo2vis = records(BIG_COUNTS[k[3]], |j| vis(j, 100), |j| gen_vis(j, 100));
        }
        m
    }
}
impl Space for WdlModels {
    fn len(&self) -> u64 {
        self.cases.len() as u64
    }
    fn describe(&self, i: u64) -> Value {
        let (vi, k) = self.cases[i as usize];
        let models = if can_wmo(vi) {
            json!({"mwmo": NAME_SHAPES[k[0]], "mwid": IDX_MODES[k[1]], "modf_records": PLC_COUNTS[k[2]]})
        } else {
            json!({"mldd": BIG_COUNTS[k[0]], "mldx": BIG_COUNTS[k[1]], "mlmd": BIG_COUNTS[k[2]], "mlmx": BIG_COUNTS[k[3]]})
        };
        json!({"space": "wdl_models", "format": "WDL", "version": VNAMES[vi], "tiles": GRIDS[11], "heights": HEIGHT_MODES[2], "holes": HOLE_MODES[3], "models": models})
    }
    fn run(&self, i: u64) -> CaseResult {
        let (vi, k) = self.cases[i as usize];
        let m = Self::model(vi, k);
        let mut r = CaseResult::new();
        r.key = format!("wdl_models:v{vi}k{:?}", k);
        r.nontrivial = true;
        let f = build(&m);
        r.outcome = roundtrip(&f, &m, "wdl", false, &mut r);
        r
    }
    fn case_timeout(&self) -> u64 {
        120
    }
}

/// why a conversion was refused: holes that the target cannot store are a documented refusal
fn refusal_class(m: &WdlModel, to: usize) -> &'static str {
    if !can_holes(to) && !m.holes.is_empty() {
        "holes -> version without MAHO"
    } else {
        "other"
    }
}

/// grids on which the thorough conversion space runs the full model-shape product
pub const CONV_FULL_SHAPE_GRIDS: [usize; 5] = [0, 9, 10, 11, 13];

pub struct WdlConv {
    cases: Vec<(WCase, usize)>,
}
impl WdlConv {
    pub fn new(tier: Tier) -> Self {
        let grids: Vec<usize> = tier.pick(vec![0, 9, 11, 13, 10], (0..GRIDS.len()).collect());
        let nv = tier.pick(NV_Q, NV);
        let mut cases = vec![];
        for vi in 0..nv {
            for to in 0..nv {
                for shape in tier.pick(shapes_for(vi), all_shapes_for(vi)) {
                    for holemode in holes_for(vi, &[0, 1, 2, 3]) {
                        for &p in &grids {
                            let keep = match tier {
                                Tier::Quick => matches!(shape, 0 | 3 | 5) && holemode != 1,
                                // thorough: all 4 hole modes x (the full shape product on 5 sparse grids, the 6 quick shapes on the
                                // 6 other sparse grids); 2 shapes x 2 hole modes on the 3 dense grids
                                Tier::Thorough => {
                                    if dense(p) {
                                        matches!(shape, 0 | 5) && matches!(holemode, 0 | 2)
                                    } else {
                                        shape < SHAPES_Q || CONV_FULL_SHAPE_GRIDS.contains(&p)
                                    }
                                }
                            };
                            if keep {
                                cases.push((WCase { vi, t: TileSel::Pat(p), hmode: 2, holemode, shape }, to));
                            }
                        }
                    }
                }
            }
        }
        WdlConv { cases }
    }
}
impl Space for WdlConv {
    fn len(&self) -> u64 {
        self.cases.len() as u64
    }
    fn describe(&self, i: u64) -> Value {
        let (c, to) = &self.cases[i as usize];
        let mut d = wdesc("wdl_conv", c);
        d["from"] = d["version"].take();
        d.as_object_mut().unwrap().remove("version");
        d["to"] = json!(VNAMES[*to]);
        d
    }
    fn run(&self, i: u64) -> CaseResult {
        let (c, to) = &self.cases[i as usize];
        let m = wmodel(c);
        let mut r = CaseResult::new();
        r.key = format!("{}>{}", wkey("wdl_conv", c), to);
        r.nontrivial = !m.tiles.is_empty();
        let f = build(&m);
        let target = VERSIONS[*to];
        // the second converter (method on WdlFile): heights only
        match f.convert_to(target) {
            Ok(g) => {
                r.count("wdl_convert_to_calls", 1);
                let gm = extract(&g);
                if gm.tiles != m.tiles {
                    r.viol("wdl convert (WdlFile::convert_to): per-tile heights changed during version conversion", format!("{}->{}", VNAMES[c.vi], VNAMES[*to]));
                }
            }
            Err(_) => r.count("wdl_convert_to_refusals", 1),
        }
        let conv = match convert_wdl_file(&f, target) {
            Ok(g) => g,
            Err(e) => {
                r.err_return = true;
                let legit = !can_holes(*to) && !m.holes.is_empty();
                r.count(if legit { "wdl_conv_refused_holes_into_version_without_holes" } else { "wdl_conv_refused_other" }, 1);
                r.outcome = format!("convert refused ({}): {}", if legit { "holes -> version without MAHO" } else { "other" }, e.to_string().chars().take(50).collect::<String>());
                return r;
            }
        };
        r.count("wdl_conversions", 1);
        let cm = extract(&conv);
        if cm.version != target {
            r.viol("wdl convert: converted file does not carry the target version", format!("{}->{} got {}", VNAMES[c.vi], VNAMES[*to], vname(cm.version)));
        }
        if cm.tiles != m.tiles {
            let ka: Vec<_> = m.tiles.keys().collect();
            let kb: Vec<_> = cm.tiles.keys().collect();
            r.viol("wdl convert: per-tile heights (MARE) changed during version conversion", format!("{}->{} tiles before {} after {} same key set {}", VNAMES[c.vi], VNAMES[*to], ka.len(), kb.len(), ka == kb));
        }
        if can_holes(c.vi) && can_holes(*to) && cm.holes != m.holes {
            r.viol("wdl convert: per-tile hole masks (MAHO) changed between two versions that both store holes", format!("{}->{} before {} after {}", VNAMES[c.vi], VNAMES[*to], m.holes.len(), cm.holes.len()));
        }
        if c.vi == *to {
            let mut a = cm.clone();
            a.version_number = m.version_number;
            if a != m {
                r.viol("wdl convert: conversion to the same version changed the content", VNAMES[*to].to_string());
            }
        }
        // the converted file must survive write -> parse and the bytes must hold the source heights
        let mut expect = cm.clone();
        expect.tiles = m.tiles.clone();
        expect.version_number = 18;
        let oc = roundtrip(&conv, &expect, "wdl convert->write", false, &mut r);
        r.outcome = format!("converted models:{}->{} holes:{}->{} | {}", !(m.names.is_empty() && m.wmo2.is_empty() && m.m2.is_empty()), !(cm.names.is_empty() && cm.wmo2.is_empty() && cm.m2.is_empty()), !m.holes.is_empty(), !cm.holes.is_empty(), oc);
        r
    }
}

/// hole masks with "no record" read as "no holes" (all bits set), the default the converter itself fills in
fn holes_semantic(m: &WdlModel) -> BTreeMap<(u32, u32), [u16; 16]> {
    m.tiles.keys().map(|k| (*k, m.holes.get(k).copied().unwrap_or([0xFFFF; 16]))).collect()
}

/// Conversion chains from a parsed state (thorough only):
/// build -> write -> parse -> convert A->B -> write -> parse -> convert B->C, against the direct conversion A->C.
pub struct WdlChain {
    cases: Vec<(WCase, usize, usize)>,
}
impl WdlChain {
    pub fn new(_tier: Tier) -> Self {
        let mut cases = vec![];
        for vi in 0..NV {
            for b in 0..NV {
                for to in 0..NV {
                    for shape in shapes_for(vi) {
                        for holemode in holes_for(vi, &[0, 1, 2, 3]) {
                            for p in [10usize, 11, 9, 13] {
                                // the 585-tile sparse grid only without models
                                if p == 13 && shape != 0 {
                                    continue;
                                }
                                cases.push((WCase { vi, t: TileSel::Pat(p), hmode: 2, holemode, shape }, b, to));
                            }
                        }
                    }
                }
            }
        }
        WdlChain { cases }
    }
}
fn parse_as(v: WdlVersion, bytes: &[u8]) -> Result<WdlFile, String> {
    WdlParser::with_version(v).parse(&mut Cursor::new(bytes)).map_err(|e| e.to_string())
}
impl Space for WdlChain {
    fn len(&self) -> u64 {
        self.cases.len() as u64
    }
    fn describe(&self, i: u64) -> Value {
        let (c, b, to) = &self.cases[i as usize];
        let mut d = wdesc("wdl_chain", c);
        d["from"] = d["version"].take();
        d.as_object_mut().unwrap().remove("version");
        d["via"] = json!(VNAMES[*b]);
        d["to"] = json!(VNAMES[*to]);
        d
    }
    fn run(&self, i: u64) -> CaseResult {
        let (c, b, to) = &self.cases[i as usize];
        let (b, to) = (*b, *to);
        let m = wmodel(c);
        let mut r = CaseResult::new();
        r.key = format!("{}>{}>{}", wkey("wdl_chain", c), b, to);
        r.nontrivial = true;
        let path = format!("{}->{}->{}", VNAMES[c.vi], VNAMES[b], VNAMES[to]);
        // parsed source state
        let f0 = build(&m);
        let Ok(bytes0) = write_wdl(m.version, &f0) else {
            r.err_return = true;
            r.outcome = "writer refused the source".into();
            return r;
        };
        let p0 = match parse_as(m.version, &bytes0) {
            Ok(p) => p,
            Err(e) => {
                r.viol("wdl chain: parser rejects the writer's output", format!("{path} source: {e}"));
                return r;
            }
        };
        let direct = convert_wdl_file(&p0, VERSIONS[to]);
        let mut cur = p0;
        let mut all_hold_holes = can_holes(c.vi);
        for (step, &nv) in [b, to].iter().enumerate() {
            let src = extract(&cur);
            let next = match convert_wdl_file(&cur, VERSIONS[nv]) {
                Ok(g) => g,
                Err(e) => {
                    r.err_return = true;
                    r.count(if refusal_class(&src, nv) == "other" { "wdl_chain_refused_other" } else { "wdl_chain_refused_holes_into_version_without_holes" }, 1);
                    r.outcome = format!("convert refused at step {} ({}): {}", step + 1, refusal_class(&src, nv), e.to_string().chars().take(50).collect::<String>());
                    return r;
                }
            };
            r.count("wdl_chain_conversions", 1);
            all_hold_holes &= can_holes(nv);
            let x = extract(&next);
            if x.tiles != m.tiles {
                r.viol("wdl chain: per-tile heights (MARE) changed along write->parse->convert->write->parse->convert", format!("{path} after step {}: tiles before {} after {}", step + 1, m.tiles.len(), x.tiles.len()));
                return r;
            }
            if all_hold_holes && x.holes != m.holes {
                r.viol("wdl chain: per-tile hole masks (MAHO) changed along a path of versions that all store holes", format!("{path} after step {}: before {} after {}", step + 1, m.holes.len(), x.holes.len()));
            }
            // the converted state must survive write -> parse with the source heights in its bytes
            let mut expect = x.clone();
            expect.tiles = m.tiles.clone();
            expect.version_number = 18;
            let oc = roundtrip(&next, &expect, "wdl chain->write", true, &mut r);
            if step == 0 {
                let Ok(bytes1) = write_wdl(VERSIONS[nv], &next) else {
                    r.err_return = true;
                    r.outcome = "writer refused the intermediate file".into();
                    return r;
                };
                cur = match parse_as(VERSIONS[nv], &bytes1) {
                    Ok(p) => p,
                    Err(_) => return r, // already reported by roundtrip
                };
            } else {
                cur = next;
                r.outcome = format!("chain ok | {oc}");
            }
        }
        let chain = extract(&cur);
        match direct {
            Ok(d) => {
                let d = extract(&d);
                if d.tiles != chain.tiles {
                    r.viol("wdl chain: per-tile heights after A->B->C differ from the direct conversion A->C", path.clone());
                }
                // both ends store holes: the masks must agree when "no record" is read as "no holes"
                if can_holes(to) && holes_semantic(&d) != holes_semantic(&chain) {
                    r.viol("wdl chain: per-tile hole masks after A->B->C differ from the direct conversion A->C (no record = no holes)", path.clone());
                }
                if d.names != chain.names || d.placements != chain.placements || d.m2 != chain.m2 || d.wmo2 != chain.wmo2 {
                    r.count("wdl_chain_differs_from_direct_in_model_data", 1); // observation, not judged
                }
            }
            Err(_) => r.count("wdl_chain_ok_where_direct_conversion_refuses", 1),
        }
        if c.vi == to {
            r.count("wdl_chain_round_trips_a_b_a", 1);
            if can_holes(to) && holes_semantic(&chain) != holes_semantic(&m) {
                r.viol("wdl chain: per-tile hole masks after A->B->A differ from the source (no record = no holes)", path.clone());
            }
        }
        r
    }
}
