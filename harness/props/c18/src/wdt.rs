//! WDT part of C18: map definitions -> WdtWriter::write -> independent walker + WdtReader::read
//! -> field comparison -> second write; convert_wdt over all version pairs.
use crate::walker::*;
use serde_json::{json, Value};
use std::io::Cursor;
use std::sync::OnceLock;
use vcore::*;
use wow_wdt::chunks::maid::MaidSection;
use wow_wdt::chunks::mphd::FileDataIds;
use wow_wdt::chunks::{MaidChunk, ModfChunk, ModfEntry, MphdFlags, MwmoChunk};
use wow_wdt::conversion::convert_wdt;
use wow_wdt::version::WowVersion;
use wow_wdt::{WdtFile, WdtReader, WdtWriter};

/// the first 8 (Classic..BfA) are the versions of the property text and of the quick tier; the thorough tier
/// adds the two later versions the crate declares as supported
pub const VERSIONS: [WowVersion; 10] = [
    WowVersion::Classic,
    WowVersion::TBC,
    WowVersion::WotLK,
    WowVersion::Cataclysm,
    WowVersion::MoP,
    WowVersion::WoD,
    WowVersion::Legion,
    WowVersion::BfA,
    WowVersion::Shadowlands,
    WowVersion::Dragonflight,
];
pub const VNAMES: [&str; 10] = ["Classic", "TBC", "WotLK", "Cataclysm", "MoP", "WoD", "Legion", "BfA", "Shadowlands", "Dragonflight"];
const BFA: usize = 7;
/// number of versions in the thorough tier
pub const NV: usize = 10;

pub fn vname(v: WowVersion) -> String {
    match VERSIONS.iter().position(|x| *x == v) {
        Some(i) => VNAMES[i].to_string(),
        None => format!("{:?}", v),
    }
}
/// documented rule (wdt.md, MWMO notes): 4.x+ terrain maps have no MWMO chunk
fn is_pre_cata(v: WowVersion) -> bool {
    matches!(v, WowVersion::Classic | WowVersion::TBC | WowVersion::WotLK)
}

pub fn mix(a: u32, b: u32, c: u32) -> u32 {
    let mut h = a.wrapping_mul(0x9E37_79B1) ^ b.wrapping_mul(0x85EB_CA6B) ^ c.wrapping_mul(0xC2B2_AE35) ^ 0x27D4_EB2F;
    h ^= h >> 15;
    h = h.wrapping_mul(0x2C1B_3C6D);
    h ^= h >> 12;
    h = h.wrapping_mul(0x297A_2D39);
    h ^= h >> 15;
    h
}

// ------------------------------------------------------------------ tile grids

pub const GRIDS: [&str; 14] = [
    "empty",
    "full",
    "row y=0",
    "row y=63",
    "row y=17",
    "col x=0",
    "col x=63",
    "col x=40",
    "checker",
    "L-shape",
    "four corners",
    "pair (63,0)+(1,0)",
    "upper triangle x>y",
    "sparse hash",
];

pub fn grid(p: usize, x: u32, y: u32) -> bool {
    match p {
        0 => false,
        1 => true,
        2 => y == 0,
        3 => y == 63,
        4 => y == 17,
        5 => x == 0,
        6 => x == 63,
        7 => x == 40,
        8 => (x + y) % 2 == 0,
        9 => (x == 5 && (10..=50).contains(&y)) || (y == 50 && (5..=30).contains(&x)),
        10 => (x == 0 || x == 63) && (y == 0 || y == 63),
        11 => (x == 63 && y == 0) || (x == 1 && y == 0),
        12 => x > y,
        13 => mix(x, y, 7) % 7 == 0,
        _ => panic!("grid {p}"),
    }
}

#[derive(Clone, Copy, Debug)]
pub enum GridSel {
    Pat(usize),
    Single(u32, u32),
}
impl GridSel {
    pub fn has(&self, x: u32, y: u32) -> bool {
        match *self {
            GridSel::Pat(p) => grid(p, x, y),
            GridSel::Single(sx, sy) => sx == x && sy == y,
        }
    }
    pub fn describe(&self) -> Value {
        match *self {
            GridSel::Pat(p) => json!(GRIDS[p]),
            GridSel::Single(x, y) => json!({"single_tile": {"x": x, "y": y}}),
        }
    }
    pub fn key(&self) -> String {
        match *self {
            GridSel::Pat(p) => format!("g{p}"),
            GridSel::Single(x, y) => format!("s{x},{y}"),
        }
    }
    fn is_empty(&self) -> bool {
        matches!(self, GridSel::Pat(0))
    }
}

pub const VALUE_MODES: [&str; 2] = ["plain(flags=1,area=1+y*64+x,header words 0)", "rich(hashed flags/area ids incl. absent tiles, distinct header words)"];

fn tile_value(mode: usize, present: bool, x: u32, y: u32) -> (u32, u32) {
    match (mode, present) {
        (0, true) => (1, 1 + y * 64 + x),
        (0, false) => (0, 0),
        (_, true) => {
            let mut area = mix(x, y, 2);
            if (x, y) == (63, 0) {
                area = u32::MAX;
            }
            if (x, y) == (0, 63) {
                area = 0;
            }
            (mix(x, y, 1) | 1, area)
        }
        (_, false) => (mix(x, y, 3) & !1, mix(x, y, 4) | 1),
    }
}

// ------------------------------------------------------------------ model

#[derive(Clone, Debug, PartialEq)]
pub struct Modf {
    pub id: u32,
    pub uid: u32,
    /// bit patterns of position, rotation, lower, upper
    pub f: [u32; 12],
    pub flags: u16,
    pub dset: u16,
    pub nset: u16,
    pub scale: u16,
}

#[derive(Clone, Debug, PartialEq)]
pub struct WdtModel {
    pub version: WowVersion,
    /// all 16 MPHD flag bits
    pub flags: u32,
    /// the 7 dwords after the flags: `something`+`unused[6]`, or the 7 file ids when 0x200 is set
    pub words: [u32; 7],
    /// index y*64+x -> (flags, area id)
    pub tiles: Vec<(u32, u32)>,
    /// sections x (index y*64+x)
    pub maid: Option<Vec<Vec<u32>>>,
    pub mwmo: Option<Vec<String>>,
    pub modf: Option<Vec<Modf>>,
}

impl WdtModel {
    pub fn wmo_only(&self) -> bool {
        self.flags & 1 != 0
    }
    /// documented version rule for the MWMO chunk, encoded independently of `should_have_chunk`
    pub fn mwmo_on_disk(&self) -> bool {
        self.mwmo.is_some() && (self.wmo_only() || is_pre_cata(self.version))
    }
    pub fn expected_mwmo_after_read(&self) -> Option<Vec<String>> {
        if self.mwmo_on_disk() {
            self.mwmo.clone()
        } else {
            None
        }
    }
    pub fn trivial(&self) -> bool {
        self.tiles.iter().all(|t| *t == (0, 0)) && self.maid.is_none() && self.mwmo.is_none() && self.modf.is_none() && self.flags == 0
    }
}

pub struct Obj {
    pub name: String,
    pub wmo_only: bool,
    pub mwmo: Option<usize>,
    pub modf: Option<usize>,
}
/// number of object shapes of the quick tier (the first 8 of `objs()`)
pub const OBJS_Q: usize = 8;
/// Object shapes.  The first 8 are the hand-picked shapes of the quick tier; the rest completes the full
/// product map type {terrain, WMO-only} x MWMO {absent, 0, 1, 3 names} x MODF {absent, 0, 1, 3 records} (32).
pub fn objs() -> &'static [Obj] {
    static O: OnceLock<Vec<Obj>> = OnceLock::new();
    O.get_or_init(|| {
        let mut v = vec![
            Obj { name: "terrain".into(), wmo_only: false, mwmo: None, modf: None },
            Obj { name: "terrain+empty MWMO".into(), wmo_only: false, mwmo: Some(0), modf: None },
            Obj { name: "wmo-only: 1 name + 1 MODF".into(), wmo_only: true, mwmo: Some(1), modf: Some(1) },
            Obj { name: "wmo-only: 3 names + 3 MODF".into(), wmo_only: true, mwmo: Some(3), modf: Some(3) },
            Obj { name: "wmo-only: empty MWMO + empty MODF".into(), wmo_only: true, mwmo: Some(0), modf: Some(0) },
            Obj { name: "wmo-only: 1 name, no MODF".into(), wmo_only: true, mwmo: Some(1), modf: None },
            Obj { name: "terrain + 1 WMO name".into(), wmo_only: false, mwmo: Some(1), modf: None },
            Obj { name: "terrain + 1 MODF, no MWMO".into(), wmo_only: false, mwmo: None, modf: Some(1) },
        ];
        let opts = [None, Some(0usize), Some(1), Some(3)];
        let show = |o: Option<usize>| o.map(|n| n.to_string()).unwrap_or_else(|| "absent".into());
        for wmo_only in [false, true] {
            for mwmo in opts {
                for modf in opts {
                    if v.iter().any(|o| o.wmo_only == wmo_only && o.mwmo == mwmo && o.modf == modf) {
                        continue;
                    }
                    v.push(Obj { name: format!("{} (product): MWMO names {}, MODF records {}", if wmo_only { "wmo-only" } else { "terrain" }, show(mwmo), show(modf)), wmo_only, mwmo, modf });
                }
            }
        }
        assert_eq!(v.len(), 32);
        v
    })
}

fn names(n: usize) -> Vec<String> {
    let pool = [
        "World\\wmo\\Dungeon\\KL_Onyxia\\Onyxia.wmo".to_string(),
        "a".to_string(),
        format!("{}\\\u{00dc}n\u{00ef}code dir\\big.wmo", "x".repeat(300)),
    ];
    pool[..n].to_vec()
}

fn fb(v: f32) -> u32 {
    v.to_bits()
}
fn modfs(n: usize) -> Vec<Modf> {
    let mut e2f = [0u32; 12];
    for (j, x) in e2f.iter_mut().enumerate() {
        let b = mix(j as u32, 99, 5);
        *x = if f32::from_bits(b).is_nan() { fb(1.0) } else { b };
    }
    let pool = [
        Modf {
            id: 0,
            uid: 0xFFFF_FFFF,
            f: [fb(1.5), fb(-2.25), fb(17066.666), fb(0.0), fb(90.0), fb(0.0), fb(-10.0), fb(-20.0), fb(-30.0), fb(10.0), fb(20.0), fb(30.0)],
            flags: 0,
            dset: 0,
            nset: 0,
            scale: 0,
        },
        Modf {
            id: u32::MAX,
            uid: 0,
            f: [fb(-0.0), fb(f32::MAX), fb(f32::MIN_POSITIVE), fb(f32::INFINITY), fb(f32::NEG_INFINITY), 0x0000_0001, fb(f32::MIN), fb(1e-40), fb(0.1), fb(-1.0e30), fb(3.0), fb(533.333_3)],
            flags: 0xFFFF,
            dset: 0x8000,
            nset: 1,
            scale: 1024,
        },
        Modf { id: 2, uid: 0x1234_5678, f: e2f, flags: 0x0003, dset: 7, nset: 0xFFFF, scale: 512 },
    ];
    pool[..n].to_vec()
}

/// A name of exactly `len` bytes: valid UTF-8 without NUL, starts with the hex index (distinct per `k` once
/// `len` can hold it), contains path separators, spaces and (when it fits) one 2-byte character.
pub fn gen_name(k: usize, len: usize) -> String {
    const FILL: &[u8] = b"abcdefghijklmnopqrstuvwxyz0123456789_\\ .ABCDEFGHIJKLMNOPQRSTUVWXYZ-";
    let prefix = format!("{k:x}\\");
    let mut s = String::with_capacity(len);
    let two_byte_at = 3 + k % 5;
    let mut i = 0usize;
    while s.len() < len {
        let left = len - s.len();
        if i == two_byte_at && left >= 2 {
            s.push('\u{00fc}');
        } else if i < prefix.len() {
            s.push(prefix.as_bytes()[i] as char);
        } else {
            s.push(FILL[(i * 7 + k) % FILL.len()] as char);
        }
        i += 1;
    }
    debug_assert_eq!(s.len(), len);
    s
}

/// name-list shapes of the large-object spaces: (label, list); `None` = no name chunk in the definition
pub const NAME_SHAPES: [&str; 19] = [
    "absent",
    "0 names",
    "1 name of 1 byte",
    "1 name of 2 bytes",
    "1 name of 255 bytes",
    "1 name of 256 bytes",
    "1 name of 257 bytes",
    "1 name of 65535 bytes",
    "1 name of 65536 bytes",
    "1 name of 70001 bytes",
    "2 names of 1 byte",
    "3 names (path, 1 byte, 300+ bytes with non-ASCII)",
    "255 names of 9 bytes",
    "256 names of 9 bytes",
    "257 names of 9 bytes",
    "1000 names of 40 bytes",
    "4096 names of 3 bytes",
    "65536 names of 5 bytes",
    "2 identical names",
];
pub fn name_shape(k: usize) -> Option<Vec<String>> {
    let many = |n: usize, len: usize| Some((0..n).map(|j| gen_name(j, len)).collect::<Vec<_>>());
    match k {
        0 => None,
        1 => Some(vec![]),
        2 => many(1, 1),
        3 => many(1, 2),
        4 => many(1, 255),
        5 => many(1, 256),
        6 => many(1, 257),
        7 => many(1, 65535),
        8 => many(1, 65536),
        9 => many(1, 70001),
        10 => many(2, 1),
        11 => Some(names(3)),
        12 => many(255, 9),
        13 => many(256, 9),
        14 => many(257, 9),
        15 => many(1000, 40),
        16 => many(4096, 3),
        17 => many(65536, 5),
        18 => Some(vec!["World\\wmo\\dup.wmo".to_string(); 2]),
        _ => panic!("name shape {k}"),
    }
}

/// record counts of the large-object spaces; `None` = no placement chunk in the definition
pub const MODF_COUNTS: [Option<usize>; 13] = [None, Some(0), Some(1), Some(2), Some(3), Some(255), Some(256), Some(257), Some(1023), Some(1024), Some(1025), Some(4096), Some(65536)];
fn nn(b: u32) -> u32 {
    if f32::from_bits(b).is_nan() {
        fb(-7.25)
    } else {
        b
    }
}
/// the k-th generated placement: every field is a distinct hash of (k, field)
pub fn gen_modf(k: usize) -> Modf {
    let k = k as u32;
    let mut f = [0u32; 12];
    for (j, x) in f.iter_mut().enumerate() {
        *x = nn(mix(k, j as u32, 77));
    }
    Modf { id: mix(k, 1, 78), uid: k ^ 0x8000_0000, f, flags: mix(k, 2, 78) as u16, dset: mix(k, 3, 78) as u16, nset: mix(k, 4, 78) as u16, scale: mix(k, 5, 78) as u16 }
}
pub fn gen_modfs(n: usize) -> Vec<Modf> {
    if n <= 3 {
        return modfs(n);
    }
    (0..n).map(gen_modf).collect()
}

pub const MAID_MODES: [&str; 8] = [
    "none",
    "8 sections + flag 0x200 + header file ids",
    "5 sections + flag 0x200",
    "8 sections, flag 0x200 clear",
    "flag 0x200 set, no MAID chunk",
    "0 sections (empty MAID chunk) + flag 0x200",
    "1 section + flag 0x200",
    "9 sections (one beyond the 8 named, zero-filled) + flag 0x200",
];
/// MAID modes of the quick tier: 0..5
pub const MAID_MODES_Q: usize = 5;

/// (version index, maid mode): MAID only exists from BfA on
pub fn vm_list() -> Vec<(usize, usize)> {
    let mut v: Vec<(usize, usize)> = (0..8).map(|i| (i, 0)).collect();
    for m in 1..MAID_MODES_Q {
        v.push((BFA, m));
    }
    v
}
/// thorough: all 10 versions without MAID, then every MAID mode for each of the three versions that have the chunk
pub fn vm_list_thorough() -> Vec<(usize, usize)> {
    let mut v: Vec<(usize, usize)> = (0..NV).map(|i| (i, 0)).collect();
    for vi in BFA..NV {
        for m in 1..MAID_MODES.len() {
            v.push((vi, m));
        }
    }
    v
}

/// the 14 MPHD flag bits other than 0x0001 (map type axis) and 0x0200 (MAID axis)
pub const FREE_BITS: [u32; 14] = [1, 2, 3, 4, 5, 6, 7, 8, 10, 11, 12, 13, 14, 15];
pub fn flagsets(pairs: bool) -> Vec<u32> {
    let mut v = vec![0u32];
    for b in FREE_BITS {
        v.push(1 << b);
    }
    v.push(0xFDFE);
    v.push(0x5554);
    v.push(0xA8AA);
    if pairs {
        for i in 0..FREE_BITS.len() {
            for j in i + 1..FREE_BITS.len() {
                v.push((1 << FREE_BITS[i]) | (1 << FREE_BITS[j]));
            }
        }
    }
    v
}

pub fn make_model(vi: usize, maid_mode: usize, g: GridSel, values: usize, free_flags: u32, obj: usize) -> WdtModel {
    let o = &objs()[obj];
    let mut flags = free_flags & 0xFDFE;
    if o.wmo_only {
        flags |= 1;
    }
    if matches!(maid_mode, 1 | 2 | 4 | 5 | 6 | 7) {
        flags |= 0x200;
    }
    let words = if values == 0 { [0u32; 7] } else { [0xA000_0001, 2, u32::MAX, 0x0012_D687, 0x8000_0000, 5, 0x7FFF_FFFF] };
    let mut tiles = Vec::with_capacity(4096);
    for y in 0..64u32 {
        for x in 0..64u32 {
            tiles.push(tile_value(values, g.has(x, y), x, y));
        }
    }
    // Some(n) = a MAID chunk with n sections
    let nsec: Option<u32> = match maid_mode {
        1 | 3 => Some(8),
        2 => Some(5),
        5 => Some(0),
        6 => Some(1),
        7 => Some(9),
        _ => None,
    };
    let maid = nsec.map(|nsec| {
        let mut secs = vec![];
        for s in 0..nsec {
            if s >= 8 {
                // sections beyond the 8 named ones cannot be addressed through the API: zero-filled, represented as empty
                secs.push(vec![]);
                continue;
            }
            let mut sec = vec![0u32; 4096];
            for y in 0..64u32 {
                for x in 0..64u32 {
                    let idx = y * 64 + x;
                    if g.has(x, y) {
                        sec[idx as usize] = ((s + 1) << 20) | (idx + 1);
                    } else if values == 1 && s >= 5 && mix(x, y, 10 + s) % 4 == 0 {
                        sec[idx as usize] = 0x0F00_0000 | (s << 16) | idx;
                    }
                }
            }
            secs.push(sec);
        }
        secs
    });
    WdtModel { version: VERSIONS[vi], flags, words, tiles, maid, mwmo: o.mwmo.map(names), modf: o.modf.map(modfs) }
}

// ------------------------------------------------------------------ model <-> library types (public API idioms)

pub fn build(m: &WdtModel) -> WdtFile {
    let mut w = WdtFile::new(m.version);
    w.mphd.flags = MphdFlags::from_bits(m.flags).expect("all 16 low bits are named flags");
    if m.flags & 0x200 != 0 {
        w.mphd.set_file_data_ids(FileDataIds { lgt: m.words[0], occ: m.words[1], fogs: m.words[2], mpv: m.words[3], tex: m.words[4], wdl: m.words[5], pd4: m.words[6] });
    } else {
        w.mphd.something = m.words[0];
        w.mphd.unused.copy_from_slice(&m.words[1..7]);
    }
    for y in 0..64usize {
        for x in 0..64usize {
            let (f, a) = m.tiles[y * 64 + x];
            if f != 0 || a != 0 {
                let e = w.main.get_mut(x, y).expect("MAIN entry");
                e.flags = f;
                e.area_id = a;
            }
        }
    }
    if let Some(secs) = &m.maid {
        let mut maid = if secs.len() == 8 { MaidChunk::new() } else { MaidChunk::with_section_count(secs.len()) };
        for (s, sec) in secs.iter().enumerate() {
            if sec.is_empty() {
                continue; // zero-filled section beyond the named ones
            }
            for y in 0..64usize {
                for x in 0..64usize {
                    let id = sec[y * 64 + x];
                    if id != 0 {
                        maid.set(MaidSection::all()[s], x, y, id).expect("MAID set");
                    }
                }
            }
        }
        w.maid = Some(maid);
    }
    if let Some(n) = &m.mwmo {
        let mut c = MwmoChunk::new();
        for s in n {
            c.add_filename(s.clone());
        }
        w.mwmo = Some(c);
    }
    if let Some(es) = &m.modf {
        let mut c = ModfChunk::new();
        for e in es {
            let g = |k: usize| [f32::from_bits(e.f[k]), f32::from_bits(e.f[k + 1]), f32::from_bits(e.f[k + 2])];
            c.add_entry(ModfEntry { id: e.id, unique_id: e.uid, position: g(0), rotation: g(3), lower_bounds: g(6), upper_bounds: g(9), flags: e.flags, doodad_set: e.dset, name_set: e.nset, scale: e.scale });
        }
        w.modf = Some(c);
    }
    w
}

pub fn extract(w: &WdtFile) -> WdtModel {
    let flags = w.mphd.flags.bits();
    let words = if flags & 0x200 != 0 {
        [
            w.mphd.lgt_file_data_id.unwrap_or(0),
            w.mphd.occ_file_data_id.unwrap_or(0),
            w.mphd.fogs_file_data_id.unwrap_or(0),
            w.mphd.mpv_file_data_id.unwrap_or(0),
            w.mphd.tex_file_data_id.unwrap_or(0),
            w.mphd.wdl_file_data_id.unwrap_or(0),
            w.mphd.pd4_file_data_id.unwrap_or(0),
        ]
    } else {
        let u = w.mphd.unused;
        [w.mphd.something, u[0], u[1], u[2], u[3], u[4], u[5]]
    };
    let mut tiles = Vec::with_capacity(4096);
    for y in 0..64usize {
        for x in 0..64usize {
            match w.main.get(x, y) {
                Some(e) => tiles.push((e.flags, e.area_id)),
                None => tiles.push((0xDEAD_0000, 0xDEAD_0001)),
            }
        }
    }
    let maid = w.maid.as_ref().map(|md| {
        let n = md.section_count();
        let mut secs = vec![];
        for s in 0..n.min(8) {
            let mut sec = Vec::with_capacity(4096);
            for y in 0..64usize {
                for x in 0..64usize {
                    sec.push(md.get(MaidSection::all()[s], x, y).unwrap_or(0xDEAD_0002));
                }
            }
            secs.push(sec);
        }
        for _ in 8..n {
            secs.push(vec![]); // sections beyond the 8 named ones are not reachable through the API
        }
        secs
    });
    let mwmo = w.mwmo.as_ref().map(|c| c.filenames.clone());
    let modf = w.modf.as_ref().map(|c| {
        c.entries
            .iter()
            .map(|e| {
                let mut f = [0u32; 12];
                for k in 0..3 {
                    f[k] = e.position[k].to_bits();
                    f[3 + k] = e.rotation[k].to_bits();
                    f[6 + k] = e.lower_bounds[k].to_bits();
                    f[9 + k] = e.upper_bounds[k].to_bits();
                }
                Modf { id: e.id, uid: e.unique_id, f, flags: e.flags, dset: e.doodad_set, nset: e.name_set, scale: e.scale }
            })
            .collect()
    });
    WdtModel { version: w.version(), flags, words, tiles, maid, mwmo, modf }
}

fn write_wdt(w: &WdtFile) -> Result<Vec<u8>, String> {
    let mut buf = Vec::new();
    WdtWriter::new(&mut buf).write(w).map_err(|e| e.to_string())?;
    Ok(buf)
}

fn xy(idx: usize) -> String {
    format!("(x={},y={})", idx % 64, idx / 64)
}

// ------------------------------------------------------------------ oracle 1: independent walker over the written bytes

pub fn walk_check(bytes: &[u8], m: &WdtModel, pre: &str, r: &mut CaseResult) {
    let chunks = match walk(bytes) {
        Ok(c) => c,
        Err(e) => {
            r.viol(format!("{pre}: written bytes are not a well-formed chunk sequence"), e);
            return;
        }
    };
    let mut expect_names = vec!["MVER", "MPHD", "MAIN"];
    if m.maid.is_some() {
        expect_names.push("MAID");
    }
    if m.mwmo_on_disk() {
        expect_names.push("MWMO");
    }
    if m.modf.is_some() {
        expect_names.push("MODF");
    }
    let got_names: Vec<&str> = chunks.iter().map(|c| c.name.as_str()).collect();
    let has_mwmo = got_names.contains(&"MWMO");
    if has_mwmo && !m.mwmo_on_disk() {
        r.viol(
            format!("{pre}: MWMO chunk emitted where the version rule says none (terrain map, Cataclysm+, or no name list)"),
            format!("version={} wmo_only={} definition has mwmo={} chunks={:?}", vname(m.version), m.wmo_only(), m.mwmo.is_some(), got_names),
        );
    } else if !has_mwmo && m.mwmo_on_disk() {
        r.viol(
            format!("{pre}: MWMO chunk omitted where the version rule requires it (WMO-only map or pre-Cataclysm terrain map)"),
            format!("version={} wmo_only={} chunks={:?}", vname(m.version), m.wmo_only(), got_names),
        );
    }
    {
        let mut a: Vec<&str> = got_names.iter().copied().filter(|n| *n != "MWMO").collect();
        let mut b: Vec<&str> = expect_names.iter().copied().filter(|n| *n != "MWMO").collect();
        a.sort();
        b.sort();
        if a != b {
            r.viol(format!("{pre}: set of written chunks differs from the definition's sections (MVER/MPHD/MAIN/MAID/MODF)"), format!("written={:?} expected={:?}", got_names, expect_names));
            return;
        }
    }
    for c in &chunks {
        let d = &bytes[c.data_off..c.data_off + c.size];
        match c.name.as_str() {
            "MVER" => {
                if c.size != 4 || u32le(d, 0) != 18 {
                    r.viol(format!("{pre}: MVER chunk in written bytes is not version 18"), format!("size={} bytes={:?}", c.size, d));
                }
            }
            "MPHD" => {
                if c.size != 32 {
                    r.viol(format!("{pre}: MPHD chunk in written bytes is not 32 bytes"), format!("size={}", c.size));
                    continue;
                }
                if u32le(d, 0) != m.flags {
                    r.viol(format!("{pre}: MPHD flags in written bytes differ from the definition"), format!("written={:#06x} definition={:#06x}", u32le(d, 0), m.flags));
                }
                for k in 0..7 {
                    if u32le(d, 4 + 4 * k) != m.words[k] {
                        let what = if m.flags & 0x200 != 0 { "file ids" } else { "legacy header words" };
                        r.viol(format!("{pre}: MPHD {what} in written bytes differ from the definition"), format!("dword {} written={:#x} definition={:#x}", k + 1, u32le(d, 4 + 4 * k), m.words[k]));
                        break;
                    }
                }
            }
            "MAIN" => {
                if c.size != 4096 * 8 {
                    r.viol(format!("{pre}: MAIN chunk in written bytes is not 32768 bytes"), format!("size={}", c.size));
                    continue;
                }
                for idx in 0..4096 {
                    let got = (u32le(d, idx * 8), u32le(d, idx * 8 + 4));
                    if got != m.tiles[idx] {
                        r.viol(
                            format!("{pre}: MAIN entry at byte index y*64+x in written bytes differs from the definition (tile order / flags / area id)"),
                            format!("tile {} written=(flags {:#x}, area {:#x}) definition=(flags {:#x}, area {:#x})", xy(idx), got.0, got.1, m.tiles[idx].0, m.tiles[idx].1),
                        );
                        break;
                    }
                }
                r.count("wdt_walker_tiles_checked", 4096);
            }
            "MAID" => {
                let secs = m.maid.as_ref().unwrap();
                if c.size != secs.len() * 16384 {
                    r.viol(format!("{pre}: MAID chunk size in written bytes differs from section count x 16384"), format!("size={} sections={}", c.size, secs.len()));
                    continue;
                }
                'o: for (s, sec) in secs.iter().enumerate() {
                    for idx in 0..4096 {
                        let got = u32le(d, (s * 4096 + idx) * 4);
                        let want = if sec.is_empty() { 0 } else { sec[idx] };
                        if got != want {
                            r.viol(format!("{pre}: MAID file id at [section][y*64+x] in written bytes differs from the definition (section / tile order)"), format!("section {} tile {} written={:#x} definition={:#x}", s, xy(idx), got, want));
                            break 'o;
                        }
                    }
                }
            }
            "MWMO" => {
                if let Some(n) = &m.mwmo {
                    let got = cstrings(d);
                    let want: Vec<Vec<u8>> = n.iter().map(|s| s.as_bytes().to_vec()).collect();
                    if got != want || (c.size > 0 && d[c.size - 1] != 0) {
                        r.viol(format!("{pre}: MWMO name list in written bytes differs from the definition"), format!("written {} names / {} bytes, definition {} names", got.len(), c.size, want.len()));
                    }
                }
            }
            "MODF" => {
                let want: Vec<RawModf> = m.modf.as_ref().unwrap().iter().map(|e| RawModf { first: e.id, second: e.uid, f: e.f, h: [e.flags, e.dset, e.nset, e.scale] }).collect();
                match modf_records(d) {
                    Ok(got) => {
                        if got != want {
                            r.viol(format!("{pre}: MODF placement records in written bytes differ from the definition"), format!("written={} definition={}", brief(&got), brief(&want)));
                        }
                    }
                    Err(e) => r.viol(format!("{pre}: MODF chunk in written bytes is not a whole number of 64-byte records"), e),
                }
            }
            _ => {}
        }
    }
}

// ------------------------------------------------------------------ oracle 2: read back and compare field by field

pub fn compare(exp: &WdtModel, got: &WdtModel, pre: &str, r: &mut CaseResult) {
    if got.flags != exp.flags {
        r.viol(format!("{pre}: read(write(f)) differs in MPHD flags"), format!("got={:#06x} want={:#06x}", got.flags, exp.flags));
    }
    if got.words != exp.words {
        let what = if exp.flags & 0x200 != 0 { "MPHD file ids" } else { "MPHD legacy header words" };
        r.viol(format!("{pre}: read(write(f)) differs in {what}"), format!("got={:x?} want={:x?}", got.words, exp.words));
    }
    if let Some(idx) = (0..4096).find(|&i| got.tiles[i] != exp.tiles[i]) {
        r.viol(
            format!("{pre}: read(write(f)) differs in a MAIN tile entry (flags / area id / position)"),
            format!("tile {} got=(flags {:#x}, area {:#x}) want=(flags {:#x}, area {:#x})", xy(idx), got.tiles[idx].0, got.tiles[idx].1, exp.tiles[idx].0, exp.tiles[idx].1),
        );
    }
    match (&exp.maid, &got.maid) {
        (None, None) => {}
        (Some(a), Some(b)) => {
            if a.len() != b.len() {
                r.viol(format!("{pre}: read(write(f)) differs in MAID section count"), format!("got={} want={}", b.len(), a.len()));
            } else {
                'o: for s in 0..a.len().min(8) {
                    for idx in 0..4096 {
                        if a[s][idx] != b[s][idx] {
                            r.viol(format!("{pre}: read(write(f)) differs in a MAID file id (section / tile position)"), format!("section {} tile {} got={:#x} want={:#x}", s, xy(idx), b[s][idx], a[s][idx]));
                            break 'o;
                        }
                    }
                }
            }
        }
        (a, b) => r.viol(format!("{pre}: read(write(f)) differs in MAID presence"), format!("got present={} want present={}", b.is_some(), a.is_some())),
    }
    let want_mwmo = exp.expected_mwmo_after_read();
    if got.mwmo != want_mwmo {
        r.viol(format!("{pre}: read(write(f)) differs in the MWMO name list"), format!("version={} wmo_only={} got={:?} want={:?}", vname(exp.version), exp.wmo_only(), got.mwmo.as_ref().map(|v| v.len()), want_mwmo.as_ref().map(|v| v.len())));
    }
    if got.modf != exp.modf {
        let b = |o: &Option<Vec<Modf>>| o.as_ref().map(|v| brief(v)).unwrap_or_else(|| "absent".into());
        r.viol(format!("{pre}: read(write(f)) differs in MODF placements"), format!("got={} want={}", b(&got.modf), b(&exp.modf)));
    }
}

/// short rendering of a possibly very long list (details only)
pub fn brief<T: std::fmt::Debug>(v: &[T]) -> String {
    if v.len() <= 4 {
        format!("{:?}", v)
    } else {
        format!("[{} records, first {:?}, last {:?}]", v.len(), v[0], v[v.len() - 1])
    }
}

/// write -> walker -> read -> compare -> second write.  Returns the outcome class.
pub fn roundtrip(w: &WdtFile, m: &WdtModel, pre: &str, r: &mut CaseResult) -> String {
    let bytes1 = match write_wdt(w) {
        Ok(b) => b,
        Err(e) => {
            r.err_return = true;
            r.count("wdt_writer_refusals", 1);
            return format!("writer refused: {}", e.chars().take(40).collect::<String>());
        }
    };
    r.count("wdt_roundtrips", 1);
    r.count("wdt_bytes_written", bytes1.len() as u64);
    walk_check(&bytes1, m, pre, r);
    let back = match WdtReader::new(Cursor::new(&bytes1), m.version).read() {
        Ok(b) => b,
        Err(e) => {
            r.viol(format!("{pre}: reader rejects the writer's output"), format!("{e}"));
            return "reader rejected".into();
        }
    };
    if back.mver.version != 18 {
        r.viol(format!("{pre}: read(write(f)) differs in MVER"), format!("{}", back.mver.version));
    }
    let got = extract(&back);
    compare(m, &got, pre, r);
    // accessor view of the tiles (x/y convention of get_tile): the six probe tiles first, then the whole grid
    let probes = [(0usize, 0usize), (63, 0), (0, 63), (63, 63), (5, 40), (40, 5)];
    for (x, y) in probes.into_iter().chain((0..4096usize).map(|i| (i % 64, i / 64))) {
        match back.get_tile(x, y) {
            Some(t) => {
                if (t.flags, t.area_id) != m.tiles[y * 64 + x] || t.x != x || t.y != y {
                    r.viol(format!("{pre}: get_tile(x,y) after read(write(f)) reports another tile's flags / area id"), format!("tile (x={x},y={y}) got=(flags {:#x}, area {:#x})", t.flags, t.area_id));
                    break;
                }
                // tile presence as the accessor reports it (MAIN flag bit 0, or the MAID root id when a MAID chunk exists)
                // must be the same before the write and after the read
                if w.get_tile(x, y).map(|o| o.has_adt) != Some(t.has_adt) {
                    r.viol(format!("{pre}: get_tile(x,y).has_adt (tile presence) differs between the file before write and after read"), format!("tile (x={x},y={y}) after read has_adt={}", t.has_adt));
                    break;
                }
            }
            None => {
                r.viol(format!("{pre}: get_tile(x,y) after read(write(f)) returns None inside the 64x64 grid"), format!("tile (x={x},y={y})"));
                break;
            }
        }
    }
    if w.count_existing_tiles() != back.count_existing_tiles() {
        r.viol(format!("{pre}: count_existing_tiles differs between the file before write and after read"), format!("before={} after={}", w.count_existing_tiles(), back.count_existing_tiles()));
    }
    r.count("wdt_get_tile_probes", 4096 + 6);
    if m.mwmo.is_some() && !m.mwmo_on_disk() {
        r.count("wdt_mwmo_not_emitted_by_version_rule", 1);
        if m.mwmo.as_ref().map(|v| !v.is_empty()).unwrap_or(false) {
            r.count("wdt_nonempty_terrain_mwmo_dropped_by_version_rule", 1);
        }
    }
    if back.version() != m.version {
        r.count("wdt_reader_redetected_a_different_version", 1);
    }
    match write_wdt(&back) {
        Ok(bytes2) => {
            if bytes2 != bytes1 {
                let p = bytes1.iter().zip(bytes2.iter()).position(|(a, b)| a != b).unwrap_or(bytes1.len().min(bytes2.len()));
                r.viol(format!("{pre}: second write (write(read(write(f)))) is not byte-identical"), format!("len1={} len2={} first difference at byte {} (written as {}, re-detected as {})", bytes1.len(), bytes2.len(), p, vname(m.version), vname(back.version())));
            }
        }
        Err(e) => r.viol(format!("{pre}: writer refuses the file it produced itself on the second write"), e),
    }
    format!("ok mwmo={} maid={} modf={} redetected={}", if m.mwmo_on_disk() { "emitted" } else if m.mwmo.is_some() { "rule-omitted" } else { "absent" }, m.maid.is_some(), m.modf.is_some(), vname(back.version()))
}

// ------------------------------------------------------------------ spaces

#[derive(Clone, Copy)]
pub struct RtCase {
    vi: usize,
    maid: usize,
    g: GridSel,
    values: usize,
    flags: u32,
    obj: usize,
}

type Gen<T> = Box<dyn Fn(u64) -> T + Send + Sync>;
fn from_vec<T: Copy + Send + Sync + 'static>(v: Vec<T>) -> (u64, Gen<T>) {
    (v.len() as u64, Box::new(move |i| v[i as usize]))
}
/// concatenation of product blocks: (number of cases, decoder of the block-local index)
fn blocks<T: 'static>(bs: Vec<(u64, Gen<T>)>) -> (u64, Gen<T>) {
    let total: u64 = bs.iter().map(|b| b.0).sum();
    (
        total,
        Box::new(move |mut i| {
            for (n, g) in &bs {
                if i < *n {
                    return g(i);
                }
                i -= *n;
            }
            panic!("index beyond the space")
        }),
    )
}

pub struct WdtRoundtrip {
    name: &'static str,
    len: u64,
    gen: Gen<RtCase>,
}

/// the MPHD flag words with bit 0x200 clear (`set` = false) or set, in ascending order
fn word_with_maid_bit(k: u32, set: bool) -> u32 {
    // insert bit 9 into the 15-bit number k
    let low = k & 0x1FF;
    let high = (k >> 9) << 10;
    high | low | if set { 0x200 } else { 0 }
}

impl WdtRoundtrip {
    /// every single tile x (version, MAID mode) x {terrain as usual for the version, WMO-only}
    pub fn single(tier: Tier) -> Self {
        let objs: Vec<usize> = tier.pick(vec![usize::MAX, 2], vec![usize::MAX, 2, 3, 7]);
        let vms = tier.pick(vm_list(), vm_list_thorough());
        let mut cases = vec![];
        for &obj in &objs {
            for &(vi, maid) in &vms {
                for t in 0..4096u32 {
                    let (x, y) = (t % 64, t / 64);
                    // usize::MAX = the usual terrain shape of that version: empty MWMO before Cataclysm, none after
                    let o = if obj == usize::MAX { if vi < 3 { 1 } else { 0 } } else { obj };
                    cases.push(RtCase { vi, maid, g: GridSel::Single(x, y), values: 1, flags: if t % 2 == 0 { 0 } else { 0x5554 }, obj: o });
                }
            }
        }
        let (len, gen) = from_vec(cases);
        WdtRoundtrip { name: "wdt_single", len, gen }
    }
    /// grids x value modes x flag sets x object shapes x (version, MAID mode)
    pub fn main(tier: Tier) -> Self {
        if tier == Tier::Quick {
            let mut cases = vec![];
            let fl = flagsets(false);
            for (vi, maid) in vm_list() {
                for obj in 0..OBJS_Q {
                    for &flags in &fl {
                        for values in 0..2 {
                            for p in 0..GRIDS.len() {
                                cases.push(RtCase { vi, maid, g: GridSel::Pat(p), values, flags, obj });
                            }
                        }
                    }
                }
            }
            let (len, gen) = from_vec(cases);
            return WdtRoundtrip { name: "wdt_main", len, gen };
        }
        // thorough, block 1: 31 (version, MAID mode) x the 8 hand-picked object shapes x 109 flag sets (incl. all bit pairs) x 2 x 14 grids
        // block 2: 31 x the 24 remaining shapes of the 32-shape product x the 18 non-pair flag sets x 2 x 14 grids
        let vms = vm_list_thorough();
        let mk = move |objs: std::ops::Range<usize>, fl: Vec<u32>| -> (u64, Gen<RtCase>) {
            let vms = vms.clone();
            let rad = [GRIDS.len() as u64, 2, fl.len() as u64, objs.len() as u64, vms.len() as u64];
            (
                gen::product(&rad),
                Box::new(move |i| {
                    let d = gen::mixed_radix(i, &rad);
                    let (vi, maid) = vms[d[4] as usize];
                    RtCase { vi, maid, g: GridSel::Pat(d[0] as usize), values: d[1] as usize, flags: fl[d[2] as usize], obj: objs.start + d[3] as usize }
                }),
            )
        };
        let (len, gen) = blocks(vec![mk(0..OBJS_Q, flagsets(true)), mk(OBJS_Q..objs().len(), flagsets(false))]);
        WdtRoundtrip { name: "wdt_main", len, gen }
    }
    /// MPHD flag words x versions on a fixed asymmetric grid; bit 0 selects WMO-only, bit 0x200 the file-id header (+MAID in BfA)
    pub fn flags(tier: Tier) -> Self {
        if tier == Tier::Quick {
            let mut words: Vec<u32> = vec![0];
            for i in 0..16 {
                words.push(1 << i);
            }
            for i in 0..16 {
                for j in i + 1..16 {
                    words.push((1 << i) | (1 << j));
                }
            }
            words.push(0xFFFF);
            let mut cases = vec![];
            for &w in &words {
                for vi in 0..8 {
                    let wmo = w & 1 != 0;
                    let maid = if w & 0x200 != 0 { if vi == BFA { 1 } else { 4 } } else { 0 };
                    let obj = if wmo { 2 } else if vi < 3 { 1 } else { 0 };
                    cases.push(RtCase { vi, maid, g: GridSel::Pat(9), values: 1, flags: w & 0xFDFE, obj });
                }
            }
            let (len, gen) = from_vec(cases);
            return WdtRoundtrip { name: "wdt_flags", len, gen };
        }
        // thorough: all 65536 words x all 10 versions x every MAID mode consistent with bit 0x200 (BfA: all of them;
        // Shadowlands/Dragonflight: the plain one; earlier versions: flag without chunk) x 4 object shapes consistent with bit 0
        let mk = |set: bool| -> (u64, Gen<RtCase>) {
            let mut vms: Vec<(usize, usize)> = vec![];
            for vi in 0..NV {
                if vi < BFA {
                    vms.push((vi, if set { 4 } else { 0 }));
                } else if vi == BFA {
                    let modes: &[usize] = if set { &[1, 2, 4, 5, 6, 7] } else { &[0, 3] };
                    vms.extend(modes.iter().map(|&m| (vi, m)));
                } else {
                    vms.push((vi, if set { 1 } else { 0 }));
                }
            }
            // terrain: usual shape of the version / +1 MODF without MWMO / +1 name / 3 names + 3 MODF;
            // WMO-only: 1+1 / 1 name without MODF / empty+empty / 3+3
            let t33 = objs().iter().position(|o| !o.wmo_only && o.mwmo == Some(3) && o.modf == Some(3)).expect("shape");
            let rad = [4u64, vms.len() as u64, 32768];
            (
                gen::product(&rad),
                Box::new(move |i| {
                    let d = gen::mixed_radix(i, &rad);
                    let w = word_with_maid_bit(d[2] as u32, set);
                    let (vi, maid) = vms[d[1] as usize];
                    let obj = match (w & 1 != 0, d[0]) {
                        (true, k) => [2, 5, 4, 3][k as usize],
                        (false, 0) => {
                            if vi < 3 {
                                1
                            } else {
                                0
                            }
                        }
                        (false, k) => [0, 7, 6, t33][k as usize],
                    };
                    RtCase { vi, maid, g: GridSel::Pat(9), values: 1, flags: w & 0xFDFE, obj }
                }),
            )
        };
        let (len, gen) = blocks(vec![mk(false), mk(true)]);
        WdtRoundtrip { name: "wdt_flags", len, gen }
    }
    fn model(&self, c: &RtCase) -> WdtModel {
        make_model(c.vi, c.maid, c.g, c.values, c.flags, c.obj)
    }
}

impl Space for WdtRoundtrip {
    fn len(&self) -> u64 {
        self.len
    }
    fn describe(&self, i: u64) -> Value {
        let c = &(self.gen)(i);
        let m = self.model(c);
        json!({"space": self.name, "format": "WDT", "version": VNAMES[c.vi], "grid": c.g.describe(), "values": VALUE_MODES[c.values],
               "mphd_flags": format!("{:#06x}", m.flags), "objects": objs()[c.obj].name, "maid": MAID_MODES[c.maid]})
    }
    fn run(&self, i: u64) -> CaseResult {
        let c = &(self.gen)(i);
        let m = self.model(c);
        let mut r = CaseResult::new();
        r.key = format!("{}:v{}m{}{}a{}f{:x}o{}", self.name, c.vi, c.maid, c.g.key(), c.values, m.flags, c.obj);
        r.nontrivial = !m.trivial();
        let w = build(&m);
        if extract(&w) != m {
            r.viol("wdt: accessors disagree (MAIN get_mut/get or MAID set/get do not address the same tile)", "extract(build(definition)) != definition");
        }
        r.outcome = roundtrip(&w, &m, "wdt", &mut r);
        r
    }
}

/// Large name lists / placement lists (thorough only): counts and lengths around 255/256/65535/65536.
pub struct WdtObjects {
    vms: Vec<(usize, usize)>,
    rad: [u64; 4],
}
impl WdtObjects {
    pub fn new(_tier: Tier) -> Self {
        let mut vms: Vec<(usize, usize)> = (0..NV).map(|i| (i, 0)).collect();
        vms.push((BFA, 1));
        let rad = [MODF_COUNTS.len() as u64, NAME_SHAPES.len() as u64, 2, vms.len() as u64];
        WdtObjects { vms, rad }
    }
    fn decode(&self, i: u64) -> (usize, usize, bool, usize, usize) {
        let d = gen::mixed_radix(i, &self.rad);
        let (vi, maid) = self.vms[d[3] as usize];
        (vi, maid, d[2] == 1, d[1] as usize, d[0] as usize)
    }
}
impl Space for WdtObjects {
    fn len(&self) -> u64 {
        gen::product(&self.rad)
    }
    fn describe(&self, i: u64) -> Value {
        let (vi, maid, wmo, ns, mc) = self.decode(i);
        json!({"space": "wdt_objects", "format": "WDT", "version": VNAMES[vi], "maid": MAID_MODES[maid], "map_type": if wmo { "wmo-only" } else { "terrain" },
               "mwmo": NAME_SHAPES[ns], "modf_records": MODF_COUNTS[mc].map(|n| json!(n)).unwrap_or(json!("absent")), "grid": GRIDS[11]})
    }
    fn run(&self, i: u64) -> CaseResult {
        let (vi, maid, wmo, ns, mc) = self.decode(i);
        // object shape 0 = terrain, 4 = WMO-only; the lists are replaced by the generated ones
        let mut m = make_model(vi, maid, GridSel::Pat(11), 1, if i % 2 == 0 { 0x5554 } else { 0xA8AA }, if wmo { 4 } else { 0 });
        m.mwmo = name_shape(ns);
        m.modf = MODF_COUNTS[mc].map(gen_modfs);
        let mut r = CaseResult::new();
        r.key = format!("wdt_objects:v{vi}m{maid}w{wmo}n{ns}c{mc}");
        r.nontrivial = true;
        let w = build(&m);
        r.outcome = roundtrip(&w, &m, "wdt", &mut r);
        r
    }
    fn case_timeout(&self) -> u64 {
        120
    }
}

/// the 64 subsets of the MPHD bits that `convert_wdt` adds or removes, each with the other free bits all clear / all set
pub fn conv_flagsets() -> Vec<u32> {
    let bits = [0x2u32, 0x4, 0x8, 0x10, 0x40, 0x80];
    let all: u32 = bits.iter().sum();
    let mut v = vec![];
    for filler in [0u32, 0xFDFE & !all] {
        for s in 0..64u32 {
            let mut w = filler;
            for (k, b) in bits.iter().enumerate() {
                if s & (1 << k) != 0 {
                    w |= b;
                }
            }
            v.push(w);
        }
    }
    v
}

/// convert_wdt over all (from, to) pairs
pub struct WdtConv {
    len: u64,
    gen: Gen<(RtCase, usize)>,
}
impl WdtConv {
    pub fn new(tier: Tier) -> Self {
        if tier == Tier::Quick {
            let grids: Vec<usize> = vec![0, 1, 9, 8, 11, 13];
            let fl = [0u32, 0xFDFE, 0x5554, 0xA8AA];
            let mut from: Vec<(usize, usize)> = (0..8).map(|i| (i, 0)).collect();
            from.push((BFA, 1));
            let mut cases = vec![];
            for &(vi, maid) in &from {
                for to in 0..8 {
                    for obj in 0..OBJS_Q {
                        for &flags in &fl {
                            for values in 0..2 {
                                for &p in &grids {
                                    cases.push((RtCase { vi, maid, g: GridSel::Pat(p), values, flags, obj }, to));
                                }
                            }
                        }
                    }
                }
            }
            let (len, gen) = from_vec(cases);
            return WdtConv { len, gen };
        }
        // thorough: sources = 10 versions + {BfA, Shadowlands, Dragonflight} x MAID modes {8+ids, 5 sections, chunk without flag, flag without chunk};
        // targets = 10 versions.  Block 1: 14 grids x 2 x 4 flag sets x all 32 shapes; block 2: 2 grids x 2 x 128 conversion-sensitive flag sets x 4 shapes
        let mut from: Vec<(usize, usize)> = (0..NV).map(|i| (i, 0)).collect();
        for vi in BFA..NV {
            for m in 1..MAID_MODES_Q {
                from.push((vi, m));
            }
        }
        let mk = move |grids: Vec<usize>, fl: Vec<u32>, objl: Vec<usize>| -> (u64, Gen<(RtCase, usize)>) {
            let from = from.clone();
            let rad = [grids.len() as u64, 2, fl.len() as u64, objl.len() as u64, NV as u64, from.len() as u64];
            (
                gen::product(&rad),
                Box::new(move |i| {
                    let d = gen::mixed_radix(i, &rad);
                    let (vi, maid) = from[d[5] as usize];
                    (RtCase { vi, maid, g: GridSel::Pat(grids[d[0] as usize]), values: d[1] as usize, flags: fl[d[2] as usize], obj: objl[d[3] as usize] }, d[4] as usize)
                }),
            )
        };
        let (len, gen) = blocks(vec![mk((0..GRIDS.len()).collect(), vec![0u32, 0xFDFE, 0x5554, 0xA8AA], (0..objs().len()).collect()), mk(vec![9, 13], conv_flagsets(), vec![0, 1, 2, 7])]);
        WdtConv { len, gen }
    }
}
impl Space for WdtConv {
    fn len(&self) -> u64 {
        self.len
    }
    fn describe(&self, i: u64) -> Value {
        let (c, to) = &(self.gen)(i);
        let m = make_model(c.vi, c.maid, c.g, c.values, c.flags, c.obj);
        json!({"space": "wdt_conv", "format": "WDT", "from": VNAMES[c.vi], "to": VNAMES[*to], "grid": c.g.describe(), "values": VALUE_MODES[c.values],
               "mphd_flags": format!("{:#06x}", m.flags), "objects": objs()[c.obj].name, "maid": MAID_MODES[c.maid]})
    }
    fn run(&self, i: u64) -> CaseResult {
        let (c, to) = &(self.gen)(i);
        let m = make_model(c.vi, c.maid, c.g, c.values, c.flags, c.obj);
        let mut r = CaseResult::new();
        r.key = format!("wdt_conv:v{}m{}>{}{}a{}f{:x}o{}", c.vi, c.maid, to, c.g.key(), c.values, m.flags, c.obj);
        r.nontrivial = !c.g.is_empty() || !m.trivial();
        let mut w = build(&m);
        let target = VERSIONS[*to];
        if let Err(e) = convert_wdt(&mut w, m.version, target) {
            r.err_return = true;
            r.outcome = format!("convert refused: {}", e.to_string().chars().take(40).collect::<String>());
            return r;
        }
        r.count("wdt_conversions", 1);
        let conv = extract(&w);
        if let Some(idx) = (0..4096).find(|&k| conv.tiles[k] != m.tiles[k]) {
            r.viol(
                "wdt convert: a MAIN tile entry (flags / area id) changed during version conversion",
                format!("{}->{} tile {} before=(flags {:#x}, area {:#x}) after=(flags {:#x}, area {:#x})", VNAMES[c.vi], VNAMES[*to], xy(idx), m.tiles[idx].0, m.tiles[idx].1, conv.tiles[idx].0, conv.tiles[idx].1),
            );
        }
        if w.version() != target {
            r.viol("wdt convert: converted file does not carry the target version", format!("{}->{} got {}", VNAMES[c.vi], VNAMES[*to], vname(w.version())));
        }
        if c.vi == *to && conv != m {
            r.viol("wdt convert: conversion to the same version changed the file", format!("{}", VNAMES[*to]));
        }
        // both sides can hold per-tile file ids: they are tile data too
        if c.vi == BFA && *to == BFA && conv.maid != m.maid {
            r.viol("wdt convert: MAID per-tile file ids changed in a BfA->BfA conversion", "");
        }
        if c.vi >= BFA && *to >= BFA && c.vi != *to && conv.maid != m.maid {
            r.viol("wdt convert: MAID per-tile file ids changed in a conversion between two versions that both have the MAID chunk", format!("{}->{}", VNAMES[c.vi], VNAMES[*to]));
        }
        // observation (not judged): an all-zero MAID added on the way to BfA makes get_tile/has_adt report "no tile"
        if c.vi < BFA && *to >= BFA {
            let before = m.tiles.iter().filter(|t| t.0 & 1 != 0).count();
            if before > 0 && w.count_existing_tiles() == 0 {
                r.count("wdt_conv_to_bfa_empty_maid_shadows_main_has_adt", 1);
            }
        }
        // the converted file must itself survive write -> parse, and the bytes must hold the source tiles
        let mut conv_with_src_tiles = conv.clone();
        conv_with_src_tiles.tiles = m.tiles.clone();
        let oc = roundtrip(&w, &conv_with_src_tiles, "wdt convert->write", &mut r);
        r.outcome = format!("converted maid:{}->{} mwmo:{}->{} | {}", m.maid.is_some(), conv.maid.is_some(), m.mwmo.is_some(), conv.mwmo.is_some(), oc);
        r
    }
}

/// Conversion chains that start from a parsed state (thorough only):
/// build -> write -> read -> convert A->B -> write -> read -> convert B->C, against the direct conversion A->C.
pub struct WdtChain {
    from: Vec<(usize, usize)>,
    rad: [u64; 7],
}
const CHAIN_GRIDS: [usize; 4] = [9, 13, 11, 1];
const CHAIN_FLAGS: [u32; 4] = [0, 0xFDFE, 0x5554, 0xA8AA];
impl WdtChain {
    pub fn new(_tier: Tier) -> Self {
        let mut from: Vec<(usize, usize)> = (0..NV).map(|i| (i, 0)).collect();
        for vi in BFA..NV {
            from.push((vi, 1));
        }
        let rad = [CHAIN_GRIDS.len() as u64, 2, CHAIN_FLAGS.len() as u64, OBJS_Q as u64, NV as u64, NV as u64, from.len() as u64];
        WdtChain { from, rad }
    }
    fn decode(&self, i: u64) -> (RtCase, usize, usize) {
        let d = gen::mixed_radix(i, &self.rad);
        let (vi, maid) = self.from[d[6] as usize];
        (RtCase { vi, maid, g: GridSel::Pat(CHAIN_GRIDS[d[0] as usize]), values: d[1] as usize, flags: CHAIN_FLAGS[d[2] as usize], obj: d[3] as usize }, d[5] as usize, d[4] as usize)
    }
}
impl Space for WdtChain {
    fn len(&self) -> u64 {
        gen::product(&self.rad)
    }
    fn describe(&self, i: u64) -> Value {
        let (c, b, to) = self.decode(i);
        let m = make_model(c.vi, c.maid, c.g, c.values, c.flags, c.obj);
        json!({"space": "wdt_chain", "format": "WDT", "from": VNAMES[c.vi], "via": VNAMES[b], "to": VNAMES[to], "grid": c.g.describe(), "values": VALUE_MODES[c.values],
               "mphd_flags": format!("{:#06x}", m.flags), "objects": objs()[c.obj].name, "maid": MAID_MODES[c.maid]})
    }
    fn run(&self, i: u64) -> CaseResult {
        let (c, b, to) = self.decode(i);
        let m = make_model(c.vi, c.maid, c.g, c.values, c.flags, c.obj);
        let mut r = CaseResult::new();
        r.key = format!("wdt_chain:v{}m{}>{}>{}{}a{}f{:x}o{}", c.vi, c.maid, b, to, c.g.key(), c.values, m.flags, c.obj);
        r.nontrivial = true;
        let path = format!("{}->{}->{}", VNAMES[c.vi], VNAMES[b], VNAMES[to]);
        // start from a parsed state, not from a freshly built object
        let w0 = build(&m);
        let Ok(bytes0) = write_wdt(&w0) else {
            r.err_return = true;
            r.outcome = "writer refused the source".into();
            return r;
        };
        let mut cur = match WdtReader::new(Cursor::new(&bytes0), m.version).read() {
            Ok(x) => x,
            Err(e) => {
                r.viol("wdt chain: reader rejects the writer's output", format!("{path} source: {e}"));
                return r;
            }
        };
        let mut declared = m.version;
        for (step, &nv) in [b, to].iter().enumerate() {
            if let Err(e) = convert_wdt(&mut cur, declared, VERSIONS[nv]) {
                r.err_return = true;
                r.outcome = format!("convert refused at step {}: {}", step + 1, e.to_string().chars().take(40).collect::<String>());
                return r;
            }
            r.count("wdt_chain_conversions", 1);
            declared = VERSIONS[nv];
            let x = extract(&cur);
            if let Some(idx) = (0..4096).find(|&k| x.tiles[k] != m.tiles[k]) {
                r.viol(
                    "wdt chain: a MAIN tile entry (flags / area id) changed along write->read->convert->write->read->convert",
                    format!("{path} after step {} tile {} source=(flags {:#x}, area {:#x}) now=(flags {:#x}, area {:#x})", step + 1, xy(idx), m.tiles[idx].0, m.tiles[idx].1, x.tiles[idx].0, x.tiles[idx].1),
                );
                return r;
            }
            // the converted state must survive write -> read with the source tiles in its bytes
            let mut expect = x.clone();
            expect.tiles = m.tiles.clone();
            let oc = roundtrip(&cur, &expect, "wdt chain->write", &mut r);
            if step == 0 {
                // continue from the parsed bytes of the intermediate file
                let Ok(bytes1) = write_wdt(&cur) else {
                    r.err_return = true;
                    r.outcome = "writer refused the intermediate file".into();
                    return r;
                };
                cur = match WdtReader::new(Cursor::new(&bytes1), declared).read() {
                    Ok(x) => x,
                    Err(_) => return r, // already reported by roundtrip
                };
            } else {
                r.outcome = format!("chain ok | {oc}");
            }
        }
        let chain = extract(&cur);
        // per-tile file ids survive when every version on the path has the chunk
        if c.vi >= BFA && b >= BFA && to >= BFA && chain.maid != m.maid {
            r.viol("wdt chain: MAID per-tile file ids changed along a path of versions that all have the MAID chunk", path.clone());
        }
        // direct conversion of the freshly built object
        let mut direct = build(&m);
        if convert_wdt(&mut direct, m.version, VERSIONS[to]).is_ok() {
            let d = extract(&direct);
            if d.tiles != chain.tiles {
                r.viol("wdt chain: MAIN tile entries after A->B->C differ from the direct conversion A->C", path.clone());
            }
            if d.flags != chain.flags || d.maid.is_some() != chain.maid.is_some() || d.mwmo != chain.mwmo || d.modf != chain.modf {
                r.count("wdt_chain_differs_from_direct_in_non_tile_fields", 1); // observation, not judged
            }
        }
        if c.vi == to {
            r.count("wdt_chain_round_trips_a_b_a", 1);
        }
        r
    }
}
