//! the symbolic call alphabet: every call names its handle argument by a *selector* that is
//! resolved against the model when the call is executed

#[derive(Clone, Copy, Debug, PartialEq, Eq)]
pub enum Kind {
    Arch = 0,
    File = 1,
    Find = 2,
}

#[derive(Clone, Copy, Debug, PartialEq, Eq)]
pub enum Sel {
    First,     // oldest live handle of the right kind
    Last,      // youngest live handle of the right kind (only when there are two)
    Wrong,     // a live handle of another kind
    Closed,    // the handle most recently closed by its own close call
    Purged,    // a file/find handle whose archive was closed
    Null,      // NULL
    Forged1,   // largest handle value ever returned + 1
    ForgedMax, // usize::MAX
}
impl Sel {
    pub fn s(&self) -> &'static str {
        match self {
            Sel::First => "first",
            Sel::Last => "last",
            Sel::Wrong => "wrongkind",
            Sel::Closed => "closed",
            Sel::Purged => "purged",
            Sel::Null => "NULL",
            Sel::Forged1 => "forged+1",
            Sel::ForgedMax => "forgedMAX",
        }
    }
    pub fn is_live(&self) -> bool {
        matches!(self, Sel::First | Sel::Last)
    }
    pub fn why_dead(&self) -> &'static str {
        match self {
            Sel::Wrong => "a live handle of another kind",
            Sel::Closed => "a handle that was closed",
            Sel::Purged => "a handle whose archive was closed",
            Sel::Null => "NULL",
            Sel::Forged1 => "a forged handle (next unused id)",
            Sel::ForgedMax => "a forged handle (usize::MAX)",
            _ => "a handle that is not live",
        }
    }
}
pub const LIVE: [Sel; 2] = [Sel::First, Sel::Last];
pub const BAD_A: [Sel; 5] = [Sel::Wrong, Sel::Closed, Sel::Null, Sel::Forged1, Sel::ForgedMax];
pub const BAD_F: [Sel; 6] = [Sel::Wrong, Sel::Closed, Sel::Purged, Sel::Null, Sel::Forged1, Sel::ForgedMax];

#[derive(Clone, Copy, Debug, PartialEq, Eq)]
pub enum PathSel {
    Good1,
    Good2,
    Missing,
    Garbage,
    Truncated,
}

/// NAMES[7] is longer than MAX_PATH (300 characters)
pub const NAMES: [&str; 8] = ["readme.txt", "data\\blob.bin", "x", "added\\one.txt", "never\\there.dat", "renamed.txt", "empty.dat", "long\\nnnnnnnnnnnnnnnnnnnnnnnnnnnnnnnnnnnnnnnnnnnnnnnnnnnnnnnnnnnnnnnnnnnnnnnnnnnnnnnnnnnnnnnnnnnnnnnnnnnnnnnnnnnnnnnnnnnnnnnnnnnnnnnnnnnnnnnnnnnnnnnnnnnnnnnnnnnnnnnnnnnnnnnnnnnnnnnnnnnnnnnnnnnnnnnnnnnnnnnnnnnnnnnnnnnnnnnnnnnnnnnnnnnnnnnnnnnnnnnnnnnnnnnnnnnnnnnnnnnnnnnnnnnnnnnnnnnnnnnnnnnnnnnnnn.bin"];
pub fn show(n: usize) -> &'static str {
    if n == 7 {
        "<300-char name>"
    } else {
        NAMES[n]
    }
}
pub const MASKS: [&str; 4] = ["*", "*.txt", "?", "zz*"];

#[derive(Clone, Copy, Debug, PartialEq, Eq)]
pub enum NSel {
    Zero,
    Three,
    Len,
    LenPlus5,
}
#[derive(Clone, Copy, Debug, PartialEq, Eq)]
pub enum Off {
    Abs(i32),
    Len,
    LenPlus1,
    NegLenMinus1,
}
#[derive(Clone, Copy, Debug, PartialEq, Eq)]
pub enum Buf {
    Zero,
    One,
    Three,
    Four,
    ExactMinus1,
    Exact,
    SixtyFour,
    Big,
    NullZero,
}
impl Buf {
    pub fn s(&self) -> &'static str {
        match self {
            Buf::Zero => "buf0",
            Buf::One => "buf1",
            Buf::Three => "buf3",
            Buf::Four => "buf4",
            Buf::ExactMinus1 => "exact-1",
            Buf::Exact => "exact",
            Buf::SixtyFour => "buf64",
            Buf::Big => "buf300",
            Buf::NullZero => "NULL/0",
        }
    }
    pub fn size(&self, exact: usize) -> usize {
        match self {
            Buf::Zero | Buf::NullZero => 0,
            Buf::One => 1,
            Buf::Three => 3,
            Buf::Four => 4,
            Buf::ExactMinus1 => exact.saturating_sub(1),
            Buf::Exact => exact,
            Buf::SixtyFour => 64,
            Buf::Big => 300,
        }
    }
}
#[derive(Clone, Copy, Debug, PartialEq, Eq)]
pub enum Cb {
    All,
    StopFirst,
    NoCallback,
    /// the callback itself asks the API about the name it was given (SFileHasFile on the same archive)
    Reentrant,
}
#[derive(Clone, Copy, Debug, PartialEq, Eq)]
pub enum C2 {
    V1Listfile,
    BadSize,
    BadVersion,
    NullInfo,
}

pub const INFO_ARCHIVE_SIZE: u32 = 1;
pub const INFO_HASH_TABLE_SIZE: u32 = 2;
pub const INFO_BLOCK_TABLE_SIZE: u32 = 3;
pub const INFO_SECTOR_SIZE: u32 = 4;
pub const INFO_FILE_SIZE: u32 = 7;
pub const INFO_POSITION: u32 = 10;

#[derive(Clone, Debug, PartialEq)]
pub enum Act {
    OpenArchive(PathSel),
    CreateArchive(u32, u32),
    CreateArchive2(C2),
    CloseArchive(Sel),
    OpenFile(Sel, usize),
    CloseFile(Sel),
    Read(Sel, NSel, bool),
    Seek(Sel, Off, u32, Option<i32>),
    FileSize(Sel, bool),
    FileName(Sel),
    Info(Kind, Sel, u32, Buf, bool),
    HasFile(Sel, usize),
    ArchiveName(Sel, Buf),
    Enum(Sel, Option<usize>, Cb),
    FindFirst(Sel, Option<usize>),
    FindNext(Sel),
    FindClose(Sel),
    Add(Sel, usize, usize, bool, u32),
    Remove(Sel, usize),
    Rename(Sel, usize, usize),
    Flush(Sel),
    Compact(Sel),
    VerifyFile(Sel, usize, u32),
    VerifyArchive(Sel, u32),
    Extract(Sel, usize),
}

impl Act {
    /// the C function exercised
    pub fn func(&self) -> &'static str {
        match self {
            Act::OpenArchive(..) => "SFileOpenArchive",
            Act::CreateArchive(..) => "SFileCreateArchive",
            Act::CreateArchive2(..) => "SFileCreateArchive2",
            Act::CloseArchive(..) => "SFileCloseArchive",
            Act::OpenFile(..) => "SFileOpenFileEx",
            Act::CloseFile(..) => "SFileCloseFile",
            Act::Read(..) => "SFileReadFile",
            Act::Seek(..) => "SFileSetFilePointer",
            Act::FileSize(..) => "SFileGetFileSize",
            Act::FileName(..) => "SFileGetFileName",
            Act::Info(..) => "SFileGetFileInfo",
            Act::HasFile(..) => "SFileHasFile",
            Act::ArchiveName(..) => "SFileGetArchiveName",
            Act::Enum(..) => "SFileEnumFiles",
            Act::FindFirst(..) => "SFileFindFirstFile",
            Act::FindNext(..) => "SFileFindNextFile",
            Act::FindClose(..) => "SFileFindClose",
            Act::Add(..) => "SFileAddFileEx",
            Act::Remove(..) => "SFileRemoveFile",
            Act::Rename(..) => "SFileRenameFile",
            Act::Flush(..) => "SFileFlushArchive",
            Act::Compact(..) => "SFileCompactArchive",
            Act::VerifyFile(..) => "SFileVerifyFile",
            Act::VerifyArchive(..) => "SFileVerifyArchive",
            Act::Extract(..) => "SFileExtractFile",
        }
    }
    /// label with the live-handle selector erased (hang classes)
    pub fn label_class(&self) -> String {
        self.label().replace(".first", ".live").replace(".last", ".live")
    }
    pub fn label(&self) -> String {
        let f = self.func();
        let m = |o: &Option<usize>| o.map(|i| format!("\"{}\"", MASKS[i])).unwrap_or("NULL".into());
        match self {
            Act::OpenArchive(p) => format!("{f}({p:?})"),
            Act::CreateArchive(d, h) => format!("{f}(created.mpq,disposition={d},hash={h})"),
            Act::CreateArchive2(c) => format!("{f}(mut.mpq,{c:?})"),
            Act::CloseArchive(s) => format!("{f}(A.{})", s.s()),
            Act::OpenFile(s, n) => format!("{f}(A.{},{})", s.s(), show(*n)),
            Act::CloseFile(s) => format!("{f}(F.{})", s.s()),
            Act::Read(s, n, c) => format!("{f}(F.{},{n:?}{})", s.s(), if *c { "" } else { ",count=NULL" }),
            Act::Seek(s, o, meth, hi) => format!("{f}(F.{},{o:?},method={meth}{})", s.s(), hi.map(|h| format!(",high={h}")).unwrap_or_default()),
            Act::FileSize(s, h) => format!("{f}(F.{}{})", s.s(), if *h { "" } else { ",high=NULL" }),
            Act::FileName(s) => format!("{f}(F.{})", s.s()),
            Act::Info(k, s, c, b, np) => format!("{f}({}.{},class={c},{}{})", ["A", "F", "D"][*k as usize], s.s(), b.s(), if *np { "" } else { ",needed=NULL" }),
            Act::HasFile(s, n) => format!("{f}(A.{},{})", s.s(), show(*n)),
            Act::ArchiveName(s, b) => format!("{f}(A.{},{})", s.s(), b.s()),
            Act::Enum(s, mk, cb) => format!("{f}(A.{},{},{cb:?})", s.s(), m(mk)),
            Act::FindFirst(s, mk) => format!("{f}(A.{},{})", s.s(), m(mk)),
            Act::FindNext(s) => format!("{f}(D.{})", s.s()),
            Act::FindClose(s) => format!("{f}(D.{})", s.s()),
            Act::Add(s, src, n, rep, comp) => format!("{f}(A.{},src{src},{},{},comp={comp:#x})", s.s(), show(*n), if *rep { "REPLACEEXISTING" } else { "noflags" }),
            Act::Remove(s, n) => format!("{f}(A.{},{})", s.s(), show(*n)),
            Act::Rename(s, a, b) => format!("{f}(A.{},{},{})", s.s(), show(*a), show(*b)),
            Act::Flush(s) => format!("{f}(A.{})", s.s()),
            Act::Compact(s) => format!("{f}(A.{})", s.s()),
            Act::VerifyFile(s, n, fl) => format!("{f}(A.{},{},flags={fl:#x})", s.s(), show(*n)),
            Act::VerifyArchive(s, fl) => format!("{f}(A.{},flags={fl:#x})", s.s()),
            Act::Extract(s, n) => format!("{f}(A.{},{})", s.s(), show(*n)),
        }
    }
}

/// the alphabet; `full` adds the second-order parameter values (thorough tier)
pub fn alphabet(full: bool) -> Vec<Act> {
    let mut v = vec![];
    use Act::*;
    for p in [PathSel::Good1, PathSel::Good2, PathSel::Missing, PathSel::Garbage, PathSel::Truncated] {
        v.push(OpenArchive(p));
    }
    for (d, h) in [(2u32, 16u32), (1, 16), (4, 16), (2, 15), (3, 16), (5, 16), (99, 16)] {
        if full || matches!((d, h), (2, 16) | (1, 16) | (2, 15)) {
            v.push(CreateArchive(d, h));
        }
    }
    for c in [C2::V1Listfile, C2::BadSize, C2::BadVersion, C2::NullInfo] {
        if full || matches!(c, C2::V1Listfile | C2::BadSize) {
            v.push(CreateArchive2(c));
        }
    }
    for s in LIVE.iter().chain(BAD_A.iter()) {
        v.push(CloseArchive(*s));
    }
    for s in LIVE {
        for n in [0usize, 1, 3, 4] {
            v.push(OpenFile(s, n));
        }
        if full {
            v.push(OpenFile(s, 6));
            v.push(OpenFile(s, 2));
        }
    }
    for s in BAD_A {
        v.push(OpenFile(s, 0));
    }
    for s in LIVE.iter().chain(BAD_F.iter()) {
        v.push(CloseFile(*s));
    }
    for s in LIVE {
        for n in [NSel::Zero, NSel::Three, NSel::Len, NSel::LenPlus5] {
            v.push(Read(s, n, true));
        }
    }
    v.push(Read(Sel::First, NSel::Three, false));
    for s in BAD_F {
        v.push(Read(s, NSel::Three, true));
    }
    let mut seeks: Vec<(Off, u32, Option<i32>)> = vec![
        (Off::Abs(0), 0, None),
        (Off::Abs(1), 0, None),
        (Off::Abs(-1), 0, None),
        (Off::Len, 0, None),
        (Off::LenPlus1, 0, None),
        (Off::Abs(i32::MIN), 0, None),
        (Off::Abs(1), 1, None),
        (Off::Abs(-1), 1, None),
        (Off::Abs(i32::MIN), 1, None),
        (Off::Abs(0), 2, None),
        (Off::Abs(-1), 2, None),
        (Off::Abs(1), 2, None),
        (Off::NegLenMinus1, 2, None),
        (Off::Abs(0), 9, None),
        (Off::Abs(0), 0, Some(1)),
        (Off::Abs(-1), 1, Some(-1)),
    ];
    if full {
        seeks.extend([(Off::LenPlus1, 1, None), (Off::Abs(i32::MIN), 2, None), (Off::Abs(1), 0, Some(0)), (Off::Abs(i32::MAX), 1, Some(i32::MAX)), (Off::Abs(1), 9, None)]);
    }
    for s in LIVE {
        for (o, m, h) in &seeks {
            if s == Sel::Last && !full && !matches!((o, m), (Off::Abs(1), 0) | (Off::Abs(-1), 2) | (Off::Abs(-1), 1)) {
                continue;
            }
            v.push(Seek(s, *o, *m, *h));
        }
    }
    for s in BAD_F {
        v.push(Seek(s, Off::Abs(1), 0, None));
    }
    for s in LIVE {
        v.push(FileSize(s, true));
    }
    v.push(FileSize(Sel::First, false));
    for s in BAD_F {
        v.push(FileSize(s, true));
    }
    for s in LIVE.iter().chain(BAD_F.iter()) {
        v.push(FileName(*s));
    }
    for s in LIVE {
        for b in [Buf::Zero, Buf::Three, Buf::Exact, Buf::SixtyFour] {
            v.push(Info(Kind::File, s, INFO_FILE_SIZE, b, true));
            v.push(Info(Kind::Arch, s, INFO_HASH_TABLE_SIZE, b, true));
        }
        v.push(Info(Kind::File, s, INFO_POSITION, Buf::Exact, true));
    }
    v.push(Info(Kind::File, Sel::First, INFO_POSITION, Buf::Three, true));
    // every information class of a file / an archive x every buffer size between "one dword" and "exact":
    // a class whose size test and copy length disagree only shows for sizes strictly between the two
    for b in [Buf::Four, Buf::ExactMinus1] {
        for c in [INFO_POSITION, INFO_FILE_SIZE] {
            v.push(Info(Kind::File, Sel::First, c, b, true));
        }
        for c in [INFO_ARCHIVE_SIZE, INFO_HASH_TABLE_SIZE, INFO_BLOCK_TABLE_SIZE, INFO_SECTOR_SIZE] {
            v.push(Info(Kind::Arch, Sel::First, c, b, true));
        }
    }
    v.push(Info(Kind::File, Sel::First, INFO_FILE_SIZE, Buf::Exact, false));
    v.push(Info(Kind::File, Sel::First, INFO_FILE_SIZE, Buf::NullZero, true));
    v.push(Info(Kind::File, Sel::First, INFO_HASH_TABLE_SIZE, Buf::Exact, true));
    v.push(Info(Kind::Arch, Sel::First, INFO_FILE_SIZE, Buf::Exact, true));
    for (c, b) in [(INFO_ARCHIVE_SIZE, Buf::Three), (INFO_ARCHIVE_SIZE, Buf::Exact), (INFO_BLOCK_TABLE_SIZE, Buf::Exact), (INFO_SECTOR_SIZE, Buf::Exact), (INFO_SECTOR_SIZE, Buf::Three), (77, Buf::SixtyFour)] {
        v.push(Info(Kind::Arch, Sel::First, c, b, true));
    }
    for s in [Sel::Closed, Sel::Purged, Sel::Null, Sel::Forged1, Sel::ForgedMax] {
        v.push(Info(Kind::File, s, INFO_FILE_SIZE, Buf::Exact, true));
    }
    v.push(Info(Kind::Arch, Sel::Closed, INFO_HASH_TABLE_SIZE, Buf::Exact, true));
    v.push(Info(Kind::Find, Sel::First, INFO_FILE_SIZE, Buf::Exact, true));
    for s in LIVE {
        for n in [0usize, 1, 3, 4] {
            v.push(HasFile(s, n));
        }
        if full {
            v.push(HasFile(s, 5));
        }
    }
    for s in BAD_A {
        v.push(HasFile(s, 0));
    }
    for b in [Buf::Zero, Buf::One, Buf::Three, Buf::ExactMinus1, Buf::Exact, Buf::Big] {
        v.push(ArchiveName(Sel::First, b));
    }
    v.push(ArchiveName(Sel::Last, Buf::Exact));
    for s in BAD_A {
        v.push(ArchiveName(s, Buf::Big));
    }
    for s in LIVE {
        for m in [Some(0usize), None, Some(1)] {
            v.push(Enum(s, m, Cb::All));
        }
    }
    v.push(Enum(Sel::First, Some(0), Cb::StopFirst));
    v.push(Enum(Sel::First, Some(0), Cb::NoCallback));
    v.push(Enum(Sel::First, Some(0), Cb::Reentrant));
    for s in BAD_A {
        v.push(Enum(s, Some(0), Cb::All));
    }
    for s in LIVE {
        for m in [Some(0usize), Some(1), Some(2), Some(3)] {
            v.push(FindFirst(s, m));
        }
    }
    v.push(FindFirst(Sel::First, None));
    for s in BAD_A {
        v.push(FindFirst(s, Some(0)));
    }
    for s in LIVE.iter().chain(BAD_F.iter()) {
        v.push(FindNext(*s));
        v.push(FindClose(*s));
    }
    for s in LIVE {
        v.push(Add(s, 1, 3, false, 0x02));
        v.push(Add(s, 2, 3, true, 0));
        v.push(Add(s, 1, 0, true, 0x02));
        v.push(Add(s, 0, 3, false, 0x02));
        if s == Sel::First || full {
            v.push(Add(s, 1, 7, false, 0));
            v.push(OpenFile(s, 7));
        }
        if full {
            v.push(Add(s, 2, 3, false, 0x10));
        }
    }
    for s in BAD_A {
        v.push(Add(s, 1, 3, false, 0x02));
    }
    for s in LIVE {
        for n in [3usize, 0, 4] {
            v.push(Remove(s, n));
        }
        v.push(Rename(s, 3, 5));
        v.push(Rename(s, 4, 5));
        if full {
            v.push(Rename(s, 0, 3));
            v.push(Rename(s, 5, 3));
        }
    }
    for s in BAD_A {
        v.push(Remove(s, 3));
        v.push(Rename(s, 3, 5));
    }
    for s in LIVE.iter().chain(BAD_A.iter()) {
        v.push(Flush(*s));
        v.push(Compact(*s));
    }
    for s in LIVE {
        v.push(VerifyFile(s, 0, 0));
        v.push(VerifyFile(s, 1, 7));
        v.push(VerifyFile(s, 4, 0));
        if full {
            v.push(VerifyFile(s, 3, 0));
        }
        v.push(VerifyArchive(s, 0));
        v.push(VerifyArchive(s, 0x20));
        if full {
            v.push(VerifyArchive(s, 0xFF));
        }
    }
    for s in BAD_A {
        v.push(VerifyFile(s, 0, 0));
        v.push(VerifyArchive(s, 0x20));
    }
    v.push(Extract(Sel::First, 0));
    v.push(Extract(Sel::First, 4));
    v.push(Extract(Sel::First, 3));
    v.push(Extract(Sel::Null, 0));
    if full {
        v.push(Extract(Sel::Last, 1));
        v.push(Extract(Sel::Closed, 0));
    }
    v
}
