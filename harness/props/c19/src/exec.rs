//! executes a history of symbolic calls on the REAL C API (storm_alt::SFile*) inside a fresh
//! process, updating the model and judging every call
use crate::acts::*;
use crate::model::*;
use crate::util::*;
use std::collections::{BTreeMap, BTreeSet};
use std::ffi::CString;
use std::path::PathBuf;
use storm_alt as s;
use wow_mpq::compression::CompressionMethod;
use wow_mpq::{AddFileOptions, Archive, MutableArchive};

type HANDLE = *mut libc::c_void;
const INVALID32: u32 = 0xFFFF_FFFF;

/// fixture paths: `dir` is built once per worker, `case` is wiped before every history
pub struct Fx {
    pub dir: PathBuf,
    pub case: PathBuf,
}
impl Fx {
    pub fn p(&self, n: &str) -> String {
        self.dir.join(n).to_string_lossy().to_string()
    }
    pub fn c(&self, n: &str) -> String {
        self.case.join(n).to_string_lossy().to_string()
    }
    pub fn path_of(&self, p: PathSel) -> String {
        match p {
            PathSel::Good1 => self.p("good1.mpq"),
            PathSel::Good2 => self.p("good2.mpq"),
            PathSel::Missing => self.p("no-such-dir/missing.mpq"),
            PathSel::Garbage => self.p("garbage.bin"),
            PathSel::Truncated => self.p("truncated.mpq"),
        }
    }
    pub fn src(&self, i: usize) -> String {
        match i {
            0 => self.p("no-such-source.bin"),
            1 => self.p("src1.txt"),
            _ => self.p("src2.bin"),
        }
    }
}

pub struct Ctx<'a> {
    pub fx: &'a Fx,
    pub m: Model,
    pub judging: bool,
    pub viols: Vec<(String, String)>,
    pub counters: BTreeMap<String, u64>,
    pub trace: Vec<String>,
    pub fd: i32,
    pub phase: &'static str,
    pub calls: u64,
    pub tip: String,
}

fn cs(x: &str) -> CString {
    CString::new(x).unwrap()
}
fn hnd(h: H) -> HANDLE {
    h as HANDLE
}
extern "C" fn cb_all(name: *const libc::c_char, ud: *mut libc::c_void) -> bool {
    let v = unsafe { &mut *(ud as *mut Vec<String>) };
    v.push(unsafe { std::ffi::CStr::from_ptr(name) }.to_string_lossy().to_string());
    true
}
/// user data of the re-entrant callback: the archive handle and the collector
struct Reent {
    h: usize,
    got: Vec<String>,
}
extern "C" fn cb_reent(name: *const libc::c_char, ud: *mut libc::c_void) -> bool {
    let r = unsafe { &mut *(ud as *mut Reent) };
    r.got.push(unsafe { std::ffi::CStr::from_ptr(name) }.to_string_lossy().to_string());
    let _ = unsafe { s::SFileHasFile(r.h as HANDLE, name) };
    true
}
extern "C" fn cb_stop(name: *const libc::c_char, ud: *mut libc::c_void) -> bool {
    cb_all(name, ud);
    false
}

impl<'a> Ctx<'a> {
    pub fn new(fx: &'a Fx, fd: i32) -> Ctx<'a> {
        Ctx { fx, m: Model::default(), judging: false, viols: vec![], counters: BTreeMap::new(), trace: vec![], fd, phase: "prefix", calls: 0, tip: String::new() }
    }
    fn v(&mut self, sym: impl Into<String>, detail: impl Into<String>) {
        if self.judging {
            let sym = sym.into();
            if !self.viols.iter().any(|x| x.0 == sym) {
                self.viols.push((sym, detail.into()));
            }
        }
    }
    fn cnt(&mut self, k: &str) {
        if self.judging {
            *self.counters.entry(k.to_string()).or_insert(0) += 1;
        }
    }
    /// progress marker: the parent attributes a hang or crash to the call announced last
    fn mark(&mut self, label: &str) {
        self.calls += 1;
        if self.fd >= 0 {
            let line = format!("P\t{}\t{}\n", self.phase, label);
            unsafe { libc::write(self.fd, line.as_ptr() as *const libc::c_void, line.len()) };
        }
    }
    fn chk(&mut self, g: &Guarded, func: &str, what: &str) {
        if let Some(d) = g.damage() {
            self.v(format!("{func} writes outside the caller's {what}"), d);
        }
    }
    fn dead(&mut self, a: &Act, why: &str, live: bool, success: bool) {
        if !live && success {
            self.v(format!("{} reports success when given {}", a.func(), why), a.label());
        }
    }
    fn new_handle_ok(&mut self, func: &str, h: H) -> bool {
        if h == 0 || self.m.live_any(h) {
            self.v(format!("{func} returns a handle value that is NULL or already live"), format!("handle={h}"));
            return false;
        }
        true
    }
    fn disk(&self) -> String {
        format!("disk[{}{}]", std::path::Path::new(&self.fx.c("created.mpq")).exists() as u8, std::path::Path::new(&self.fx.c("mut.mpq")).exists() as u8)
    }
    pub fn key(&mut self) -> String {
        let d = self.disk();
        self.m.key(&d)
    }

    pub fn enabled(&self, a: &Act) -> bool {
        let m = &self.m;
        let r = |k: Kind, s: Sel| m.resolve(k, s).is_some();
        match a {
            Act::OpenArchive(p) => !matches!(p, PathSel::Good1 | PathSel::Good2) || m.archs.len() < 2,
            Act::CreateArchive(..) => m.archs.len() < 2 && !m.path_open(&self.fx.c("created.mpq")),
            Act::CreateArchive2(..) => m.archs.len() < 2 && !m.path_open(&self.fx.c("mut.mpq")),
            Act::CloseArchive(s) | Act::HasFile(s, _) | Act::ArchiveName(s, _) | Act::Enum(s, _, _) | Act::Add(s, ..) | Act::Remove(s, _) | Act::Rename(s, ..) | Act::Flush(s) | Act::Compact(s) | Act::VerifyFile(s, ..) | Act::VerifyArchive(s, _) | Act::Extract(s, _) => r(Kind::Arch, *s),
            Act::OpenFile(s, _) => r(Kind::Arch, *s) && (!s.is_live() || m.files.len() < 2),
            Act::FindFirst(s, _) => r(Kind::Arch, *s) && (!s.is_live() || m.finds.len() < 2),
            Act::CloseFile(s) | Act::Read(s, ..) | Act::Seek(s, ..) | Act::FileSize(s, _) | Act::FileName(s) => r(Kind::File, *s),
            Act::Info(k, s, ..) => r(*k, *s),
            Act::FindNext(s) | Act::FindClose(s) => r(Kind::Find, *s),
        }
    }

    /// the Rust API's listing of archive `ah` filtered by `mask`
    fn expected_names(&mut self, ah: H, mask: &str) -> Option<BTreeMap<String, u64>> {
        let a = self.m.arch(ah)?;
        if a.diverged {
            return None;
        }
        let l = a.shadow.list()?;
        Some(l.into_iter().filter(|(n, _)| glob(mask, n)).collect())
    }

    fn register_archive(&mut self, func: &str, h: H, kind: &'static str, path: String) {
        if !self.new_handle_ok(func, h) {
            return;
        }
        self.m.note(h);
        let (shadow, shadow_path) = if kind == "mutable" {
            let sp = PathBuf::from(self.fx.c("mut-shadow.mpq"));
            let _ = std::fs::remove_file(&sp);
            match std::fs::copy(&path, &sp).ok().and_then(|_| MutableArchive::open(&sp).ok()) {
                Some(mm) => (Shadow::Mut(Box::new(mm)), Some(sp)),
                None => (Shadow::None, None),
            }
        } else {
            match Archive::open(&path) {
                Ok(a) => (Shadow::Ro(Box::new(a)), None),
                Err(e) => {
                    self.v(format!("{func} succeeds on a file the Rust API refuses to open"), format!("{path}: {e}"));
                    (Shadow::None, None)
                }
            }
        };
        self.m.archs.push(MArch { h, kind, path, shadow, shadow_path, diverged: false, dirty: false, mutations: 0, flushes: 0 });
    }

    /// after a successful close of a mutable archive: what the C API wrote must read back, through the
    /// Rust API, like the archive the Rust API wrote when given the same successful operations
    fn compare_persisted(&mut self, a: MArch) {
        let MArch { path, shadow, shadow_path, diverged, .. } = a;
        let was_mut = matches!(shadow, Shadow::Mut(_));
        drop(shadow); // flushes the shadow
        let Some(sp) = shadow_path else { return };
        if !was_mut || diverged {
            return;
        }
        let (c, r) = (Archive::open(&path), Archive::open(&sp));
        match (c, r) {
            (Ok(mut c), Ok(mut r)) => {
                for n in NAMES {
                    let (x, y) = (c.read_file(n).ok(), r.read_file(n).ok());
                    if x != y {
                        self.v(
                            "after SFileCloseArchive of a modified archive the Rust API reads other content than from the archive the Rust API wrote with the same operations",
                            format!("name={n} c_api_archive={:?} rust_api_archive={:?}", x.map(|d| d.len()), y.map(|d| d.len())),
                        );
                    }
                }
            }
            (Err(e), Ok(_)) => self.v("after SFileCloseArchive of a modified archive the Rust API cannot reopen it", format!("{e}")),
            _ => {}
        }
    }

    fn close_archive_model(&mut self, h: H, at_tip: bool) {
        let Some(i) = self.m.archs.iter().position(|a| a.h == h) else { return };
        let a = self.m.archs.remove(i);
        self.m.closed[0].push(h);
        if at_tip {
            self.m.died_at_tip.push((Kind::Arch, h, false));
        }
        let fs: Vec<H> = self.m.files.iter().filter(|f| f.arch == h).map(|f| f.h).collect();
        self.m.files.retain(|f| f.arch != h);
        for f in fs {
            self.m.purged[1].push(f);
            if at_tip {
                self.m.died_at_tip.push((Kind::File, f, true));
            }
        }
        let ds: Vec<H> = self.m.finds.iter().filter(|f| f.arch == h).map(|f| f.h).collect();
        self.m.finds.retain(|f| f.arch != h);
        for d in ds {
            self.m.purged[2].push(d);
            if at_tip {
                self.m.died_at_tip.push((Kind::Find, d, true));
            }
        }
        self.compare_persisted(a);
    }

    /// a successful mutation reported by the C API is mirrored on the shadow
    fn mirror(&mut self, ah: H, names: &[&str], f: impl FnOnce(&mut MutableArchive) -> bool) {
        let folded: Vec<String> = names.iter().map(|n| fold(n)).collect();
        if let Some(a) = self.m.arch(ah) {
            let ok = match &mut a.shadow {
                Shadow::Mut(mm) => f(mm),
                _ => false,
            };
            if !ok {
                a.diverged = true;
            }
        }
        let diverged = self.m.arch(ah).map(|a| a.diverged).unwrap_or(false);
        if diverged {
            self.cnt("shadow_could_not_follow_a_successful_c_call");
        }
        // file handles opened before on a touched name: snapshot or streaming semantics are both
        // legitimate, so their bytes are no longer judged
        for fl in self.m.files.iter_mut().filter(|fl| fl.arch == ah) {
            if folded.is_empty() || folded.contains(&fold(&fl.name)) {
                fl.data = None;
            }
        }
    }

    pub fn step(&mut self, a: &Act) -> String {
        let label = a.label();
        self.mark(&label);
        let r = self.step_inner(a);
        self.trace.push(format!("{label} -> {r}"));
        r
    }

    fn step_inner(&mut self, a: &Act) -> String {
        let func = a.func();
        match a {
            Act::OpenArchive(p) => {
                let path = self.fx.path_of(*p);
                let c = cs(&path);
                let mut out = Guarded::new(8);
                out.set(&[0; 8]);
                let ok = unsafe { s::SFileOpenArchive(c.as_ptr(), 0, 0, out.ptr() as *mut HANDLE) };
                self.chk(&out, func, "handle out-parameter");
                if ok {
                    let kind = match p {
                        PathSel::Good1 => "ro-good1",
                        PathSel::Good2 => "ro-good2",
                        _ => "ro-other",
                    };
                    self.register_archive(func, out.usize_(), kind, path);
                } else if Archive::open(&path).is_ok() {
                    self.cnt("open_refused_although_rust_api_opens");
                }
                format!("{ok}")
            }
            Act::CreateArchive(disp, hash) => {
                let path = self.fx.c("created.mpq");
                let c = cs(&path);
                let mut out = Guarded::new(8);
                out.set(&[0; 8]);
                let ok = unsafe { s::SFileCreateArchive(c.as_ptr(), *disp, *hash, out.ptr() as *mut HANDLE) };
                self.chk(&out, func, "handle out-parameter");
                if ok {
                    self.register_archive(func, out.usize_(), "ro-created", path);
                }
                format!("{ok}")
            }
            Act::CreateArchive2(c2) => {
                let path = self.fx.c("mut.mpq");
                let c = cs(&path);
                let mut out = Guarded::new(8);
                out.set(&[0; 8]);
                let mut info = s::SFILE_CREATE_MPQ {
                    cb_size: std::mem::size_of::<s::SFILE_CREATE_MPQ>() as u32,
                    mpq_version: 1,
                    user_data: std::ptr::null_mut(),
                    cb_user_data: 0,
                    stream_flags: 0,
                    file_flags_1: 1,
                    file_flags_2: 0,
                    file_flags_3: 0,
                    attr_flags: 0,
                    sector_size: 0,
                    raw_chunk_size: 0,
                    max_file_count: 16,
                };
                let mut ip: *const s::SFILE_CREATE_MPQ = &info;
                match c2 {
                    C2::BadSize => info.cb_size = 8,
                    C2::BadVersion => info.mpq_version = 9,
                    C2::NullInfo => ip = std::ptr::null(),
                    C2::V1Listfile => {}
                }
                if !ip.is_null() {
                    ip = &info;
                }
                let ok = unsafe { s::SFileCreateArchive2(c.as_ptr(), ip, out.ptr() as *mut HANDLE) };
                self.chk(&out, func, "handle out-parameter");
                if ok {
                    self.register_archive(func, out.usize_(), "mutable", path);
                }
                format!("{ok}")
            }
            Act::CloseArchive(sel) => {
                let h = self.m.resolve(Kind::Arch, *sel).unwrap();
                let live = self.m.is_live(Kind::Arch, h);
                let ok = s::SFileCloseArchive(hnd(h));
                self.dead(a, sel.why_dead(), live, ok);
                if ok && live {
                    let j = self.judging;
                    self.close_archive_model(h, j);
                }
                format!("{ok}")
            }
            Act::OpenFile(sel, n) => {
                let h = self.m.resolve(Kind::Arch, *sel).unwrap();
                let live = self.m.is_live(Kind::Arch, h);
                let name = NAMES[*n];
                let c = cs(name);
                let mut out = Guarded::new(8);
                out.set(&[0; 8]);
                let ok = unsafe { s::SFileOpenFileEx(hnd(h), c.as_ptr(), 0, out.ptr() as *mut HANDLE) };
                self.chk(&out, func, "handle out-parameter");
                self.dead(a, sel.why_dead(), live, ok);
                if live {
                    let (refd, size, diverged, class) = {
                        let ar = self.m.arch(h).unwrap();
                        (ar.shadow.read(name), ar.shadow.size(name), ar.diverged, ar.class())
                    };
                    if ok {
                        let fh = out.usize_();
                        if self.new_handle_ok(func, fh) {
                            self.m.note(fh);
                            let mut data = None;
                            if !diverged {
                                match refd {
                                    Some(Some(d)) => data = Some(d),
                                    Some(None) => self.v(format!("SFileOpenFileEx opens a name the Rust API cannot read ({class})"), name.to_string()),
                                    None => {}
                                }
                            }
                            let r = unsafe { s::SFileSetFilePointer(hnd(fh), 0, std::ptr::null_mut(), 1) };
                            let pos = if r == INVALID32 { None } else { Some(r as u64) };
                            self.m.files.push(MFile { h: fh, arch: h, name: name.to_string(), data, size: if diverged { None } else { size }, pos });
                        }
                    } else if matches!(refd, Some(Some(_))) && !diverged {
                        self.cnt("openfile_refused_a_name_the_rust_api_reads");
                    }
                }
                format!("{ok}")
            }
            Act::CloseFile(sel) => {
                let h = self.m.resolve(Kind::File, *sel).unwrap();
                let live = self.m.is_live(Kind::File, h);
                let ok = s::SFileCloseFile(hnd(h));
                self.dead(a, sel.why_dead(), live, ok);
                if ok && live {
                    self.m.files.retain(|f| f.h != h);
                    self.m.closed[1].push(h);
                    if self.judging {
                        self.m.died_at_tip.push((Kind::File, h, false));
                    }
                }
                format!("{ok}")
            }
            Act::Read(sel, ns, with_count) => {
                let h = self.m.resolve(Kind::File, *sel).unwrap();
                let live = self.m.is_live(Kind::File, h);
                let len = self.m.file(h).and_then(|f| f.data.as_ref().map(|d| d.len())).unwrap_or(8);
                let n = match ns {
                    NSel::Zero => 0,
                    NSel::Three => 3,
                    NSel::Len => len,
                    NSel::LenPlus5 => len + 5,
                };
                let mut buf = Guarded::new(n);
                let mut cnt = Guarded::new(4);
                cnt.set(&0xEEEE_EEEEu32.to_le_bytes());
                let cp = if *with_count { cnt.ptr() as *mut u32 } else { std::ptr::null_mut() };
                let ok = unsafe { s::SFileReadFile(hnd(h), buf.ptr() as *mut libc::c_void, n as u32, cp, std::ptr::null_mut()) };
                self.chk(&buf, func, "data buffer");
                self.chk(&cnt, func, "byte-count out-parameter");
                self.dead(a, sel.why_dead(), live, ok);
                let mut res = format!("{ok}");
                if ok && live {
                    let k = cnt.u32();
                    let (pos, data) = {
                        let f = self.m.file(h).unwrap();
                        (f.pos, f.data.clone())
                    };
                    if !*with_count || k == 0xEEEE_EEEE {
                        self.m.file(h).unwrap().pos = None;
                    } else {
                        res = format!("true,{k}");
                        let k = k as usize;
                        if k > n {
                            self.v("SFileReadFile reports more bytes than were requested", format!("requested={n} reported={k}"));
                        } else if let (Some(p), Some(d)) = (pos, data) {
                            let p = p as usize;
                            let remaining = d.len().saturating_sub(p);
                            if p > d.len() {
                                // already reported by the seek that produced this position
                            } else if k > remaining {
                                self.v("SFileReadFile reports more bytes than remain after the position the API last reported", format!("pos={p} len={} reported={k}", d.len()));
                            } else if buf.data()[..k] != d[p..p + k] {
                                self.v("SFileReadFile bytes differ from the Rust API's bytes at the position the API last reported", format!("pos={p} n={n} k={k}"));
                            }
                            if k < n.min(remaining) {
                                self.cnt("short_reads_observed");
                            }
                            self.cnt("reads_compared_with_rust_api");
                        }
                        if let Some(f) = self.m.file(h) {
                            f.pos = pos.map(|p| p + k as u64);
                        }
                    }
                }
                res
            }
            Act::Seek(sel, off, method, high) => {
                let h = self.m.resolve(Kind::File, *sel).unwrap();
                let live = self.m.is_live(Kind::File, h);
                let len = self.m.file(h).and_then(|f| f.data.as_ref().map(|d| d.len() as i64)).unwrap_or(8);
                let low: i32 = match off {
                    Off::Abs(x) => *x,
                    Off::Len => len as i32,
                    Off::LenPlus1 => len as i32 + 1,
                    Off::NegLenMinus1 => -(len as i32) - 1,
                };
                let mut hi = Guarded::new(4);
                hi.set(&high.unwrap_or(0).to_le_bytes());
                let hp = if high.is_some() { hi.ptr() as *mut i32 } else { std::ptr::null_mut() };
                let r = unsafe { s::SFileSetFilePointer(hnd(h), low, hp, *method) };
                self.chk(&hi, func, "high-part in/out parameter");
                self.dead(a, sel.why_dead(), live, r != INVALID32);
                if live && r != INVALID32 {
                    let mut p = r as u64;
                    if high.is_some() {
                        p |= (hi.u32() as u64) << 32;
                    }
                    let (old, known_len) = {
                        let f = self.m.file(h).unwrap();
                        (f.pos, f.data.as_ref().map(|d| d.len() as u64))
                    };
                    if let Some(l) = known_len {
                        if p > l {
                            self.v("SFileSetFilePointer reports a position beyond the end of the file", format!("reported={p} len={l} call={}", a.label()));
                        }
                        if high.is_none() {
                            // a target inside [0,len] (only then: where an out-of-range seek is clamped to is not judged)
                            let target = match method {
                                0 => Some(low as i64),
                                1 => old.map(|o| o as i64 + low as i64),
                                2 => Some(l as i64 + low as i64),
                                _ => None,
                            };
                            if let Some(t) = target {
                                if t >= 0 && t <= l as i64 {
                                    if t as u64 == p {
                                        self.cnt("inrange_seeks_exact");
                                    } else {
                                        self.v("SFileSetFilePointer does not land on a target inside the file", format!("call={} target={t} reported={p} len={l} previous={old:?}", a.label()));
                                    }
                                } else {
                                    self.cnt("out_of_range_seeks_clamped");
                                }
                            }
                        }
                    }
                    self.m.file(h).unwrap().pos = Some(p);
                    return format!("{p}");
                }
                if r == INVALID32 {
                    "INVALID".into()
                } else {
                    format!("{r}")
                }
            }
            Act::FileSize(sel, with_high) => {
                let h = self.m.resolve(Kind::File, *sel).unwrap();
                let live = self.m.is_live(Kind::File, h);
                let mut hi = Guarded::new(4);
                hi.set(&0x7777_7777u32.to_le_bytes());
                let hp = if *with_high { hi.ptr() as *mut u32 } else { std::ptr::null_mut() };
                let r = unsafe { s::SFileGetFileSize(hnd(h), hp) };
                self.chk(&hi, func, "high-part out-parameter");
                self.dead(a, sel.why_dead(), live, r != INVALID32);
                if live && r != INVALID32 {
                    let mut sz = r as u64;
                    if *with_high && hi.u32() != 0x7777_7777 {
                        sz |= (hi.u32() as u64) << 32;
                    }
                    if let Some(want) = self.m.file(h).unwrap().size {
                        if want != sz {
                            self.v("SFileGetFileSize differs from the Rust API's file size", format!("c_api={sz} rust_api={want}"));
                        }
                        self.cnt("sizes_compared_with_rust_api");
                    }
                }
                if r == INVALID32 {
                    "INVALID".into()
                } else {
                    format!("{r}")
                }
            }
            Act::FileName(sel) => {
                let h = self.m.resolve(Kind::File, *sel).unwrap();
                let live = self.m.is_live(Kind::File, h);
                let mut buf = Guarded::new(260);
                let ok = unsafe { s::SFileGetFileName(hnd(h), buf.ptr() as *mut libc::c_char) };
                self.chk(&buf, func, "name buffer (MAX_PATH)");
                self.dead(a, sel.why_dead(), live, ok);
                if ok && live {
                    let want = self.m.file(h).unwrap().name.clone();
                    match buf.cstr() {
                        None if buf.damage().is_some() => {}
                        None => self.v("SFileGetFileName leaves the name unterminated", want),
                        Some(g) if fold(&g) != fold(&want) => self.v("SFileGetFileName differs from the name the file was opened with", format!("got={g} want={want}")),
                        _ => self.cnt("names_compared_with_rust_api"),
                    }
                }
                format!("{ok}")
            }
            Act::Info(kind, sel, class, b, with_needed) => {
                let h = self.m.resolve(*kind, *sel).unwrap();
                let live_file = self.m.is_live(Kind::File, h);
                let live_arch = self.m.is_live(Kind::Arch, h);
                let exact = if matches!(*class, INFO_FILE_SIZE | INFO_POSITION | INFO_ARCHIVE_SIZE) { 8 } else { 4 };
                let n = b.size(exact);
                let mut buf = Guarded::new(n);
                let mut need = Guarded::new(4);
                let np = if *with_needed { need.ptr() as *mut u32 } else { std::ptr::null_mut() };
                let bp = if *b == Buf::NullZero { std::ptr::null_mut() } else { buf.ptr() as *mut libc::c_void };
                let ok = unsafe { s::SFileGetFileInfo(hnd(h), *class, bp, n as u32, np) };
                self.chk(&buf, func, "info buffer");
                self.chk(&need, func, "size-needed out-parameter");
                let why = if *kind == Kind::Find && sel.is_live() { "a live find handle" } else { sel.why_dead() };
                self.dead(a, why, live_file || live_arch, ok);
                if ok && live_file && n >= 8 {
                    let val = buf.u64();
                    match *class {
                        INFO_FILE_SIZE => {
                            if let Some(want) = self.m.file(h).unwrap().size {
                                if want != val {
                                    self.v("SFileGetFileInfo(FILE_SIZE) differs from the Rust API's file size", format!("c_api={val} rust_api={want}"));
                                }
                                self.cnt("sizes_compared_with_rust_api");
                            }
                        }
                        INFO_POSITION => {
                            let f = self.m.file(h).unwrap();
                            let old = f.pos;
                            f.pos = Some(val);
                            if let Some(o) = old {
                                if o != val {
                                    self.v("SFileGetFileInfo(POSITION) differs from the position implied by the API's previous reports", format!("reported={val} implied={o}"));
                                }
                            }
                        }
                        _ => {}
                    }
                }
                if ok && live_arch && n >= exact {
                    if let Some((asz, hts, bts, ss)) = self.m.arch(h).unwrap().shadow.header() {
                        let (got, want): (u64, u64) = match *class {
                            INFO_ARCHIVE_SIZE => (buf.u64(), asz),
                            INFO_HASH_TABLE_SIZE => (buf.u32() as u64, hts as u64),
                            INFO_BLOCK_TABLE_SIZE => (buf.u32() as u64, bts as u64),
                            INFO_SECTOR_SIZE => (buf.u32() as u64, ss as u64),
                            _ => (0, 0),
                        };
                        if got != want {
                            self.v("SFileGetFileInfo on an archive handle differs from the Rust API's header value", format!("class={class} c_api={got} rust_api={want}"));
                        }
                        self.cnt("sizes_compared_with_rust_api");
                    }
                }
                format!("{ok}")
            }
            Act::HasFile(sel, n) => {
                let h = self.m.resolve(Kind::Arch, *sel).unwrap();
                let live = self.m.is_live(Kind::Arch, h);
                let c = cs(NAMES[*n]);
                let r = unsafe { s::SFileHasFile(hnd(h), c.as_ptr()) };
                self.dead(a, sel.why_dead(), live, r);
                if live {
                    let ar = self.m.arch(h).unwrap();
                    let (want, div, class) = (ar.shadow.has(NAMES[*n]), ar.diverged, ar.class());
                    if let (Some(w), false) = (want, div) {
                        if w != r {
                            self.v(format!("SFileHasFile differs from the Rust API's existence answer ({class})"), format!("name={} c_api={r} rust_api={w}", NAMES[*n]));
                        }
                        self.cnt("existence_answers_compared_with_rust_api");
                    }
                }
                format!("{r}")
            }
            Act::ArchiveName(sel, b) => {
                let h = self.m.resolve(Kind::Arch, *sel).unwrap();
                let live = self.m.is_live(Kind::Arch, h);
                let path = self.m.arch(h).map(|x| x.path.clone()).unwrap_or_else(|| "x".repeat(40));
                let n = b.size(path.len() + 1);
                let mut buf = Guarded::new(n);
                let ok = unsafe { s::SFileGetArchiveName(hnd(h), buf.ptr() as *mut libc::c_char, n as u32) };
                self.chk(&buf, func, "name buffer");
                self.dead(a, sel.why_dead(), live, ok);
                if ok && live {
                    match buf.cstr() {
                        None => self.v("SFileGetArchiveName leaves the name unterminated inside the caller's buffer", format!("size={n}")),
                        Some(g) if g != path => self.v("SFileGetArchiveName differs from the path the archive was opened with", format!("got={g} want={path}")),
                        _ => self.cnt("names_compared_with_rust_api"),
                    }
                }
                format!("{ok}")
            }
            Act::Enum(sel, mask, cb) => {
                let h = self.m.resolve(Kind::Arch, *sel).unwrap();
                let live = self.m.is_live(Kind::Arch, h);
                let mc = mask.map(|i| cs(MASKS[i]));
                let mp = mc.as_ref().map(|c| c.as_ptr()).unwrap_or(std::ptr::null());
                let mut got: Vec<String> = vec![];
                let f: Option<extern "C" fn(*const libc::c_char, *mut libc::c_void) -> bool> = match cb {
                    Cb::All => Some(cb_all),
                    Cb::StopFirst => Some(cb_stop),
                    Cb::NoCallback => None,
                    Cb::Reentrant => Some(cb_reent),
                };
                let ok = if *cb == Cb::Reentrant {
                    let mut re = Reent { h, got: vec![] };
                    let ok = unsafe { s::SFileEnumFiles(hnd(h), mp, std::ptr::null(), f, &mut re as *mut Reent as *mut libc::c_void) };
                    got = re.got;
                    ok
                } else {
                    unsafe { s::SFileEnumFiles(hnd(h), mp, std::ptr::null(), f, &mut got as *mut Vec<String> as *mut libc::c_void) }
                };
                self.dead(a, sel.why_dead(), live, ok || !got.is_empty());
                if ok && live {
                    let m = mask.map(|i| MASKS[i]).unwrap_or("*");
                    if let Some(exp) = self.expected_names(h, m) {
                        let class = self.m.arch(h).unwrap().class();
                        let gs: BTreeSet<String> = got.iter().cloned().collect();
                        if gs.len() != got.len() {
                            self.v("SFileEnumFiles reports a name twice", format!("{got:?}"));
                        }
                        if let Some(x) = gs.iter().find(|g| !exp.contains_key(*g)) {
                            self.v(format!("SFileEnumFiles reports a name the Rust API does not list for the mask ({class})"), format!("mask={m} name={x}"));
                        }
                        if matches!(*cb, Cb::All | Cb::Reentrant) {
                            if let Some(x) = exp.keys().find(|e| !gs.contains(*e)) {
                                self.v(format!("SFileEnumFiles omits a name the Rust API lists for the mask ({class})"), format!("mask={m} name={x}"));
                            }
                        }
                        self.cnt("names_compared_with_rust_api");
                    }
                }
                format!("{ok},{}", got.len())
            }
            Act::FindFirst(sel, mask) => {
                let h = self.m.resolve(Kind::Arch, *sel).unwrap();
                let live = self.m.is_live(Kind::Arch, h);
                let mc = mask.map(|i| cs(MASKS[i]));
                let mp = mc.as_ref().map(|c| c.as_ptr()).unwrap_or(std::ptr::null());
                let mut fd = Guarded::new(std::mem::size_of::<s::SFILE_FIND_DATA>());
                let r = unsafe { s::SFileFindFirstFile(hnd(h), mp, fd.ptr() as *mut s::SFILE_FIND_DATA, std::ptr::null()) } as usize;
                self.chk(&fd, func, "SFILE_FIND_DATA");
                self.dead(a, sel.why_dead(), live, r != 0);
                if live {
                    let m = mask.map(|i| MASKS[i]).unwrap_or("*").to_string();
                    let exp = self.expected_names(h, &m);
                    let class = self.m.arch(h).unwrap().class();
                    if r != 0 {
                        if self.new_handle_ok(func, r) {
                            self.m.note(r);
                            let mut returned = BTreeSet::new();
                            if let Some(n) = self.judge_find_data(&mut fd, func, &exp, class) {
                                returned.insert(n);
                            }
                            let am = self.m.arch(h).unwrap().mutations;
                            self.m.finds.push(MFind { h: r, arch: h, mask: m, expected: exp, returned, arch_mutations: am, exhausted: false });
                        }
                    } else if let Some(e) = exp {
                        if !e.is_empty() {
                            self.v(format!("SFileFindFirstFile reports no match although the Rust API lists matching names ({class})"), format!("mask={m} expected={:?}", e.keys().collect::<Vec<_>>()));
                        }
                    }
                }
                format!("{}", if r != 0 { "handle" } else { "NULL" })
            }
            Act::FindNext(sel) => {
                let h = self.m.resolve(Kind::Find, *sel).unwrap();
                let live = self.m.is_live(Kind::Find, h);
                let mut fd = Guarded::new(std::mem::size_of::<s::SFILE_FIND_DATA>());
                let ok = unsafe { s::SFileFindNextFile(hnd(h), fd.ptr() as *mut s::SFILE_FIND_DATA) };
                self.chk(&fd, func, "SFILE_FIND_DATA");
                self.dead(a, sel.why_dead(), live, ok);
                if live {
                    let (exp, ah, am) = {
                        let d = self.m.find(h).unwrap();
                        (d.expected.clone(), d.arch, d.arch_mutations)
                    };
                    let (class, cur_mut) = self.m.arch(ah).map(|x| (x.class(), x.mutations)).unwrap_or(("closed archive", am));
                    if ok {
                        if let Some(n) = self.judge_find_data(&mut fd, func, &exp, class) {
                            if !self.m.find(h).unwrap().returned.insert(n.clone()) {
                                self.v("SFileFindNextFile reports a name twice", n);
                            }
                        }
                    } else {
                        let d = self.m.find(h).unwrap();
                        d.exhausted = true;
                        if let (Some(e), true) = (&d.expected, cur_mut == am) {
                            let missing: Vec<&String> = e.keys().filter(|k| !d.returned.contains(*k) && !(k.len() > 259 && d.returned.contains(&k[..259]))).collect();
                            if !missing.is_empty() {
                                let det = format!("mask={} missing={missing:?}", d.mask);
                                self.v(format!("find enumeration ends before every matching name the Rust API lists was reported ({class})"), det);
                            } else {
                                self.cnt("find_enumerations_complete");
                            }
                        }
                    }
                }
                format!("{ok}")
            }
            Act::FindClose(sel) => {
                let h = self.m.resolve(Kind::Find, *sel).unwrap();
                let live = self.m.is_live(Kind::Find, h);
                let ok = unsafe { s::SFileFindClose(hnd(h)) };
                self.dead(a, sel.why_dead(), live, ok);
                if ok && live {
                    self.m.finds.retain(|f| f.h != h);
                    self.m.closed[2].push(h);
                    if self.judging {
                        self.m.died_at_tip.push((Kind::Find, h, false));
                    }
                }
                format!("{ok}")
            }
            Act::Add(sel, src, n, replace, comp) => {
                let h = self.m.resolve(Kind::Arch, *sel).unwrap();
                let live = self.m.is_live(Kind::Arch, h);
                let sp = self.fx.src(*src);
                let (c1, c2) = (cs(&sp), cs(NAMES[*n]));
                let flags = if *replace { 0x8000_0000u32 } else { 0 };
                let ok = unsafe { s::SFileAddFileEx(hnd(h), c1.as_ptr(), c2.as_ptr(), flags, *comp, 0) };
                self.dead(a, sel.why_dead(), live, ok);
                if ok && live {
                    let name = NAMES[*n];
                    // StormLib's documented compression constants; content, not encoding, is compared
                    let cm = match *comp {
                        0 => CompressionMethod::None,
                        0x10 => CompressionMethod::BZip2,
                        _ => CompressionMethod::Zlib,
                    };
                    self.mirror(h, &[name], |mm| mm.add_file(&sp, name, AddFileOptions::new().compression(cm).replace_existing(true)).is_ok());
                    let ar = self.m.arch(h).unwrap();
                    ar.mutations += 1;
                    ar.dirty = true;
                }
                format!("{ok}")
            }
            Act::Remove(sel, n) => {
                let h = self.m.resolve(Kind::Arch, *sel).unwrap();
                let live = self.m.is_live(Kind::Arch, h);
                let c = cs(NAMES[*n]);
                let ok = unsafe { s::SFileRemoveFile(hnd(h), c.as_ptr(), 0) };
                self.dead(a, sel.why_dead(), live, ok);
                if ok && live {
                    let name = NAMES[*n];
                    self.mirror(h, &[name], |mm| mm.remove_file(name).is_ok());
                    let ar = self.m.arch(h).unwrap();
                    ar.mutations += 1;
                    ar.dirty = true;
                }
                format!("{ok}")
            }
            Act::Rename(sel, o, n) => {
                let h = self.m.resolve(Kind::Arch, *sel).unwrap();
                let live = self.m.is_live(Kind::Arch, h);
                let (c1, c2) = (cs(NAMES[*o]), cs(NAMES[*n]));
                let ok = unsafe { s::SFileRenameFile(hnd(h), c1.as_ptr(), c2.as_ptr()) };
                self.dead(a, sel.why_dead(), live, ok);
                if ok && live {
                    let (on, nn) = (NAMES[*o], NAMES[*n]);
                    self.mirror(h, &[on, nn], |mm| mm.rename_file(on, nn).is_ok());
                    let ar = self.m.arch(h).unwrap();
                    ar.mutations += 1;
                    ar.dirty = true;
                }
                format!("{ok}")
            }
            Act::Flush(sel) => {
                let h = self.m.resolve(Kind::Arch, *sel).unwrap();
                let live = self.m.is_live(Kind::Arch, h);
                let ok = unsafe { s::SFileFlushArchive(hnd(h)) };
                self.dead(a, sel.why_dead(), live, ok);
                if ok && live && self.m.arch(h).unwrap().kind == "mutable" {
                    self.mirror(h, &["\u{0}none"], |mm| mm.flush().is_ok());
                    let ar = self.m.arch(h).unwrap();
                    ar.dirty = false;
                    ar.flushes += 1;
                }
                format!("{ok}")
            }
            Act::Compact(sel) => {
                let h = self.m.resolve(Kind::Arch, *sel).unwrap();
                let live = self.m.is_live(Kind::Arch, h);
                let ok = unsafe { s::SFileCompactArchive(hnd(h), std::ptr::null(), false) };
                self.dead(a, sel.why_dead(), live, ok);
                if ok && live {
                    self.mirror(h, &["\u{0}none"], |mm| mm.compact().is_ok());
                    let ar = self.m.arch(h).unwrap();
                    ar.dirty = false;
                    ar.flushes += 1;
                }
                format!("{ok}")
            }
            Act::VerifyFile(sel, n, flags) => {
                let h = self.m.resolve(Kind::Arch, *sel).unwrap();
                let live = self.m.is_live(Kind::Arch, h);
                let c = cs(NAMES[*n]);
                let ok = unsafe { s::SFileVerifyFile(hnd(h), c.as_ptr(), *flags) };
                self.dead(a, sel.why_dead(), live, ok);
                format!("{ok}")
            }
            Act::VerifyArchive(sel, flags) => {
                let h = self.m.resolve(Kind::Arch, *sel).unwrap();
                let live = self.m.is_live(Kind::Arch, h);
                let ok = unsafe { s::SFileVerifyArchive(hnd(h), *flags) };
                self.dead(a, sel.why_dead(), live, ok);
                format!("{ok}")
            }
            Act::Extract(sel, n) => {
                let h = self.m.resolve(Kind::Arch, *sel).unwrap();
                let live = self.m.is_live(Kind::Arch, h);
                let dest = self.fx.c(&format!("out/extract{n}.bin"));
                let _ = std::fs::remove_file(&dest);
                let (c1, c2) = (cs(NAMES[*n]), cs(&dest));
                let ok = unsafe { s::SFileExtractFile(hnd(h), c1.as_ptr(), c2.as_ptr(), 0) };
                self.dead(a, sel.why_dead(), live, ok);
                if ok && live {
                    let ar = self.m.arch(h).unwrap();
                    let (want, div, class) = (ar.shadow.read(NAMES[*n]), ar.diverged, ar.class());
                    if !div {
                        match (want, std::fs::read(&dest).ok()) {
                            (Some(Some(w)), Some(g)) => {
                                if w != g {
                                    self.v(format!("SFileExtractFile writes bytes that differ from the Rust API's ({class})"), format!("name={} want_len={} got_len={}", NAMES[*n], w.len(), g.len()));
                                }
                                self.cnt("reads_compared_with_rust_api");
                            }
                            (Some(None), _) => self.v(format!("SFileExtractFile extracts a name the Rust API cannot read ({class})"), NAMES[*n].to_string()),
                            _ => {}
                        }
                    }
                }
                format!("{ok}")
            }
        }
    }

    /// checks on a filled SFILE_FIND_DATA; returns the reported name
    fn judge_find_data(&mut self, fd: &mut Guarded, func: &str, exp: &Option<BTreeMap<String, u64>>, class: &str) -> Option<String> {
        let base = fd.ptr() as usize;
        let d = unsafe { &*(fd.ptr() as *const s::SFILE_FIND_DATA) };
        let bytes: Vec<u8> = d.c_file_name.iter().map(|c| *c as u8).collect();
        let Some(p) = bytes.iter().position(|x| *x == 0) else {
            self.v(format!("{func} leaves cFileName unterminated"), String::new());
            return None;
        };
        let name = String::from_utf8_lossy(&bytes[..p]).to_string();
        let pn = d.sz_plain_name as usize;
        if pn < base || pn >= base + 260 {
            self.v(format!("{func} sets szPlainName outside cFileName"), format!("offset={}", pn as i64 - base as i64));
        }
        if let Some(e) = exp {
            match e.get(&name) {
                // a name that does not fit cFileName[MAX_PATH] cannot be reported faithfully: not judged
                None if name.len() == 259 && e.keys().any(|k| k.len() > 259 && k.starts_with(&name)) => self.cnt("find_names_truncated_to_MAX_PATH_not_judged"),
                None => self.v(format!("{func} reports a name the Rust API does not list for the mask ({class})"), name.clone()),
                Some(sz) => {
                    if *sz as u32 != d.file_size {
                        self.v(format!("{func} reports a file size that differs from the Rust API's ({class})"), format!("name={name} c_api={} rust_api={sz}", d.file_size));
                    }
                    self.cnt("names_compared_with_rust_api");
                }
            }
        }
        Some(name)
    }

    /// end-of-history probe (destructive; not part of the state): every live handle must still be
    /// accepted and read like the Rust API; every handle the judged call invalidated must be refused
    pub fn probe(&mut self) {
        self.phase = "probe";
        let tip = if self.tip == "SFileCloseArchive" { " after SFileCloseArchive".to_string() } else { String::new() };
        let mut flagged: Vec<H> = vec![];
        for (k, h, purged) in self.m.died_at_tip.clone() {
            let why = if purged { "its archive was closed" } else { "it was closed" };
            match k {
                Kind::File => {
                    self.mark("probe SFileGetFileSize(dead file)");
                    let r = unsafe { s::SFileGetFileSize(hnd(h), std::ptr::null_mut()) };
                    self.mark("probe SFileCloseFile(dead file)");
                    let c = s::SFileCloseFile(hnd(h));
                    if r != INVALID32 || c {
                        self.v(format!("file handle is still accepted after {why}"), format!("handle={h} size={r} close={c}"));
                    }
                }
                Kind::Find => {
                    self.mark("probe SFileFindClose(dead find)");
                    let c = unsafe { s::SFileFindClose(hnd(h)) };
                    if c {
                        self.v(format!("find handle is still accepted after {why}"), format!("handle={h}: SFileFindClose succeeds"));
                    }
                }
                Kind::Arch => {
                    self.mark("probe SFileCloseArchive(dead archive)");
                    let c = s::SFileCloseArchive(hnd(h));
                    if c {
                        self.v("archive handle is still accepted after it was closed", format!("handle={h}: SFileCloseArchive succeeds a second time"));
                    }
                }
            }
        }
        // live file handles
        let files: Vec<(H, Option<Vec<u8>>)> = self.m.files.iter().map(|f| (f.h, f.data.clone())).collect();
        for (h, data) in &files {
            self.mark("probe live file");
            let r = unsafe { s::SFileGetFileSize(hnd(*h), std::ptr::null_mut()) };
            if r == INVALID32 {
                self.v(format!("a live file handle is no longer accepted{tip}"), format!("handle={h}"));
                flagged.push(*h);
                continue;
            }
            if let Some(d) = data {
                let p = unsafe { s::SFileSetFilePointer(hnd(*h), 0, std::ptr::null_mut(), 0) };
                let mut buf = Guarded::new(d.len() + 5);
                let mut cnt = Guarded::new(4);
                let ok = unsafe { s::SFileReadFile(hnd(*h), buf.ptr() as *mut libc::c_void, (d.len() + 5) as u32, cnt.ptr() as *mut u32, std::ptr::null_mut()) };
                self.chk(&buf, "SFileReadFile", "data buffer");
                if p == 0 && ok {
                    let k = cnt.u32() as usize;
                    if k > d.len() || buf.data()[..k] != d[..k] {
                        self.v(format!("a live file handle reads other bytes than the Rust API{tip}"), format!("handle={h} k={k} len={}", d.len()));
                    }
                    self.cnt("reads_compared_with_rust_api");
                }
            }
        }
        for (h, _) in &files {
            self.mark("probe SFileCloseFile(live)");
            if !s::SFileCloseFile(hnd(*h)) && !flagged.contains(h) {
                self.v(format!("SFileCloseFile refuses a live file handle{tip}"), format!("handle={h}"));
            }
        }
        let finds: Vec<H> = self.m.finds.iter().map(|f| f.h).collect();
        for h in &finds {
            self.mark("probe SFileFindClose(live)");
            if !unsafe { s::SFileFindClose(hnd(*h)) } {
                self.v(format!("SFileFindClose refuses a live find handle{tip}"), format!("handle={h}"));
            }
        }
        let archs: Vec<H> = self.m.archs.iter().map(|a| a.h).collect();
        for h in &archs {
            self.mark("probe live archive");
            let mut buf = Guarded::new(4);
            let a1 = unsafe { s::SFileGetFileInfo(hnd(*h), INFO_HASH_TABLE_SIZE, buf.ptr() as *mut libc::c_void, 4, std::ptr::null_mut()) };
            let mut nb = Guarded::new(300);
            let a2 = unsafe { s::SFileGetArchiveName(hnd(*h), nb.ptr() as *mut libc::c_char, 300) };
            if !a1 && !a2 {
                self.v(format!("a live archive handle is no longer accepted{tip}"), format!("handle={h}"));
            }
        }
        for h in &archs {
            self.mark("probe SFileCloseArchive(live)");
            if s::SFileCloseArchive(hnd(*h)) {
                self.close_archive_model(*h, false);
            } else {
                self.v(format!("SFileCloseArchive refuses a live archive handle{tip}"), format!("handle={h}"));
            }
        }
        // everything the probe closed itself must now be refused
        for (h, _) in &files {
            if unsafe { s::SFileGetFileSize(hnd(*h), std::ptr::null_mut()) } != INVALID32 {
                self.v("file handle is still accepted after it was closed", format!("handle={h} (end-of-history probe)"));
            }
        }
        for h in &finds {
            if unsafe { s::SFileFindClose(hnd(*h)) } {
                self.v("find handle is still accepted after it was closed", format!("handle={h} (end-of-history probe)"));
            }
        }
        for h in &archs {
            let c = cs("readme.txt");
            if unsafe { s::SFileHasFile(hnd(*h), c.as_ptr()) } || s::SFileCloseArchive(hnd(*h)) {
                self.v("archive handle is still accepted after it was closed", format!("handle={h} (end-of-history probe)"));
            }
        }
    }
}
