//! C19 (sequential part) — the StormLib-style C API is memory-safe and agrees with the Rust API
//! on any single-threaded history.
//!
//! Explicit-state search over the REAL `SFile*` functions (ffi/storm-ffi/src/lib.rs compiled
//! unchanged by the `storm-alt` crate).  A state is a history of symbolic calls; every history
//! is executed in a FRESH forked process (the handle tables are process-global statics), with a
//! timeout (hang => violation) and crash detection (signal => violation).  Successor histories
//! are deduplicated on a canonical key of the reference model reached.
mod acts;
mod exec;
mod model;
mod util;

use acts::*;
use exec::*;
use serde_json::{json, Value};
use std::collections::{BTreeMap, HashSet};
use std::time::{Duration, Instant};
use vcore::*;
use wow_mpq::{ArchiveBuilder, AttributesOption, FormatVersion, ListfileOption};

/// a history that has not finished after this many seconds "does not return" (unbounded loop);
/// a self-deadlock is recognised much earlier: the child is single-threaded, so once its only
/// thread sits in futex(2) nobody can wake it
const HANG_SECS: u64 = 30;
const FUTEX_SAMPLES: u32 = 3;
const FRONTIER_DIR: &str = "/verif/.scratch/c19-frontier";

fn find_act(alpha: &[Act], a: &Act) -> u16 {
    alpha.iter().position(|x| x == a).unwrap_or_else(|| panic!("initial-state action {a:?} not in the alphabet")) as u16
}

/// the initial states, each given as the history that establishes it
fn initial_states(alpha: &[Act]) -> Vec<(&'static str, Vec<u16>)> {
    let f = |a: Act| find_act(alpha, &a);
    vec![
        ("no archive open", vec![]),
        ("one read-only archive open", vec![f(Act::OpenArchive(PathSel::Good1))]),
        ("one created mutable archive open holding one added file", vec![f(Act::CreateArchive2(C2::V1Listfile)), f(Act::Add(Sel::First, 1, 3, false, 0x02))]),
        (
            "two read-only archives open, each with a file handle and a find handle",
            vec![
                f(Act::OpenArchive(PathSel::Good1)),
                f(Act::OpenArchive(PathSel::Good2)),
                f(Act::OpenFile(Sel::First, 0)),
                f(Act::OpenFile(Sel::Last, 0)),
                f(Act::FindFirst(Sel::First, Some(0))),
                f(Act::FindFirst(Sel::Last, Some(0))),
            ],
        ),
    ]
}

fn build_fixtures(s: &Scratch) -> Fx {
    let dir = s.0.clone();
    ArchiveBuilder::new()
        .version(FormatVersion::V2)
        .block_size(0)
        .listfile_option(ListfileOption::Generate)
        .attributes_option(AttributesOption::GenerateFull)
        .add_file_data(b"hello world".to_vec(), "readme.txt")
        .add_file_data(gen::content("period251", 1300, 512, 3), "data\\blob.bin")
        .add_file_data(b"Z".to_vec(), "x")
        .add_file_data(vec![], "empty.dat")
        .build(dir.join("good1.mpq"))
        .expect("good1");
    ArchiveBuilder::new()
        .version(FormatVersion::V1)
        .block_size(3)
        .listfile_option(ListfileOption::Generate)
        .add_file_data(b"a different readme, 27 bytes".to_vec(), "readme.txt")
        .add_file_data(gen::content("half", 300, 4096, 9), "other\\thing.bin")
        .build(dir.join("good2.mpq"))
        .expect("good2");
    std::fs::write(dir.join("garbage.bin"), gen::content("incompressible", 3000, 512, 5)).unwrap();
    let g1 = std::fs::read(dir.join("good1.mpq")).unwrap();
    std::fs::write(dir.join("truncated.mpq"), &g1[..20]).unwrap();
    std::fs::write(dir.join("src1.txt"), b"seventeen bytes!!").unwrap();
    std::fs::write(dir.join("src2.bin"), gen::content("period2", 900, 512, 2)).unwrap();
    Fx { case: dir.join("case"), dir }
}

// ---------------------------------------------------------------- one history in a fresh process

struct ChildOut {
    result: Option<Value>,
    hung: bool,
    deadlock: bool,
    signal: Option<i32>,
    exit: Option<i32>,
    last_mark: Option<(String, String)>,
    panic: Option<(String, String)>,
}

fn write_fd(fd: i32, s: &str) {
    let mut off = 0;
    let b = s.as_bytes();
    while off < b.len() {
        let n = unsafe { libc::write(fd, b[off..].as_ptr() as *const libc::c_void, b.len() - off) };
        if n <= 0 {
            break;
        }
        off += n as usize;
    }
}

/// child side: never returns
fn child_main(fd: i32, fx: &Fx, alpha: &[Act], hist: &[u16], judge_from: usize) -> ! {
    std::panic::set_hook(Box::new(move |info| {
        let msg = if let Some(s) = info.payload().downcast_ref::<&str>() {
            s.to_string()
        } else if let Some(s) = info.payload().downcast_ref::<String>() {
            s.clone()
        } else {
            "<non-string panic>".into()
        };
        let file = info.location().map(|l| l.file().to_string()).unwrap_or_default();
        let file = file.strip_prefix("/repo/").unwrap_or(&file).to_string();
        write_fd(fd, &format!("X\t{}\t{}\n", file, msg.replace(['\n', '\t'], " ")));
    }));
    let r = std::panic::catch_unwind(std::panic::AssertUnwindSafe(|| {
        let mut cx = Ctx::new(fx, fd);
        let mut unreplayable = None;
        for (i, id) in hist.iter().enumerate() {
            let a = &alpha[*id as usize];
            cx.judging = i >= judge_from;
            cx.phase = if cx.judging { "tip" } else { "prefix" };
            if !cx.enabled(a) {
                unreplayable = Some(a.label());
                break;
            }
            if i + 1 == hist.len() {
                cx.tip = a.func().to_string();
            }
            cx.step(a);
        }
        if cx.tip.is_empty() {
            cx.tip = "the initial state".into();
        }
        cx.judging = true;
        let key = cx.key();
        let enabled: Vec<u16> = (0..alpha.len()).filter(|i| cx.enabled(&alpha[*i])).map(|i| i as u16).collect();
        let objs = json!({"archives": cx.m.archs.len(), "files": cx.m.files.len(), "finds": cx.m.finds.len()});
        cx.probe();
        let out = json!({
            "key": key, "enabled": enabled, "viols": cx.viols, "counters": cx.counters, "trace": cx.trace,
            "calls": cx.calls, "unreplayable": unreplayable, "objs": objs,
        });
        write_fd(fd, &format!("R\t{}\n", out));
    }));
    unsafe { libc::_exit(if r.is_ok() { 0 } else { 101 }) }
}

fn run_in_child(fx: &Fx, alpha: &[Act], hist: &[u16], judge_from: usize) -> ChildOut {
    let _ = std::fs::remove_dir_all(&fx.case);
    std::fs::create_dir_all(fx.case.join("out")).expect("case dir");
    let mut fds = [0i32; 2];
    assert_eq!(unsafe { libc::pipe(fds.as_mut_ptr()) }, 0, "pipe");
    let pid = unsafe { libc::fork() };
    assert!(pid >= 0, "fork");
    if pid == 0 {
        unsafe { libc::close(fds[0]) };
        child_main(fds[1], fx, alpha, hist, judge_from);
    }
    unsafe { libc::close(fds[1]) };
    let deadline = Instant::now() + Duration::from_secs(HANG_SECS);
    let mut buf: Vec<u8> = vec![];
    let mut hung = false;
    let mut deadlock = false;
    let mut futex_seen = 0u32;
    loop {
        let now = Instant::now();
        if now >= deadline {
            hung = true;
            break;
        }
        let ms = (deadline - now).as_millis().min(150) as i32;
        let mut p = libc::pollfd { fd: fds[0], events: libc::POLLIN, revents: 0 };
        let rc = unsafe { libc::poll(&mut p, 1, ms) };
        if rc > 0 {
            let mut tmp = [0u8; 8192];
            let n = unsafe { libc::read(fds[0], tmp.as_mut_ptr() as *mut libc::c_void, tmp.len()) };
            if n == 0 {
                break;
            }
            if n > 0 {
                buf.extend_from_slice(&tmp[..n as usize]);
            } else if std::io::Error::last_os_error().kind() != std::io::ErrorKind::Interrupted {
                break;
            }
        } else if rc == 0 {
            // nothing for 150 ms: is the only thread of the child blocked on a futex?
            let sc = std::fs::read_to_string(format!("/proc/{pid}/syscall")).unwrap_or_default();
            if sc.starts_with("202 ") {
                futex_seen += 1;
                if futex_seen >= FUTEX_SAMPLES {
                    hung = true;
                    deadlock = true;
                    break;
                }
            } else {
                futex_seen = 0;
            }
        }
    }
    if hung {
        unsafe { libc::kill(pid, libc::SIGKILL) };
    }
    let mut status = 0i32;
    unsafe { libc::waitpid(pid, &mut status, 0) };
    unsafe { libc::close(fds[0]) };
    let mut out = ChildOut { result: None, hung, deadlock, signal: None, exit: None, last_mark: None, panic: None };
    if libc::WIFSIGNALED(status) {
        out.signal = Some(libc::WTERMSIG(status));
    } else if libc::WIFEXITED(status) {
        out.exit = Some(libc::WEXITSTATUS(status));
    }
    for line in String::from_utf8_lossy(&buf).lines() {
        let mut it = line.splitn(3, '\t');
        match (it.next(), it.next(), it.next()) {
            (Some("P"), Some(ph), Some(l)) => out.last_mark = Some((ph.to_string(), l.to_string())),
            (Some("X"), Some(f), Some(m)) => out.panic = Some((f.to_string(), m.to_string())),
            (Some("R"), Some(rest), more) => {
                let s = match more {
                    Some(m) => format!("{rest}\t{m}"),
                    None => rest.to_string(),
                };
                out.result = serde_json::from_str(&s).ok();
            }
            _ => {}
        }
    }
    out
}

// ---------------------------------------------------------------- the space of one BFS level

struct FState {
    init: usize,
    hist: Vec<u16>,
    enabled: Vec<u16>,
}
struct Level {
    _scratch: Scratch,
    fx: Fx,
    alpha: Vec<Act>,
    inits: Vec<(&'static str, Vec<u16>)>,
    states: Vec<FState>,
    starts: Vec<u64>, // prefix sums of enabled counts
    init_mode: bool,
}
impl Level {
    fn load(arg: &str, _tier: Tier, init_mode: bool) -> Level {
        let alpha = alphabet(true);
        let inits = initial_states(&alpha);
        let scratch = Scratch::new("c19");
        let fx = build_fixtures(&scratch);
        let mut states = vec![];
        if init_mode {
            for (i, (_, h)) in inits.iter().enumerate() {
                states.push(FState { init: i, hist: h.clone(), enabled: vec![0] });
            }
        } else {
            let v: Value = serde_json::from_str(&std::fs::read_to_string(arg).expect("frontier file")).expect("frontier json");
            for s in v["states"].as_array().unwrap() {
                let ids = |k: &str| s[k].as_array().unwrap().iter().map(|x| x.as_u64().unwrap() as u16).collect::<Vec<_>>();
                states.push(FState { init: s["init"].as_u64().unwrap() as usize, hist: ids("hist"), enabled: ids("en") });
            }
        }
        let mut starts = vec![];
        let mut n = 0u64;
        for s in &states {
            starts.push(n);
            n += s.enabled.len() as u64;
        }
        starts.push(n);
        Level { _scratch: scratch, fx, alpha, inits, states, starts, init_mode }
    }
    fn decode(&self, i: u64) -> (usize, Vec<u16>) {
        let s = self.starts.partition_point(|x| *x <= i) - 1;
        let mut h = self.states[s].hist.clone();
        if !self.init_mode {
            h.push(self.states[s].enabled[(i - self.starts[s]) as usize]);
        }
        (s, h)
    }
    fn labels(&self, h: &[u16]) -> Vec<String> {
        h.iter().map(|i| self.alpha[*i as usize].label()).collect()
    }
}

impl Space for Level {
    fn len(&self) -> u64 {
        *self.starts.last().unwrap()
    }
    fn case_timeout(&self) -> u64 {
        HANG_SECS * 2 + 30
    }
    fn describe(&self, i: u64) -> Value {
        let (s, h) = self.decode(i);
        let st = &self.states[s];
        let il = self.inits[st.init].1.len();
        if self.init_mode {
            json!({"initial": self.inits[st.init].0, "prefix": [], "call": "(initial history)", "initial_history": self.labels(&h)})
        } else {
            json!({"initial": self.inits[st.init].0, "prefix": self.labels(&h[il..h.len() - 1]), "call": self.alpha[*h.last().unwrap() as usize].label()})
        }
    }
    fn run(&self, i: u64) -> CaseResult {
        let (_, h) = self.decode(i);
        let mut r = CaseResult::new();
        r.nontrivial = true;
        r.key = format!("{:?}", h);
        let judge_from = if self.init_mode { 0 } else { h.len() - 1 };
        let o = run_in_child(&self.fx, &self.alpha, &h, judge_from);
        let tip_label = h.last().map(|x| self.alpha[*x as usize].label()).unwrap_or("(empty history)".into());
        r.count("transitions", if self.init_mode { h.len() as u64 } else { 1 });
        let at = |o: &ChildOut| match &o.last_mark {
            Some((ph, l)) if ph == "tip" => l.replace(".first", ".live").replace(".last", ".live"),
            Some((ph, l)) => format!("{ph}: {l}"),
            None => "before the first call".into(),
        };
        match &o.result {
            Some(v) => {
                if let Some(u) = v["unreplayable"].as_str() {
                    panic!("history not replayable at {u}: {:?}", self.labels(&h));
                }
                for x in v["viols"].as_array().cloned().unwrap_or_default() {
                    r.viol(x[0].as_str().unwrap_or(""), format!("{} | trace={}", x[1].as_str().unwrap_or(""), v["trace"]));
                }
                for (k, n) in v["counters"].as_object().cloned().unwrap_or_default() {
                    r.count(&k, n.as_u64().unwrap_or(0));
                }
                r.count("api_calls_executed_including_replayed_prefixes", v["calls"].as_u64().unwrap_or(0));
                let last = v["trace"].as_array().and_then(|t| t.last()).and_then(|x| x.as_str()).unwrap_or("").to_string();
                let f = h.last().map(|x| self.alpha[*x as usize].func()).unwrap_or("init");
                r.outcome = format!("{f}:{}", last.rsplit(" -> ").next().unwrap_or("").split(',').next().unwrap_or(""));
                r.payload = Some(json!({"k": v["key"], "e": v["enabled"], "o": v["objs"]}));
            }
            None if o.hung => {
                r.outcome = "hang".into();
                let how = if o.deadlock { "self-deadlock: its only thread blocks on a lock for good" } else { "no result within the time limit" };
                r.viol(format!("{} does not return ({how})", at(&o)), format!("history={:?} limit={}s", self.labels(&h), HANG_SECS));
            }
            None => {
                r.outcome = "crash".into();
                let how = match (o.signal, o.exit) {
                    (Some(s), _) => format!("killed by signal {s}"),
                    (_, Some(e)) => format!("exit status {e}"),
                    _ => "unknown end".into(),
                };
                match &o.panic {
                    Some((file, msg)) => r.viol(format!("{} under {}", panic_class(file, msg), at(&o).split('(').next().unwrap_or("")), format!("process {how}; at {}; history={:?}; panic at {file}: {msg}", at(&o), self.labels(&h))),
                    None => r.viol(format!("process dies in {} ({})", at(&o).split('(').next().unwrap_or(""), if o.signal.is_some() { "signal" } else { "exit" }), format!("process {how}; at {}; history={:?}", at(&o), self.labels(&h))),
                }
            }
        }
        let _ = tip_label;
        r
    }
}

fn build(name: &str, arg: &str, tier: Tier) -> Box<dyn Space> {
    match name {
        "init" => Box::new(Level::load(arg, tier, true)),
        "level" => Box::new(Level::load(arg, tier, false)),
        _ => panic!("space {name}"),
    }
}

// ---------------------------------------------------------------- stand-alone reproduction

/// `c19 --history <tier> <initial index> <id-or-label;id-or-label;...>` : run one history and print every call
fn repro(args: &[String]) {
    let _tier = &args[0]; // both tiers use the same alphabet
    let alpha = alphabet(true);
    let inits = initial_states(&alpha);
    let scratch = Scratch::new("c19r");
    let fx = build_fixtures(&scratch);
    let init: usize = args[1].parse().expect("initial index");
    let mut h = inits[init].1.clone();
    for t in args.get(2).map(|s| s.as_str()).unwrap_or("").split(';').filter(|t| !t.is_empty()) {
        match t.parse::<u16>() {
            Ok(i) => h.push(i),
            Err(_) => h.push(alpha.iter().position(|a| a.label() == t).unwrap_or_else(|| panic!("no action labelled {t}")) as u16),
        }
    }
    let o = run_in_child(&fx, &alpha, &h, 0);
    println!("initial: {}", inits[init].0);
    match &o.result {
        Some(v) => {
            for t in v["trace"].as_array().unwrap() {
                println!("  {}", t.as_str().unwrap());
            }
            println!("key: {}", v["key"]);
            for x in v["viols"].as_array().unwrap() {
                println!("VIOLATION {} :: {}", x[0], x[1]);
            }
        }
        None => println!("no result: hung={} deadlock={} signal={:?} exit={:?} last={:?} panic={:?}", o.hung, o.deadlock, o.signal, o.exit, o.last_mark, o.panic),
    }
}

fn main() {
    let args: Vec<String> = std::env::args().collect();
    if let Some(p) = args.iter().position(|a| a == "--history") {
        repro(&args[p + 1..]);
        return;
    }
    if args.iter().any(|a| a == "--rustapi") {
        // triage helper: the same add through the Rust API alone
        use wow_mpq::compression::CompressionMethod;
        let scratch = Scratch::new("c19t");
        let fx = build_fixtures(&scratch);
        for (comp, src) in [(CompressionMethod::None, 2), (CompressionMethod::Zlib, 2), (CompressionMethod::Zlib, 1), (CompressionMethod::None, 1)] {
            let p = scratch.path("t.mpq");
            let _ = std::fs::remove_file(&p);
            ArchiveBuilder::new().version(FormatVersion::V1).block_size(3).listfile_option(ListfileOption::Generate).build(&p).unwrap();
            let mut m = wow_mpq::MutableArchive::open(&p).unwrap();
            let r = m.add_file(fx.src(src), "added\\one.txt", wow_mpq::AddFileOptions::new().compression(comp).replace_existing(true));
            let rd = m.read_file("added\\one.txt");
            println!("{comp:?} src{src}: add={:?} read_before_flush={:?} size={:?}", r.is_ok(), rd.as_ref().map(|d| d.len()).map_err(|e| e.to_string()), m.find_file("added\\one.txt").ok().flatten().map(|f| (f.file_size, f.compressed_size, f.flags)));
            let _ = m.flush();
            let rd = m.read_file("added\\one.txt");
            println!("   after flush: read={:?}", rd.as_ref().map(|d| d.len()).map_err(|e| e.to_string()));
            drop(m);
            let mut a = wow_mpq::Archive::open(&p).unwrap();
            println!("   reopened: read={:?}", a.read_file("added\\one.txt").as_ref().map(|d| d.len()).map_err(|e| e.to_string()));
        }
        return;
    }
    if args.iter().any(|a| a == "--actions") {
        for (i, a) in alphabet(true).iter().enumerate() {
            println!("{i}\t{}", a.label());
        }
        return;
    }
    let Mode::Supervisor(mut c) = start("C19", "model_checking", build) else { return };
    let tier = c.tier;
    let alpha = alphabet(true);
    let inits = initial_states(&alpha);
    let max_depth: usize = std::env::var("C19_DEPTH").ok().and_then(|s| s.parse().ok()).unwrap_or(tier.pick(3, 4));
    let _ = std::fs::create_dir_all(FRONTIER_DIR);

    let mut seen: HashSet<String> = HashSet::new();
    let mut frontier: Vec<FState> = vec![];
    let mut max_objs = [0u64; 3];
    let absorb_objs = |o: &Value, mx: &mut [u64; 3]| {
        for (i, k) in ["archives", "files", "finds"].iter().enumerate() {
            mx[i] = mx[i].max(o[*k].as_u64().unwrap_or(0));
        }
    };
    let payloads = c.run_space("init", "");
    for (i, p) in payloads {
        let key = p["k"].as_str().unwrap_or("").to_string();
        absorb_objs(&p["o"], &mut max_objs);
        if seen.insert(key) {
            frontier.push(FState { init: i as usize, hist: inits[i as usize].1.clone(), enabled: p["e"].as_array().unwrap().iter().map(|x| x.as_u64().unwrap() as u16).collect() });
        }
    }
    let mut states_total = frontier.len() as u64;
    let mut per_level = vec![json!({"depth": 0, "histories": inits.len(), "new_states": frontier.len()})];
    let mut hung_labels: BTreeMap<String, u64> = BTreeMap::new();
    let mut pruned = 0u64;
    let mut samples = vec![];
    let mut depth_done = 0;
    for depth in 1..=max_depth {
        if frontier.is_empty() {
            break;
        }
        // calls that were seen to hang are executed from one state per level only
        let mut kept: BTreeMap<String, u64> = BTreeMap::new();
        for s in frontier.iter_mut() {
            s.enabled.retain(|id| {
                let l = alpha[*id as usize].label_class();
                if hung_labels.contains_key(&l) {
                    let k = kept.entry(l).or_insert(0);
                    *k += 1;
                    if *k > 1 {
                        pruned += 1;
                        return false;
                    }
                }
                true
            });
        }
        let f = format!("{}/{}-L{}.json", FRONTIER_DIR, tier.as_str(), depth);
        let v = json!({"states": frontier.iter().map(|s| json!({"init": s.init, "hist": s.hist, "en": s.enabled})).collect::<Vec<_>>()});
        std::fs::write(&f, v.to_string()).expect("frontier file");
        let lvl = Level::load(&f, tier, false);
        let before_viol = c.agg.viols.len();
        let payloads = c.run_space("level", &f);
        for fv in &c.agg.viols[before_viol..] {
            if fv.symptom.contains("does not return") {
                *hung_labels.entry(fv.desc["call"].as_str().unwrap_or("").replace(".first", ".live").replace(".last", ".live")).or_insert(0) += 1;
            }
        }
        let mut next = vec![];
        let n_hist = lvl.len();
        for (i, p) in payloads {
            let key = p["k"].as_str().unwrap_or("").to_string();
            absorb_objs(&p["o"], &mut max_objs);
            if seen.insert(key.clone()) {
                let (s, h) = lvl.decode(i);
                if samples.len() < 8 && (next.len() % 97 == 5 || depth == 1 && next.len() < 2) {
                    samples.push(json!({"history": lvl.labels(&h), "initial": inits[lvl.states[s].init].0, "state_key": key}));
                }
                next.push(FState { init: lvl.states[s].init, hist: h, enabled: p["e"].as_array().unwrap().iter().map(|x| x.as_u64().unwrap() as u16).collect() });
            }
        }
        eprintln!("C19 depth {depth}: {} states expanded, {} histories executed, {} new states", frontier.len(), n_hist, next.len());
        per_level.push(json!({"depth": depth, "states_expanded": frontier.len(), "histories": n_hist, "new_states": next.len()}));
        states_total += next.len() as u64;
        frontier = next;
        depth_done = depth;
    }
    let transitions = c.agg.counters.get("transitions").copied().unwrap_or(0);
    c.extra_cov.insert("states".into(), json!(states_total));
    c.extra_cov.insert("transitions".into(), json!(transitions));
    c.extra_cov.insert("traces_validated_against_impl".into(), json!(c.agg.evaluations));
    c.extra_cov.insert("max_depth".into(), json!(depth_done));
    c.extra_cov.insert("initial_states".into(), json!(inits.iter().map(|i| i.0).collect::<Vec<_>>()));
    c.extra_cov.insert("levels".into(), json!(per_level));
    c.extra_cov.insert("unexpanded_frontier".into(), json!(frontier.len()));
    c.extra_cov.insert("pruned_after_known_finding".into(), json!({"histories_not_executed": pruned, "calls_seen_to_hang": hung_labels}));
    c.extra_cov.insert("max_live_objects_reached".into(), json!({"archives": max_objs[0], "files": max_objs[1], "finds": max_objs[2]}));
    let mut per_func: BTreeMap<&str, u64> = BTreeMap::new();
    for a in &alpha {
        *per_func.entry(a.func()).or_insert(0) += 1;
    }
    c.extra_cov.insert(
        "axes".into(),
        json!({"alphabet_calls": alpha.len(), "c_functions": per_func.len(), "calls_per_function": per_func,
            "handle_selectors": ["first live", "last live", "live handle of another kind", "closed", "purged by archive close", "NULL", "forged max+1", "forged usize::MAX"],
            "names": (0..NAMES.len()).map(show).collect::<Vec<_>>(), "masks": MASKS, "hang_timeout_s": HANG_SECS}),
    );
    c.agg.samples.extend(samples);
    c.rule = format!(
        "state = history of symbolic C-API calls (handle arguments are selectors resolved against the model); every history is replayed in a fresh forked process and extended by every enabled call of the {}-call alphabet; BFS to depth {} from {} initial histories; successors are deduplicated on the canonical key of the model state (live archives with kind/dirty/contents per the shadow Rust API object, live file handles with archive rank/name/reported position, live find handles with mask/progress, which kinds of dead handles exist, files on disk). Every executed history is non-trivial and distinct (key = the call sequence). Only the last call of a history and the end-of-history probe are judged (the prefix was judged when it was the tip). At most 2 live archives / 2 file handles / 2 find handles.",
        alpha.len(), depth_done, inits.len()
    );
    c.assume("model membership is driven only by the C API's own successful open/close returns; the contents come from a shadow Rust-API object per archive handle: wow_mpq::Archive::open on the same path for read-only handles, a wow_mpq::MutableArchive on a byte copy of the freshly created file for SFileCreateArchive2 handles, given the same operation whenever the C call reports success");
    c.assume("not judged: which error code is set, whether a call on a live handle succeeds (except closing it and the acceptance probe), where an out-of-range seek is clamped to inside [0,len], short reads, mask semantics of SFileEnumFiles beyond '*' and '*.txt', bytes of a file handle whose name was modified after it was opened");
    c.assume("buffers handed to the API are 8-byte aligned with 64 canary bytes on both sides; SFileGetFileName has no size parameter and is given MAX_PATH (260) bytes");
    c.assume("the multi-threaded part of C19 (loom) and the valgrind replay named in the plan are separate checks");
    c.finish();
}
