fn main() { eprintln!("not built yet"); std::process::exit(2); }
