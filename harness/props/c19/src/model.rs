//! reference model: which handles are live (driven by the API's own successful open/close
//! returns) and, per archive, a shadow object of the Rust API on the same archive
use crate::acts::*;
use crate::util::*;
use std::collections::{BTreeMap, BTreeSet};
use std::path::PathBuf;
use wow_mpq::{Archive, MutableArchive};

pub type H = usize;

pub enum Shadow {
    Ro(Box<Archive>),
    Mut(Box<MutableArchive>),
    None,
}
impl Shadow {
    pub fn has(&mut self, n: &str) -> Option<bool> {
        match self {
            Shadow::Ro(a) => Some(matches!(a.find_file(n), Ok(Some(_)))),
            Shadow::Mut(a) => Some(matches!(a.find_file(n), Ok(Some(_)))),
            Shadow::None => None,
        }
    }
    /// None = no shadow; Some(None) = the Rust API cannot read that name
    pub fn read(&mut self, n: &str) -> Option<Option<Vec<u8>>> {
        match self {
            Shadow::Ro(a) => Some(a.read_file(n).ok()),
            // MutableArchive::read_file falls back to the archive as it was opened; a name that
            // MutableArchive::find_file reports absent is absent
            Shadow::Mut(a) => Some(if matches!(a.find_file(n), Ok(Some(_))) { a.read_file(n).ok() } else { None }),
            Shadow::None => None,
        }
    }
    pub fn size(&mut self, n: &str) -> Option<u64> {
        match self {
            Shadow::Ro(a) => a.find_file(n).ok().flatten().map(|f| f.file_size),
            Shadow::Mut(a) => a.find_file(n).ok().flatten().map(|f| f.file_size),
            Shadow::None => None,
        }
    }
    /// names (with sizes) the Rust API lists; None when it has no listing
    pub fn list(&mut self) -> Option<Vec<(String, u64)>> {
        let l = match self {
            Shadow::Ro(a) => a.list().ok()?,
            Shadow::Mut(a) => a.list().ok()?,
            Shadow::None => return None,
        };
        Some(l.into_iter().map(|e| (e.name, e.size)).collect())
    }
    pub fn header(&self) -> Option<(u64, u32, u32, u32)> {
        match self {
            Shadow::Ro(a) => {
                let h = a.header();
                Some((h.get_archive_size(), h.hash_table_size, h.block_table_size, h.sector_size() as u32))
            }
            _ => None,
        }
    }
}

pub struct MArch {
    pub h: H,
    pub kind: &'static str, // ro-good1 | ro-good2 | ro-created | mutable
    pub path: String,
    pub shadow: Shadow,
    pub shadow_path: Option<PathBuf>,
    /// the shadow could not follow an operation the C API reported as successful: contents unjudged
    pub diverged: bool,
    pub dirty: bool,
    pub mutations: u32,
    pub flushes: u32,
}
impl MArch {
    pub fn class(&self) -> &'static str {
        if self.kind != "mutable" {
            "read-only archive"
        } else if self.mutations == 0 {
            "mutable archive without changes"
        } else if self.dirty {
            "mutable archive with unflushed changes"
        } else {
            "mutable archive after flush"
        }
    }
}
pub struct MFile {
    pub h: H,
    pub arch: H,
    pub name: String,
    pub data: Option<Vec<u8>>,
    pub size: Option<u64>,
    pub pos: Option<u64>,
}
pub struct MFind {
    pub h: H,
    pub arch: H,
    pub mask: String,
    pub expected: Option<BTreeMap<String, u64>>,
    pub returned: BTreeSet<String>,
    pub arch_mutations: u32,
    pub exhausted: bool,
}

#[derive(Default)]
pub struct Model {
    pub archs: Vec<MArch>,
    pub files: Vec<MFile>,
    pub finds: Vec<MFind>,
    pub closed: [Vec<H>; 3],
    pub purged: [Vec<H>; 3],
    pub max_h: H,
    /// handles that stopped being live during the judged call: (kind, handle, purged?)
    pub died_at_tip: Vec<(Kind, H, bool)>,
}
impl Model {
    pub fn live(&self, k: Kind) -> Vec<H> {
        match k {
            Kind::Arch => self.archs.iter().map(|a| a.h).collect(),
            Kind::File => self.files.iter().map(|a| a.h).collect(),
            Kind::Find => self.finds.iter().map(|a| a.h).collect(),
        }
    }
    pub fn is_live(&self, k: Kind, h: H) -> bool {
        self.live(k).contains(&h)
    }
    pub fn live_any(&self, h: H) -> bool {
        self.is_live(Kind::Arch, h) || self.is_live(Kind::File, h) || self.is_live(Kind::Find, h)
    }
    pub fn note(&mut self, h: H) {
        if h != usize::MAX && h > self.max_h {
            self.max_h = h;
        }
    }
    pub fn resolve(&self, k: Kind, s: Sel) -> Option<H> {
        let live = self.live(k);
        let r = match s {
            Sel::First => live.first().copied(),
            Sel::Last => {
                if live.len() >= 2 {
                    live.last().copied()
                } else {
                    None
                }
            }
            Sel::Wrong => {
                let order = match k {
                    Kind::Arch => [Kind::File, Kind::Find],
                    Kind::File => [Kind::Arch, Kind::Find],
                    Kind::Find => [Kind::Arch, Kind::File],
                };
                order.iter().find_map(|o| self.live(*o).first().copied())
            }
            Sel::Closed => self.closed[k as usize].last().copied(),
            Sel::Purged => self.purged[k as usize].last().copied(),
            Sel::Null => Some(0),
            Sel::Forged1 => Some(self.max_h + 1),
            Sel::ForgedMax => Some(usize::MAX),
        };
        // a dead-handle selector must never name a value that is live again (id reuse)
        match (s.is_live(), r) {
            (false, Some(h)) if s != Sel::Wrong && self.live_any(h) => None,
            _ => r,
        }
    }
    pub fn arch(&mut self, h: H) -> Option<&mut MArch> {
        self.archs.iter_mut().find(|a| a.h == h)
    }
    pub fn file(&mut self, h: H) -> Option<&mut MFile> {
        self.files.iter_mut().find(|a| a.h == h)
    }
    pub fn find(&mut self, h: H) -> Option<&mut MFind> {
        self.finds.iter_mut().find(|a| a.h == h)
    }
    pub fn path_open(&self, p: &str) -> bool {
        self.archs.iter().any(|a| a.path == p)
    }

    /// canonical key of the model state (finer than needed): handle values are replaced by their
    /// rank among the live handles of their kind
    pub fn key(&mut self, disk: &str) -> String {
        let mut s = String::new();
        let arch_rank: Vec<H> = self.archs.iter().map(|a| a.h).collect();
        for a in self.archs.iter_mut() {
            s.push_str(&format!("A[{}|{}|d{}|m{}|f{}|x{}|", a.kind, a.path.rsplit('/').next().unwrap_or(""), a.dirty as u8, a.mutations.min(3), a.flushes.min(2), a.diverged as u8));
            for n in NAMES {
                match a.shadow.read(n) {
                    Some(Some(d)) => s.push_str(&format!("{:x}.{},", fnv(&d) & 0xffff, d.len())),
                    Some(None) => s.push_str("-,"),
                    None => s.push_str("?,"),
                }
            }
            match a.shadow.list() {
                Some(l) => s.push_str(&format!("L{}", l.len())),
                None => s.push_str("L?"),
            }
            s.push(']');
        }
        for f in &self.files {
            let ai = arch_rank.iter().position(|h| *h == f.arch).map(|i| i as i64).unwrap_or(-1);
            s.push_str(&format!("F[{}|{}|p{:?}|l{:?}|j{}]", ai, f.name, f.pos, f.size, f.data.is_some() as u8));
        }
        for d in &self.finds {
            let ai = arch_rank.iter().position(|h| *h == d.arch).map(|i| i as i64).unwrap_or(-1);
            s.push_str(&format!("D[{}|{}|r{}|e{}|x{}]", ai, d.mask, d.returned.len(), d.expected.as_ref().map(|e| e.len() as i64).unwrap_or(-1), d.exhausted as u8));
        }
        s.push_str(&format!(
            "dead[a{} f{} fp{} d{} dp{}]",
            !self.closed[0].is_empty() as u8,
            !self.closed[1].is_empty() as u8,
            !self.purged[1].is_empty() as u8,
            !self.closed[2].is_empty() as u8,
            !self.purged[2].is_empty() as u8
        ));
        s.push_str(disk);
        s
    }
}
