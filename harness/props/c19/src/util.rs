//! small independent helpers: canary-guarded buffers, wildcard matcher, name folding

pub const CANARY: usize = 64;

/// a caller buffer of `n` bytes with 64 canary bytes on both sides, 8-byte aligned
pub struct Guarded {
    raw: Vec<u64>,
    pub n: usize,
}
impl Guarded {
    pub fn new(n: usize) -> Guarded {
        let words = (2 * CANARY + n + 7) / 8;
        let mut g = Guarded { raw: vec![0u64; words], n };
        let total = words * 8;
        let b = g.bytes_mut();
        for (i, x) in b.iter_mut().enumerate().take(total) {
            *x = if i < CANARY {
                0xA5
            } else if i < CANARY + n {
                0xCD
            } else {
                0x5A
            };
        }
        g
    }
    fn bytes_mut(&mut self) -> &mut [u8] {
        let len = self.raw.len() * 8;
        unsafe { std::slice::from_raw_parts_mut(self.raw.as_mut_ptr() as *mut u8, len) }
    }
    fn bytes(&self) -> &[u8] {
        let len = self.raw.len() * 8;
        unsafe { std::slice::from_raw_parts(self.raw.as_ptr() as *const u8, len) }
    }
    pub fn ptr(&mut self) -> *mut u8 {
        unsafe { (self.raw.as_mut_ptr() as *mut u8).add(CANARY) }
    }
    pub fn data(&self) -> &[u8] {
        &self.bytes()[CANARY..CANARY + self.n]
    }
    pub fn set(&mut self, v: &[u8]) {
        let n = self.n.min(v.len());
        self.bytes_mut()[CANARY..CANARY + n].copy_from_slice(&v[..n]);
    }
    /// None when intact, else a description of the first damaged canary byte
    pub fn damage(&self) -> Option<String> {
        let b = self.bytes();
        for (i, x) in b.iter().enumerate() {
            if i < CANARY {
                if *x != 0xA5 {
                    return Some(format!("byte {} before the buffer", CANARY - i));
                }
            } else if i >= CANARY + self.n && *x != 0x5A {
                return Some(format!("byte {} past the end of a {}-byte buffer", i - CANARY - self.n, self.n));
            }
        }
        None
    }
    pub fn u32(&self) -> u32 {
        u32::from_le_bytes(self.data()[..4].try_into().unwrap())
    }
    pub fn u64(&self) -> u64 {
        u64::from_le_bytes(self.data()[..8].try_into().unwrap())
    }
    pub fn usize_(&self) -> usize {
        self.u64() as usize
    }
    /// NUL-terminated string inside the buffer
    pub fn cstr(&self) -> Option<String> {
        let d = self.data();
        let p = d.iter().position(|x| *x == 0)?;
        Some(String::from_utf8_lossy(&d[..p]).to_string())
    }
}

/// MPQ name identity: case-insensitive, '/' == '\\'
pub fn fold(n: &str) -> String {
    n.chars().map(|c| if c == '/' { '\\' } else { c.to_ascii_uppercase() }).collect()
}

/// `*` = any run (possibly empty), `?` = exactly one character; whole-name match, ASCII case-insensitive
pub fn glob(mask: &str, text: &str) -> bool {
    fn go(m: &[u8], t: &[u8]) -> bool {
        if m.is_empty() {
            return t.is_empty();
        }
        match m[0] {
            b'*' => (0..=t.len()).any(|k| go(&m[1..], &t[k..])),
            b'?' => !t.is_empty() && go(&m[1..], &t[1..]),
            c => !t.is_empty() && t[0].to_ascii_lowercase() == c.to_ascii_lowercase() && go(&m[1..], &t[1..]),
        }
    }
    go(mask.as_bytes(), text.as_bytes())
}

pub fn fnv(b: &[u8]) -> u64 {
    let mut h: u64 = 0xcbf29ce484222325;
    for x in b {
        h ^= *x as u64;
        h = h.wrapping_mul(0x100000001b3);
    }
    h
}
